// C03 — a window holds exactly the points of its period, emitted on schedule.
//
// Generator: window configuration (time or count) x per-group non-decreasing timestamp
// sequences built from a gap-pattern alphabet x an interleaving of the groups.
// Oracle: declarative reference ("the points received so far with T-period <= t < T")
// plus the reference emission schedule written from pipeline/window.go.
//
// This file is unit Window (windows triggered by points). Unit Barrier (barrier_test.go) drives the
// same time window below barrier().idle(): windows flushed by barriers.
package c03

import (
	"fmt"
	"reflect"
	"testing"
	"time"

	"verifharness/kit"

	"pgregory.net/rapid"
)

type Case struct {
	Count      bool    `json:"count"`
	Period     int64   `json:"period"` // ns for time windows, points for count windows
	Every      int64   `json:"every"`
	Align      bool    `json:"align"`
	Fill       bool    `json:"fill"`
	GroupBy    bool    `json:"groupby"` // groupBy('host') (else a single nil group)
	Base       int64   `json:"base"`    // time of the earliest possible point (unix ns)
	Groups     int     `json:"groups"`
	Order      []int   `json:"order"` // group of the i-th fed point
	Gaps       []int64 `json:"gaps"`  // gap (ns) between the i-th fed point and the previous point of its group
	UnitSuffix string  `json:"unit"`  // ms | s | u : unit of period/every in the script
}

const rule = "rapid: window(period/every/align/fillPeriod | periodCount/everyCount/fillPeriod) x 1-3 interleaved groups x gap-pattern timestamps; " +
	"non-trivial = >=2 windows emitted for one group, one of which dropped a previously buffered point; distinct by case hash"

var unitNs = map[string]int64{"u": 1e3, "ms": 1e6, "s": 1e9}

func gen(t *rapid.T) Case {
	var c Case
	c.Count = rapid.IntRange(0, 3).Draw(t, "kind") == 0
	c.GroupBy = rapid.Bool().Draw(t, "groupby")
	c.Groups = 1
	if c.GroupBy {
		c.Groups = rapid.IntRange(1, 3).Draw(t, "groups")
	}
	n := rapid.IntRange(0, 60).Draw(t, "n")
	if c.Count {
		c.Period = int64(rapid.IntRange(1, 8).Draw(t, "periodCount"))
		c.Every = int64(rapid.IntRange(1, 8).Draw(t, "everyCount"))
		if c.Period > c.Every {
			c.Fill = rapid.Bool().Draw(t, "fill")
		}
		c.UnitSuffix = "s"
	} else {
		c.UnitSuffix = rapid.SampledFrom([]string{"ms", "s", "u"}).Draw(t, "unit")
		u := unitNs[c.UnitSuffix]
		pk := int64(rapid.IntRange(1, 20).Draw(t, "periodK"))
		c.Period = pk * u
		switch rapid.IntRange(0, 4).Draw(t, "everyKind") {
		case 0:
			c.Every = 0
		case 1: // overlapping
			c.Every = int64(rapid.IntRange(1, int(pk)).Draw(t, "everyK")) * u
		case 2: // tumbling
			c.Every = c.Period
		case 3: // gaps
			c.Every = (pk + int64(rapid.IntRange(1, 10).Draw(t, "everyK"))) * u
		case 4:
			c.Every = int64(rapid.IntRange(1, 30).Draw(t, "everyK")) * u
		}
		c.Align = rapid.Bool().Draw(t, "align")
		// fillPeriod is documented to apply only if the period is greater than every; with
		// every >= period both readings are accepted (see run), but the first window must span
		// a full period either way
		c.Fill = rapid.Bool().Draw(t, "fill")
	}
	step := c.Every
	if step == 0 || c.Count {
		step = c.Period
		if c.Count {
			step = 1e9
		}
	}
	c.Base = 1_000_000_000_000_000_000 + rapid.Int64Range(0, 2*step).Draw(t, "phase")
	per := c.Period
	if c.Count {
		per = 3e9
	}
	gapAlphabet := []int64{0, 0, 1, step / 2, step - 1, step, step + 1, per - 1, per, per + 1, per / 3, 2*per + step/2, 5*per + 3, step / 3, 1}
	// a third of the cases is built from segments (bursts of many points inside one 'every' step,
	// steady stretches, silences that empty the window): the ring buffer's wrap / purge / grow states
	// depend on how many points arrive between two emissions
	segmented := rapid.IntRange(0, 2).Draw(t, "segmented") == 0
	mode, left := 0, 0
	for i := 0; i < n; i++ {
		c.Order = append(c.Order, rapid.IntRange(0, c.Groups-1).Draw(t, "g"))
		var g int64
		if segmented {
			if left == 0 {
				mode = rapid.IntRange(0, 3).Draw(t, "segmode")
				left = rapid.IntRange(1, 12).Draw(t, "seglen")
			}
			left--
			switch mode {
			case 0: // burst
				g = rapid.SampledFrom([]int64{0, 0, 1, step / 16, step / 8}).Draw(t, "bgap")
			case 1: // steady
				g = rapid.SampledFrom([]int64{step / 2, step - 1, step, step + 1, per / 3}).Draw(t, "sgap")
			case 2: // one silence, then a burst
				g = rapid.SampledFrom([]int64{per, per + 1, 2*per + step/2, 5*per + 3}).Draw(t, "qgap")
				mode = 0
			default:
				g = rapid.SampledFrom(gapAlphabet).Draw(t, "gap")
			}
		} else {
			g = rapid.SampledFrom(gapAlphabet).Draw(t, "gap")
		}
		if g < 0 {
			g = 0
		}
		c.Gaps = append(c.Gaps, g)
	}
	return c
}

func durLit(ns int64, unit string) string {
	return fmt.Sprintf("%d%s", ns/unitNs[unit], unit)
}

func (c Case) script() string {
	s := "stream|from().measurement('m')"
	if c.GroupBy {
		s += ".groupBy('host')"
	}
	s += "|window()"
	if c.Count {
		s += fmt.Sprintf(".periodCount(%d).everyCount(%d)", c.Period, c.Every)
	} else {
		s += fmt.Sprintf(".period(%s).every(%s)", durLit(c.Period, c.UnitSuffix), durLit(c.Every, c.UnitSuffix))
		if c.Align {
			s += ".align()"
		}
	}
	if c.Fill {
		s += ".fillPeriod()"
	}
	return s + "|log().prefix('W')"
}

func (c Case) points() []kit.Pt {
	last := make([]int64, c.Groups)
	for i := range last {
		last[i] = c.Base
	}
	var pts []kit.Pt
	for i, g := range c.Order {
		last[g] += c.Gaps[i]
		pts = append(pts, kit.Pt{Name: "m", Tags: map[string]string{"host": fmt.Sprintf("h%d", g), "x": fmt.Sprintf("x%d", i%3)},
			Fields: map[string]kit.FV{"n": kit.I(int64(i))}, Time: last[g]})
	}
	return pts
}

type expBatch struct {
	group int
	T     int64
	pts   []kit.Pt
}

// tolerated: for align+fillPeriod the first emission time is only pinned down to
// "a multiple of every, not before t0+period, less than one every later" (see DESIGN C03).
type groupModel struct {
	started  bool
	next     int64
	received []kit.Pt
	count    int64
	nextCnt  int64
	emitted  int
}

func trunc(t, every int64) int64 {
	if every <= 0 {
		return t
	}
	return time.Unix(0, t).UTC().Truncate(time.Duration(every)).UnixNano()
}

// reference computes the expected batches in emission order.
func reference(c Case, pts []kit.Pt) []expBatch {
	gm := make([]*groupModel, c.Groups)
	for i := range gm {
		gm[i] = &groupModel{}
	}
	var out []expBatch
	for i, p := range pts {
		gi := c.Order[i]
		if !c.GroupBy {
			gi = 0
		}
		g := gm[gi]
		if c.Count {
			g.received = append(g.received, p)
			g.count++
			if !g.started {
				g.started = true
				g.nextCnt = c.Every
				if c.Fill {
					g.nextCnt = c.Period
				}
			}
			if g.count == g.nextCnt {
				g.nextCnt += c.Every
				k := int64(len(g.received))
				m := c.Period
				if k < m {
					m = k
				}
				out = append(out, expBatch{group: gi, T: p.Time, pts: append([]kit.Pt(nil), g.received[k-m:]...)})
			}
			continue
		}
		if !g.started {
			g.started = true
			if c.Fill {
				g.next = p.Time + c.Period
				if c.Align {
					g.next = trunc(g.next, c.Every)
					if c.Every > 0 {
						g.next += c.Every
					}
				}
			} else {
				g.next = trunc0(p.Time+c.Every, c.Every, c.Align)
			}
		}
		if c.Every == 0 {
			g.received = append(g.received, p)
			if p.Time >= g.next {
				var w []kit.Pt
				for _, q := range g.received {
					if q.Time > p.Time-c.Period && q.Time <= p.Time {
						w = append(w, q)
					}
				}
				out = append(out, expBatch{group: gi, T: p.Time, pts: w})
				g.next = p.Time
			}
			continue
		}
		if p.Time >= g.next {
			T := g.next
			var w []kit.Pt
			for _, q := range g.received {
				if q.Time >= T-c.Period && q.Time < T {
					w = append(w, q)
				}
			}
			out = append(out, expBatch{group: gi, T: T, pts: w})
			g.next = trunc0(p.Time+c.Every, c.Every, c.Align)
		}
		g.received = append(g.received, p)
	}
	return out
}

func trunc0(t, every int64, align bool) int64 {
	if align {
		return trunc(t, every)
	}
	return t
}

func run(c Case, cc *kit.Case) {
	pts := c.points()
	exp := reference(c, pts)
	env, err := kit.NewEnv(kit.EnvOpts{})
	if err != nil {
		cc.Fail("harness/env", "env: %v", err)
		return
	}
	defer env.Close()
	defErr, runErr := env.RunStream(c.script(), pts)
	if defErr != nil {
		cc.Fail("harness/script-rejected", "script %q rejected: %v", c.script(), defErr)
		return
	}
	if runErr != nil {
		cc.Fail("task-error", "task ended with error: %v", runErr)
		return
	}
	obs := env.Sink.By("W")

	// labels / non-trivial rule
	if c.Count {
		cc.Label("count-window")
	} else {
		switch {
		case c.Every == 0:
			cc.Label("every=0")
		case c.Every < c.Period:
			cc.Label("every<period")
		case c.Every == c.Period:
			cc.Label("every=period")
		default:
			cc.Label("every>period")
		}
		if c.Align {
			cc.Label("align")
		}
	}
	if c.Fill {
		cc.Label("fillPeriod")
	}
	if c.Groups > 1 {
		cc.Label("multi-group")
	}
	perGroup := map[int]int{}
	dropped, empty := false, false
	seen := map[int]map[int64]bool{}
	for _, e := range exp {
		perGroup[e.group]++
		if len(e.pts) == 0 {
			empty = true
		}
		cur := map[int64]bool{}
		for _, p := range e.pts {
			n := p.Fields["n"].Go().(int64)
			cur[n] = true
		}
		for n := range seen[e.group] {
			if !cur[n] {
				dropped = true
			}
		}
		if seen[e.group] == nil {
			seen[e.group] = map[int64]bool{}
		}
		for n := range cur {
			seen[e.group][n] = true
		}
	}
	multi := false
	for _, k := range perGroup {
		if k >= 2 {
			multi = true
		}
	}
	if empty {
		cc.Label("empty-window-emitted")
	}
	if dropped {
		cc.Label("window-dropped-points")
	}
	if multi && dropped {
		cc.NonTrivial()
	}

	// compare
	sig, msg := compare(c, obs, exp)
	if sig != "" && c.Fill && !c.Count && c.Every != 0 && c.Every >= c.Period {
		// fillPeriod with every >= period: "This only applies if the period is greater than the
		// every value" (pipeline/window.go). An implementation that ignores the flag here is as
		// documented, provided what the statement demands of fillPeriod still holds: no window
		// reaches back before the group's first point.
		c2 := c
		c2.Fill = false
		exp2 := reference(c2, pts)
		first := map[int]int64{}
		for i, p := range pts {
			gi := 0
			if c.GroupBy {
				gi = c.Order[i]
			}
			if _, ok := first[gi]; !ok {
				first[gi] = p.Time
			}
		}
		full := true
		for _, e := range exp2 {
			if e.T-c.Period < first[e.group] {
				full = false
			}
		}
		if s2, _ := compare(c, obs, exp2); s2 == "" && full {
			cc.Label("fillPeriod-ignored-with-every>=period(as documented)")
			return
		}
	}
	if sig != "" {
		cc.Fail(sig, "%s", msg)
	}
}

// compare checks the observed emissions against an expected schedule; sig == "" means equal.
func compare(c Case, obs []kit.Obs, exp []expBatch) (string, string) {
	if len(obs) != len(exp) {
		return "window/emission-count", fmt.Sprintf("script %s: %d windows emitted, reference says %d\nobserved: %s\nexpected: %s", c.script(), len(obs), len(exp), fmtObs(obs), fmtExp(exp))
	}
	for i, e := range exp {
		o := obs[i]
		if o.B == nil {
			return "window/not-a-batch", fmt.Sprintf("emission %d is not a batch", i)
		}
		b := o.B
		wantTags := map[string]string(nil)
		wantGroup := ""
		if c.GroupBy {
			h := fmt.Sprintf("h%d", e.group)
			wantTags = map[string]string{"host": h}
			wantGroup = "host=" + h
		}
		if b.Name != "m" || !reflect.DeepEqual(b.Tags, wantTags) || b.Group != wantGroup {
			return "window/batch-identity", fmt.Sprintf("emission %d: name=%q tags=%v group=%q, want m %v %q", i, b.Name, b.Tags, b.Group, wantTags, wantGroup)
		}
		if b.TMax != e.T {
			return "window/emit-time", fmt.Sprintf("script %s: emission %d (group %d) has end time %d, reference %d (delta %d)\nobserved: %s\nexpected: %s", c.script(), i, e.group, b.TMax, e.T, b.TMax-e.T, fmtObs(obs), fmtExp(exp))
		}
		if len(b.Points) != len(e.pts) {
			return "window/content", fmt.Sprintf("script %s: emission %d (group %d, T=%d) holds %d points, reference %d\nobserved: %s\nexpected: %s", c.script(), i, e.group, e.T, len(b.Points), len(e.pts), fmtObs(obs), fmtExp(exp))
		}
		for j, p := range e.pts {
			q := b.Points[j]
			if q.Time != p.Time || !reflect.DeepEqual(q.Fields, p.Fields) || !reflect.DeepEqual(q.Tags, p.Tags) {
				return "window/content", fmt.Sprintf("script %s: emission %d (group %d, T=%d) point %d is %+v, reference %+v", c.script(), i, e.group, e.T, j, q, p)
			}
		}
	}
	return "", ""
}

func fmtObs(obs []kit.Obs) string {
	s := ""
	for _, o := range obs {
		if o.B == nil {
			s += "[point]"
			continue
		}
		s += fmt.Sprintf("[%s T=%d:", o.B.Group, o.B.TMax)
		for _, p := range o.B.Points {
			s += " " + p.Fields["n"].V
		}
		s += "]"
	}
	return s
}

func fmtExp(exp []expBatch) string {
	s := ""
	for _, e := range exp {
		s += fmt.Sprintf("[g%d T=%d:", e.group, e.T)
		for _, p := range e.pts {
			s += " " + p.Fields["n"].V
		}
		s += "]"
	}
	return s
}

var assumptions = []string{
	"timestamps are non-decreasing per group (the property's quantifier); groups may be interleaved arbitrarily",
	"fillPeriod is generated only when period > every (pipeline/window.go: 'only applies if the period is greater than the every value')",
	"fillPeriod with every >= period: pipeline/window.go documents that the flag only applies if the period is greater than every, the statement says the first window is delayed to a full period: the reference applies the flag; an implementation that ignores it there is accepted as long as no window reaches back before the group's first point",
	"align uses Go's time.Truncate (multiples of 'every' counted from the zero time); the reference calls the same stdlib function",
	"with align+fillPeriod the first edge is the first multiple of 'every' strictly greater than t0+period (comment in newWindowByTime)",
}

func TestWindow(t *testing.T) {
	r := kit.NewRec("C03", "Window", rule, assumptions...)
	kit.Check(t, r, gen, run)
}

func TestReplayWindow(t *testing.T) {
	r := kit.NewRec("C03", "Window", rule, assumptions...)
	kit.Replay(t, r, run)
}
