package kit

import (
	"io"
	"sync"
	"sync/atomic"
	"time"

	"github.com/influxdata/kapacitor"
	"github.com/influxdata/kapacitor/udf"
	"github.com/influxdata/kapacitor/udf/agent"
)

// EchoUDFs is a kapacitor.UDFService for pipeline-level cases: its UDFs "echo" (wants and provides
// a stream) and "echoB" (batches) are udf/agent Agents with a mirroring handler, reached through
// kapacitor.NewUDFSocket over an in-process transport. Everything from the UDF node down to the
// agent's framing is the code under test; only the transport is the harness'.
type EchoUDFs struct {
	// PipeBytes is the capacity of each direction of the transport: 0 = synchronous (io.Pipe),
	// > 0 = that many bytes (an OS pipe holds 64 KiB, a unix socket some hundred KiB), < 0 = unbounded.
	PipeBytes int
	Timeout   time.Duration // keepalive timeout handed to the UDF server (0 = off)

	Echoed atomic.Int64 // points the agents have echoed so far
}

func (u *EchoUDFs) List() []string { return []string{"echo", "echoB"} }

func (u *EchoUDFs) Info(name string) (udf.Info, bool) {
	switch name {
	case "echo":
		return udf.Info{Wants: agent.EdgeType_STREAM, Provides: agent.EdgeType_STREAM, Options: map[string]*agent.OptionInfo{}}, true
	case "echoB":
		return udf.Info{Wants: agent.EdgeType_BATCH, Provides: agent.EdgeType_BATCH, Options: map[string]*agent.OptionInfo{}}, true
	}
	return udf.Info{}, false
}

func (u *EchoUDFs) Create(name, taskID, nodeID string, d udf.Diagnostic, abortCallback func()) (udf.Interface, error) {
	return kapacitor.NewUDFSocket(taskID, nodeID, &echoSocket{u: u, batch: name == "echoB"}, d, u.Timeout, abortCallback), nil
}

type echoHandler struct {
	a     *agent.Agent
	batch bool
	u     *EchoUDFs
}

func (h *echoHandler) Info() (*agent.InfoResponse, error) {
	et := agent.EdgeType_STREAM
	if h.batch {
		et = agent.EdgeType_BATCH
	}
	return &agent.InfoResponse{Wants: et, Provides: et, Options: map[string]*agent.OptionInfo{}}, nil
}
func (h *echoHandler) Init(*agent.InitRequest) (*agent.InitResponse, error) {
	return &agent.InitResponse{Success: true}, nil
}
func (h *echoHandler) Snapshot() (*agent.SnapshotResponse, error) {
	return &agent.SnapshotResponse{}, nil
}
func (h *echoHandler) Restore(*agent.RestoreRequest) (*agent.RestoreResponse, error) {
	return &agent.RestoreResponse{Success: true}, nil
}
func (h *echoHandler) BeginBatch(b *agent.BeginBatch) error {
	h.a.Responses <- &agent.Response{Message: &agent.Response_Begin{Begin: b}}
	return nil
}
func (h *echoHandler) Point(p *agent.Point) error {
	h.u.Echoed.Add(1)
	h.a.Responses <- &agent.Response{Message: &agent.Response_Point{Point: p}}
	return nil
}
func (h *echoHandler) EndBatch(e *agent.EndBatch) error {
	h.a.Responses <- &agent.Response{Message: &agent.Response_End{End: e}}
	return nil
}
func (h *echoHandler) Stop() { close(h.a.Responses) }

// echoSocket is the kapacitor.Socket of one UDF node.
type echoSocket struct {
	u     *EchoUDFs
	batch bool

	once        sync.Once
	reqR, respR io.ReadCloser
	reqW, respW io.WriteCloser
}

func (s *echoSocket) Open() error {
	s.reqR, s.reqW = NewBytePipe(s.u.PipeBytes)
	s.respR, s.respW = NewBytePipe(s.u.PipeBytes)
	a := agent.New(s.reqR, s.respW)
	a.Handler = &echoHandler{a: a, batch: s.batch, u: s.u}
	if err := a.Start(); err != nil {
		return err
	}
	go a.Wait() // Wait is what lets the agent's write loop end (udf/agent/examples/mirror)
	return nil
}

// Close is what closing the connection does: the agent sees EOF on its input, and whatever it
// still writes goes nowhere.
func (s *echoSocket) Close() error {
	s.once.Do(func() {
		s.reqW.Close()
		go io.Copy(io.Discard, s.respR)
	})
	return nil
}
func (s *echoSocket) In() io.WriteCloser { return s.reqW }
func (s *echoSocket) Out() io.Reader     { return s.respR }

// NewBytePipe returns a pipe that buffers up to capacity bytes (0: io.Pipe, < 0: unbounded).
func NewBytePipe(capacity int) (io.ReadCloser, io.WriteCloser) {
	if capacity == 0 {
		return io.Pipe()
	}
	p := &bytePipe{cap: capacity}
	p.cond = sync.NewCond(&p.mu)
	return bytePipeR{p}, bytePipeW{p}
}

type bytePipe struct {
	mu      sync.Mutex
	cond    *sync.Cond
	buf     []byte
	cap     int
	wclosed bool
	rclosed bool
}
type bytePipeR struct{ p *bytePipe }
type bytePipeW struct{ p *bytePipe }

func (w bytePipeW) Write(b []byte) (int, error) {
	p := w.p
	p.mu.Lock()
	defer p.mu.Unlock()
	n := 0
	for len(b) > 0 {
		if p.rclosed || p.wclosed {
			return n, io.ErrClosedPipe
		}
		room := len(b)
		if p.cap > 0 {
			room = p.cap - len(p.buf)
			if room <= 0 {
				p.cond.Wait()
				continue
			}
			if room > len(b) {
				room = len(b)
			}
		}
		p.buf = append(p.buf, b[:room]...)
		b = b[room:]
		n += room
		p.cond.Broadcast()
	}
	return n, nil
}
func (w bytePipeW) Close() error {
	w.p.mu.Lock()
	w.p.wclosed = true
	w.p.cond.Broadcast()
	w.p.mu.Unlock()
	return nil
}
func (r bytePipeR) Read(b []byte) (int, error) {
	p := r.p
	p.mu.Lock()
	defer p.mu.Unlock()
	for len(p.buf) == 0 {
		if p.rclosed {
			return 0, io.ErrClosedPipe
		}
		if p.wclosed {
			return 0, io.EOF
		}
		p.cond.Wait()
	}
	n := copy(b, p.buf)
	p.buf = p.buf[n:]
	p.cond.Broadcast()
	return n, nil
}
func (r bytePipeR) Close() error {
	r.p.mu.Lock()
	r.p.rclosed = true
	r.p.cond.Broadcast()
	r.p.mu.Unlock()
	return nil
}
