package kit

import (
	"net/http"
	"net/http/httptest"
	"sync"

	"github.com/influxdata/kapacitor/services/httpd"
)

// HTTPDRecorder is an HTTPDService that keeps the routes nodes register with it (httpOut) so that a
// harness can request them the way the HTTP API would: by method and path, while they are
// registered. It does not listen on a socket. Install it with EnvOpts.Prepare:
//
//	rec := kit.NewHTTPDRecorder()
//	kit.NewEnv(kit.EnvOpts{Prepare: func(e *kit.Env) { e.TM.HTTPDService = rec }})
//
// HTTPDStub (routes are discarded) stays the default of NewEnv.
type HTTPDRecorder struct {
	mu     sync.Mutex
	routes map[string]httpd.Route // method + " " + pattern
}

func NewHTTPDRecorder() *HTTPDRecorder {
	return &HTTPDRecorder{routes: map[string]httpd.Route{}}
}

func (h *HTTPDRecorder) AddRoutes(rs []httpd.Route) error {
	h.mu.Lock()
	defer h.mu.Unlock()
	for _, r := range rs {
		h.routes[r.Method+" "+r.Pattern] = r
	}
	return nil
}

func (h *HTTPDRecorder) DelRoutes(rs []httpd.Route) {
	h.mu.Lock()
	defer h.mu.Unlock()
	for _, r := range rs {
		delete(h.routes, r.Method+" "+r.Pattern)
	}
}

// URL is the base the real service reports (HTTPDStub reports the same).
func (h *HTTPDRecorder) URL() string                          { return "http://localhost:9092/kapacitor/v1" }
func (h *HTTPDRecorder) AddPreviewRoutes([]httpd.Route) error { return nil }
func (h *HTTPDRecorder) DelPreviewRoutes([]httpd.Route)       {}

// Patterns returns the registered "METHOD pattern" keys, sorted.
func (h *HTTPDRecorder) Patterns() []string {
	h.mu.Lock()
	defer h.mu.Unlock()
	return SortedKeys(h.routes)
}

// Do requests a registered route (exact pattern match; httpOut registers literal paths relative to
// the API base path). ok=false: no such route is registered (any more), or its handler is not a
// plain http handler function.
func (h *HTTPDRecorder) Do(method, pattern string) (status int, body []byte, ok bool) {
	h.mu.Lock()
	r, found := h.routes[method+" "+pattern]
	h.mu.Unlock()
	if !found {
		return 0, nil, false
	}
	var f func(http.ResponseWriter, *http.Request)
	switch hf := r.HandlerFunc.(type) {
	case func(http.ResponseWriter, *http.Request):
		f = hf
	case http.HandlerFunc:
		f = hf
	default:
		return 0, nil, false
	}
	w := httptest.NewRecorder()
	f(w, httptest.NewRequest(method, pattern, nil))
	return w.Code, w.Body.Bytes(), true
}
