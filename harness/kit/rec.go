// Package kit is the shared harness kit of the verification checks: the case
// recorder (evidence, in-flight marker, failure files), the pipeline environment and
// the fakes. Nothing in here decides a property; the per-property packages do.
package kit

import (
	"crypto/sha256"
	"encoding/binary"
	"encoding/hex"
	"encoding/json"
	"fmt"
	"os"
	"path/filepath"
	"sort"
	"strings"
	"sync"
	"sync/atomic"
	"testing"

	"pgregory.net/rapid"
)

// Failure is one failed case as reported to the driver.
type Failure struct {
	Sig    string          `json:"sig"`  // failure signature (class of defect), matched against known_findings.json
	Msg    string          `json:"msg"`  // human readable
	File   string          `json:"file"` // replay file holding the (shrunk) case
	Replay bool            `json:"replay"`
	Case   json.RawMessage `json:"case,omitempty"`
}

// Result is what a test process hands to the driver (one file per unit and shard).
type Result struct {
	Prop        string            `json:"prop"`
	Unit        string            `json:"unit"`
	Rule        string            `json:"rule"`
	Evaluations int64             `json:"evaluations"`
	Nontrivial  int64             `json:"nontrivial"` // distinct, in this process
	Replayed    int64             `json:"replayed"`
	Labels      map[string]int64  `json:"labels"`
	Excluded    map[string]int64  `json:"excluded"`
	Samples     []json.RawMessage `json:"samples"`
	Failures    []Failure         `json:"failures"`
	Assumptions []string          `json:"assumptions"`
	Exhaustive  bool              `json:"exhaustive"`
	Completed   bool              `json:"completed"`
}

// Rec records what one unit of a check covered.
type Rec struct {
	mu       sync.Mutex
	res      Result
	hashes   map[uint64]struct{}
	failed   bool // a failure was seen: later executions are shrink re-runs
	maxSamp  int
	sampleNT int
}

// Tier returns "quick" or "thorough".
func Tier() string {
	if os.Getenv("VERIF_TIER") == "thorough" {
		return "thorough"
	}
	return "quick"
}

func NewRec(prop, unit, rule string, assumptions ...string) *Rec {
	return &Rec{
		res: Result{Prop: prop, Unit: unit, Rule: rule, Labels: map[string]int64{}, Excluded: map[string]int64{},
			Assumptions: assumptions},
		hashes:  map[uint64]struct{}{},
		maxSamp: 4,
	}
}

func (r *Rec) SetExhaustive(b bool) { r.mu.Lock(); r.res.Exhaustive = b; r.mu.Unlock() }

// AddEvaluations counts inputs that were tried inside an aggregate case (a chunk of an enumeration).
func (r *Rec) AddEvaluations(n int64) {
	r.mu.Lock()
	if !r.failed {
		r.res.Evaluations += n
	}
	r.mu.Unlock()
}

// Exclude counts an input class that the generator avoids by construction.
func (r *Rec) Exclude(class string) {
	r.mu.Lock()
	r.res.Excluded[class]++
	r.mu.Unlock()
}

// Case is the per-case context handed to the property body.
type Case struct {
	r      *Rec
	raw    []byte
	labels []string
	nt     bool
	sig    string
	msg    string
	replay bool
	hung0  int64
}

func canon(c any) []byte {
	b, err := json.Marshal(c)
	if err != nil {
		panic(fmt.Sprintf("kit: case is not JSON-serialisable: %v", err))
	}
	return b
}

func inflightPath() string { return os.Getenv("VERIF_INFLIGHT") }

// Begin marks the case as in flight (so that a process death can be attributed to it).
func (r *Rec) Begin(c any) *Case {
	raw := canon(c)
	if p := inflightPath(); p != "" {
		_ = os.WriteFile(p, raw, 0o644)
	}
	return &Case{r: r, raw: raw, hung0: atomic.LoadInt64(&HungCloses)}
}

func (c *Case) Label(l string)  { c.labels = append(c.labels, l) }
func (c *Case) NonTrivial()     { c.nt = true }
func (c *Case) Failed() bool    { return c.sig != "" }
func (c *Case) Message() string { return c.msg }

// Fail records the first failure of the case. sig names the defect class.
func (c *Case) Fail(sig, format string, args ...any) {
	if c.sig != "" {
		return
	}
	c.sig = sig
	c.msg = fmt.Sprintf(format, args...)
}

func failDir() string {
	d := os.Getenv("VERIF_FAILDIR")
	if d == "" {
		d = filepath.Join(os.TempDir(), "verif-fail")
	}
	_ = os.MkdirAll(d, 0o755)
	return d
}

// End closes the case: counters, sample, in-flight marker, failure file.
func (c *Case) End() {
	r := c.r
	if c.sig == "" && atomic.LoadInt64(&HungCloses) > c.hung0 {
		c.Fail("env/close-hang", "TaskMaster.Close did not return within %v when the case's environment was closed (a task never ended)", CloseBound)
	}
	r.mu.Lock()
	defer r.mu.Unlock()
	if p := inflightPath(); p != "" {
		_ = os.Remove(p)
	}
	if c.replay {
		r.res.Replayed++
	} else if !r.failed {
		r.res.Evaluations++
		for _, l := range c.labels {
			r.res.Labels[l]++
		}
		if c.nt {
			h := sha256.Sum256(c.raw)
			k := binary.LittleEndian.Uint64(h[:8])
			if _, ok := r.hashes[k]; !ok {
				r.hashes[k] = struct{}{}
				if r.sampleNT < r.maxSamp && len(c.raw) < 6000 {
					r.res.Samples = append(r.res.Samples, json.RawMessage(c.raw))
					r.sampleNT++
				}
			}
		}
	}
	if c.sig != "" {
		name := r.res.Unit + "-shrinking.json"
		if c.replay {
			h := sha256.Sum256(c.raw)
			name = r.res.Unit + "-replay-" + hex.EncodeToString(h[:6]) + ".json"
		}
		f := filepath.Join(failDir(), name)
		_ = os.WriteFile(f, c.raw, 0o644)
		fl := Failure{Sig: c.sig, Msg: c.msg, File: f, Replay: c.replay}
		if len(c.raw) < 20000 {
			fl.Case = json.RawMessage(c.raw)
		}
		if c.replay || !r.failed {
			r.res.Failures = append(r.res.Failures, fl)
		} else {
			// shrink re-run: the latest failing case replaces the search failure
			for i := len(r.res.Failures) - 1; i >= 0; i-- {
				if !r.res.Failures[i].Replay {
					r.res.Failures[i] = fl
					break
				}
			}
		}
		if !c.replay {
			r.failed = true
		}
		r.flushLocked(false)
	}
}

func (r *Rec) flushLocked(completed bool) {
	out := os.Getenv("VERIF_OUT")
	if out == "" {
		return
	}
	r.res.Nontrivial = int64(len(r.hashes))
	r.res.Completed = completed
	b, _ := json.Marshal(&r.res)
	_ = os.WriteFile(out+"."+r.res.Unit+".json", b, 0o644)
	hb := make([]byte, 0, 8*len(r.hashes))
	keys := make([]uint64, 0, len(r.hashes))
	for k := range r.hashes {
		keys = append(keys, k)
	}
	sort.Slice(keys, func(i, j int) bool { return keys[i] < keys[j] })
	for _, k := range keys {
		hb = binary.LittleEndian.AppendUint64(hb, k)
	}
	_ = os.WriteFile(out+"."+r.res.Unit+".hashes", hb, 0o644)
}

// Flush writes the result file; call it when the unit is finished.
func (r *Rec) Flush() {
	r.mu.Lock()
	defer r.mu.Unlock()
	r.flushLocked(true)
}

// Check drives a property with rapid: gen draws a JSON-serialisable case, run
// evaluates it. A failed case makes rapid shrink; the last failing case written is
// the minimal one.
func Check[C any](t *testing.T, r *Rec, gen func(*rapid.T) C, run func(C, *Case)) {
	t.Helper()
	defer r.Flush()
	rapid.Check(t, func(rt *rapid.T) {
		c := gen(rt)
		cc := r.Begin(c)
		run(c, cc)
		cc.End()
		if cc.Failed() {
			rt.Fatalf("[%s] %s", cc.sig, cc.msg)
		}
	})
}

// Replay runs every saved case under dir (files *.json whose name starts with the
// unit name followed by '-', or any file when unit is "") through run, bypassing rapid.
func Replay[C any](t *testing.T, r *Rec, run func(C, *Case)) {
	t.Helper()
	defer r.Flush()
	dir := os.Getenv("VERIF_REPLAY_DIR")
	if one := os.Getenv("VERIF_REPLAY_FILE"); one != "" {
		replayFile(t, r, one, run)
		return
	}
	if dir == "" {
		return
	}
	ents, _ := os.ReadDir(dir)
	for _, e := range ents {
		if e.IsDir() || !strings.HasSuffix(e.Name(), ".json") || !strings.HasPrefix(e.Name(), r.res.Unit+"-") {
			continue
		}
		replayFile(t, r, filepath.Join(dir, e.Name()), run)
	}
}

func replayFile[C any](t *testing.T, r *Rec, path string, run func(C, *Case)) {
	b, err := os.ReadFile(path)
	if err != nil {
		t.Fatalf("replay %s: %v", path, err)
	}
	var c C
	if err := json.Unmarshal(b, &c); err != nil {
		t.Fatalf("replay %s: %v", path, err)
	}
	cc := r.Begin(c)
	cc.replay = true
	run(c, cc)
	// keep the original path as the replay file of a replayed failure
	failed := cc.Failed()
	cc.End()
	if failed {
		r.mu.Lock()
		r.res.Failures[len(r.res.Failures)-1].File = path
		r.flushLocked(false)
		r.mu.Unlock()
		t.Errorf("replay %s: [%s] %s", filepath.Base(path), cc.sig, cc.msg)
	}
}
