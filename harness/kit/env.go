package kit

import (
	"fmt"
	"io"
	"os"
	"path/filepath"
	"sort"
	"strconv"
	"sync"
	"sync/atomic"
	"time"

	"github.com/influxdata/kapacitor"
	"github.com/influxdata/kapacitor/edge"
	"github.com/influxdata/kapacitor/influxdb"
	"github.com/influxdata/kapacitor/keyvalue"
	"github.com/influxdata/kapacitor/models"
	"github.com/influxdata/kapacitor/pipeline"
	"github.com/influxdata/kapacitor/server/vars"
	alertservice "github.com/influxdata/kapacitor/services/alert"
	"github.com/influxdata/kapacitor/services/diagnostic"
	"github.com/influxdata/kapacitor/services/httpd"
	"github.com/influxdata/kapacitor/services/storage"
	"github.com/influxdata/kapacitor/uuid"
	bolt "go.etcd.io/bbolt"
)

var (
	DiagService *diagnostic.Service
	envSeq      int64
)

func init() {
	DiagService = diagnostic.NewService(diagnostic.NewConfig(), io.Discard, io.Discard)
	DiagService.Open()
}

// ---------------------------------------------------------------- observed data

// FV is a typed field value in a JSON-safe canonical form (floats bit-exact via
// shortest round-trip formatting; NaN/Inf as words).
type FV struct {
	T string `json:"t"` // i f s b d(uration) t(ime) n(il) ?
	V string `json:"v"`
}

func ToFV(v any) FV {
	switch x := v.(type) {
	case int64:
		return FV{"i", strconv.FormatInt(x, 10)}
	case int:
		return FV{"i", strconv.Itoa(x)}
	case float64:
		return FV{"f", strconv.FormatFloat(x, 'g', -1, 64)}
	case string:
		return FV{"s", x}
	case bool:
		return FV{"b", strconv.FormatBool(x)}
	case time.Duration:
		return FV{"d", strconv.FormatInt(int64(x), 10)}
	case time.Time:
		return FV{"t", strconv.FormatInt(x.UnixNano(), 10)}
	case nil:
		return FV{"n", ""}
	default:
		return FV{"?", fmt.Sprintf("%T:%v", v, v)}
	}
}

// Go converts an FV back into the Go value kapacitor uses for that type.
func (f FV) Go() any {
	switch f.T {
	case "i":
		n, _ := strconv.ParseInt(f.V, 10, 64)
		return n
	case "f":
		x, _ := strconv.ParseFloat(f.V, 64)
		return x
	case "s":
		return f.V
	case "b":
		return f.V == "true"
	case "d":
		n, _ := strconv.ParseInt(f.V, 10, 64)
		return time.Duration(n)
	case "t":
		n, _ := strconv.ParseInt(f.V, 10, 64)
		return time.Unix(0, n).UTC()
	}
	return nil
}

func I(n int64) FV     { return ToFV(n) }
func F(x float64) FV   { return ToFV(x) }
func S(s string) FV    { return ToFV(s) }
func B(b bool) FV      { return ToFV(b) }
func (f FV) String() string { return f.T + ":" + f.V }

// Pt is a plain point (input to a pipeline or observed at a sink).
type Pt struct {
	Name   string            `json:"name"`
	DB     string            `json:"db,omitempty"`
	RP     string            `json:"rp,omitempty"`
	Tags   map[string]string `json:"tags,omitempty"`
	Fields map[string]FV     `json:"fields,omitempty"`
	Time   int64             `json:"time"` // unix nanoseconds
	Group  string            `json:"group,omitempty"`
	Dims   []string          `json:"dims,omitempty"`
	ByName bool              `json:"byname,omitempty"`
}

// Bt is a plain batch.
type Bt struct {
	Name   string            `json:"name"`
	Tags   map[string]string `json:"tags,omitempty"`
	TMax   int64             `json:"tmax"`
	Group  string            `json:"group,omitempty"`
	Dims   []string          `json:"dims,omitempty"`
	ByName bool              `json:"byname,omitempty"`
	Points []Pt              `json:"points"`
}

// Obs is one message observed by a sink.
type Obs struct {
	Prefix string `json:"prefix"`
	P      *Pt    `json:"p,omitempty"`
	B      *Bt    `json:"b,omitempty"`
}

func copyTags(t models.Tags) map[string]string {
	if len(t) == 0 {
		return nil
	}
	m := make(map[string]string, len(t))
	for k, v := range t {
		m[k] = v
	}
	return m
}

func copyFields(f models.Fields) map[string]FV {
	if len(f) == 0 {
		return nil
	}
	m := make(map[string]FV, len(f))
	for k, v := range f {
		m[k] = ToFV(v)
	}
	return m
}

func copyDims(d models.Dimensions) []string {
	if len(d.TagNames) == 0 {
		return nil
	}
	return append([]string(nil), d.TagNames...)
}

func PtOf(p edge.PointMessage) Pt {
	return Pt{Name: p.Name(), DB: p.Database(), RP: p.RetentionPolicy(), Tags: copyTags(p.Tags()), Fields: copyFields(p.Fields()),
		Time: p.Time().UnixNano(), Group: string(p.GroupID()), Dims: copyDims(p.Dimensions()), ByName: p.Dimensions().ByName}
}

func BtOf(b edge.BufferedBatchMessage) Bt {
	out := Bt{Name: b.Name(), Tags: copyTags(b.Tags()), TMax: b.Time().UnixNano(), Group: string(b.GroupID()),
		Dims: copyDims(b.Dimensions()), ByName: b.Dimensions().ByName, Points: []Pt{}}
	for _, bp := range b.Points() {
		out.Points = append(out.Points, Pt{Tags: copyTags(bp.Tags()), Fields: copyFields(bp.Fields()), Time: bp.Time().UnixNano()})
	}
	return out
}

// Msg builds the kapacitor point message for a plain point.
func (p Pt) Msg() edge.PointMessage {
	fields := models.Fields{}
	for k, v := range p.Fields {
		fields[k] = v.Go()
	}
	tags := models.Tags{}
	for k, v := range p.Tags {
		tags[k] = v
	}
	dims := models.Dimensions{ByName: p.ByName, TagNames: append([]string(nil), p.Dims...)}
	return edge.NewPointMessage(p.Name, p.DB, p.RP, dims, fields, tags, time.Unix(0, p.Time).UTC())
}

// Msg builds the kapacitor buffered batch for a plain batch (group = all tags).
func (b Bt) Msg() edge.BufferedBatchMessage {
	tags := models.Tags{}
	for k, v := range b.Tags {
		tags[k] = v
	}
	begin := edge.NewBeginBatchMessage(b.Name, tags, b.ByName, time.Unix(0, b.TMax).UTC(), len(b.Points))
	pts := make([]edge.BatchPointMessage, 0, len(b.Points))
	for _, p := range b.Points {
		fields := models.Fields{}
		for k, v := range p.Fields {
			fields[k] = v.Go()
		}
		pt := models.Tags{}
		for k, v := range p.Tags {
			pt[k] = v
		}
		pts = append(pts, edge.NewBatchPointMessage(fields, pt, time.Unix(0, p.Time).UTC()))
	}
	return edge.NewBufferedBatchMessage(begin, pts, edge.NewEndBatchMessage())
}

// SortedKeys of a string map.
func SortedKeys[V any](m map[string]V) []string {
	ks := make([]string, 0, len(m))
	for k := range m {
		ks = append(ks, k)
	}
	sort.Strings(ks)
	return ks
}

// ---------------------------------------------------------------- sink diagnostic

// NodeErr is an error a node reported through its diagnostic.
type NodeErr struct {
	Task, Node, Msg, Err string
}

// Sink collects what log() nodes see and what nodes report as errors.
type Sink struct {
	mu   sync.Mutex
	obs  []Obs
	errs []NodeErr
	// OnObs, if set, is called (outside the lock) for every observation: a harness gate.
	OnObs func(prefix string)
}

func (s *Sink) add(o Obs) {
	s.mu.Lock()
	s.obs = append(s.obs, o)
	f := s.OnObs
	s.mu.Unlock()
	if f != nil {
		f(o.Prefix)
	}
}

// All returns a copy of everything observed so far, in observation order.
func (s *Sink) All() []Obs {
	s.mu.Lock()
	defer s.mu.Unlock()
	return append([]Obs(nil), s.obs...)
}

// By returns the observations of one sink prefix.
func (s *Sink) By(prefix string) []Obs {
	s.mu.Lock()
	defer s.mu.Unlock()
	var out []Obs
	for _, o := range s.obs {
		if o.Prefix == prefix {
			out = append(out, o)
		}
	}
	return out
}

func (s *Sink) Count(prefix string) int {
	s.mu.Lock()
	defer s.mu.Unlock()
	n := 0
	for _, o := range s.obs {
		if o.Prefix == prefix {
			n++
		}
	}
	return n
}

func (s *Sink) Errors() []NodeErr {
	s.mu.Lock()
	defer s.mu.Unlock()
	return append([]NodeErr(nil), s.errs...)
}

type sinkDiag struct {
	kapacitor.Diagnostic
	s *Sink
}

func (d sinkDiag) WithTaskMasterContext(tm string) kapacitor.Diagnostic {
	return sinkDiag{Diagnostic: d.Diagnostic.WithTaskMasterContext(tm), s: d.s}
}
func (d sinkDiag) WithTaskContext(task string) kapacitor.TaskDiagnostic {
	return sinkTask{TaskDiagnostic: d.Diagnostic.WithTaskContext(task), s: d.s, task: task}
}
func (d sinkDiag) WithNodeContext(node string) kapacitor.NodeDiagnostic {
	return sinkNode{NodeDiagnostic: d.Diagnostic.WithNodeContext(node), s: d.s, node: node}
}

type sinkTask struct {
	kapacitor.TaskDiagnostic
	s    *Sink
	task string
}

func (t sinkTask) WithNodeContext(node string) kapacitor.NodeDiagnostic {
	return sinkNode{NodeDiagnostic: t.TaskDiagnostic.WithNodeContext(node), s: t.s, task: t.task, node: node}
}

type sinkNode struct {
	kapacitor.NodeDiagnostic
	s          *Sink
	task, node string
}

func (n sinkNode) LogPointData(key, prefix string, p edge.PointMessage) {
	pt := PtOf(p)
	n.s.add(Obs{Prefix: prefix, P: &pt})
}
func (n sinkNode) LogBatchData(key, prefix string, b edge.BufferedBatchMessage) {
	bt := BtOf(b)
	n.s.add(Obs{Prefix: prefix, B: &bt})
}
func (n sinkNode) Error(msg string, err error, ctx ...keyvalue.T) {
	es := ""
	if err != nil {
		es = err.Error()
	}
	n.s.mu.Lock()
	n.s.errs = append(n.s.errs, NodeErr{Task: n.task, Node: n.node, Msg: msg, Err: es})
	n.s.mu.Unlock()
	n.NodeDiagnostic.Error(msg, err, ctx...)
}

// ---------------------------------------------------------------- stub services

type HTTPDStub struct{}

func (HTTPDStub) AddRoutes([]httpd.Route) error        { return nil }
func (HTTPDStub) DelRoutes([]httpd.Route)              {}
func (HTTPDStub) URL() string                          { return "http://localhost:9092/kapacitor/v1" }
func (HTTPDStub) AddPreviewRoutes([]httpd.Route) error { return nil }
func (HTTPDStub) DelPreviewRoutes([]httpd.Route)       {}

type TaskStoreStub struct{}

func (TaskStoreStub) SaveSnapshot(id string, snapshot *kapacitor.TaskSnapshot) error { return nil }
func (TaskStoreStub) HasSnapshot(id string) bool                                     { return false }
func (TaskStoreStub) LoadSnapshot(id string) (*kapacitor.TaskSnapshot, error) {
	return nil, fmt.Errorf("no snapshot")
}

type DeadmanStub struct{}

func (DeadmanStub) Interval() time.Duration { return 0 }
func (DeadmanStub) Threshold() float64      { return 0 }
func (DeadmanStub) Id() string              { return "" }
func (DeadmanStub) Message() string         { return "" }
func (DeadmanStub) Global() bool            { return false }

type ServerInfo struct{}

func (ServerInfo) ClusterID() uuid.UUID    { return uuid.Nil }
func (ServerInfo) ServerID() uuid.UUID     { return uuid.Nil }
func (ServerInfo) Hostname() string        { return "verif" }
func (ServerInfo) Version() string         { return "verif" }
func (ServerInfo) Product() string         { return "kapacitor" }
func (ServerInfo) Platform() string        { return "verif" }
func (ServerInfo) NumTasks() int64         { return 0 }
func (ServerInfo) NumEnabledTasks() int64  { return 0 }
func (ServerInfo) NumSubscriptions() int64 { return 0 }
func (ServerInfo) Uptime() time.Duration   { return 0 }

var _ vars.Infoer = ServerInfo{}

// ---------------------------------------------------------------- storage

// Store is a storage service over a harness-owned Bolt file.
type Store struct {
	DB        *bolt.DB
	path      string
	versions  storage.Versions
	registrar *storage.StoreActionerRegistrar
	// Wrap, if set, wraps every storage.Interface handed out (fault injection, snapshots).
	Wrap func(ns string, s storage.Interface) storage.Interface
}

func OpenStore(path string) (*Store, error) {
	db, err := bolt.Open(path, 0o600, &bolt.Options{Timeout: time.Second, NoSync: true, NoFreelistSync: true})
	if err != nil {
		return nil, err
	}
	s := &Store{DB: db, path: path, registrar: storage.NewStorageRegistrar()}
	s.versions = storage.NewVersions(storage.NewBolt(db, []byte("versions")))
	return s, nil
}

func (s *Store) Store(ns string) storage.Interface {
	var st storage.Interface = storage.NewBolt(s.DB, []byte(ns))
	if s.Wrap != nil {
		st = s.Wrap(ns, st)
	}
	return st
}
func (s *Store) Versions() storage.Versions                         { return s.versions }
func (s *Store) Register(name string, store storage.StoreActioner) { s.registrar.Register(name, store) }
func (s *Store) Diagnostic() storage.Diagnostic                     { return DiagService.NewStorageHandler() }
func (s *Store) Path() string                                       { return s.path }
func (s *Store) CloseBolt() error                                   { return s.DB.Close() }
func (s *Store) Close() error                                       { return s.DB.Close() }

// ---------------------------------------------------------------- environment

// Env is one TaskMaster with the sink diagnostic and (optionally) a real alert service.
type Env struct {
	TM    *kapacitor.TaskMaster
	Sink  *Sink
	Alert *alertservice.Service
	Store *Store
	Dir   string
	ownDir bool
	closed bool
}

// InfluxDBService is what TaskMaster.InfluxDBService needs.
type InfluxDBService interface {
	NewNamedClient(name string) (influxdb.Client, error)
}

type EnvOpts struct {
	Alerts        bool
	PersistTopics bool
	Dir           string // reuse a directory (restart cases); "" = fresh temp dir removed on Close
	BoltFile      string // file name inside Dir; default "kapacitor.db"
	Influx        InfluxDBService
	StoreWrap     func(ns string, s storage.Interface) storage.Interface
	OnStore       func(s *Store) // called when the Bolt store is open, before any service uses it
	Prepare       func(e *Env) // called before tm.Open()
	TMName        string       // TaskMaster id (default: process-unique); restart cases reuse one
}

// Unique returns a process-unique suffix (expvar registries are process global and
// keyed by task master / task ids).
func Unique() string { return strconv.FormatInt(atomic.AddInt64(&envSeq, 1), 36) }

func NewEnv(o EnvOpts) (*Env, error) {
	e := &Env{Sink: &Sink{}}
	d := sinkDiag{Diagnostic: DiagService.NewKapacitorHandler(), s: e.Sink}
	name := o.TMName
	if name == "" {
		name = "vtm" + Unique()
	}
	tm := kapacitor.NewTaskMaster(name, ServerInfo{}, d)
	tm.HTTPDService = HTTPDStub{}
	tm.TaskStore = TaskStoreStub{}
	tm.DeadmanService = DeadmanStub{}
	if o.Influx != nil {
		tm.InfluxDBService = o.Influx
	}
	e.TM = tm
	if o.Alerts {
		e.Dir = o.Dir
		if e.Dir == "" {
			dir, err := os.MkdirTemp("", "verif-env")
			if err != nil {
				return nil, err
			}
			e.Dir, e.ownDir = dir, true
		}
		bf := o.BoltFile
		if bf == "" {
			bf = "kapacitor.db"
		}
		st, err := OpenStore(filepath.Join(e.Dir, bf))
		if err != nil {
			return nil, err
		}
		st.Wrap = o.StoreWrap
		e.Store = st
		if o.OnStore != nil {
			o.OnStore(st)
		}
		as := alertservice.NewService(DiagService.NewAlertServiceHandler(), nil, 0)
		as.StorageService = st
		as.HTTPDService = HTTPDStub{}
		as.PersistTopics = o.PersistTopics
		if err := as.Open(); err != nil {
			st.Close()
			return nil, fmt.Errorf("alert service open: %w", err)
		}
		e.Alert = as
		tm.AlertService = as
	}
	if o.Prepare != nil {
		o.Prepare(e)
	}
	if err := tm.Open(); err != nil {
		e.Close()
		return nil, err
	}
	return e, nil
}

func (e *Env) Close() {
	if e.closed {
		return
	}
	e.closed = true
	// bounded: a TaskMaster whose tasks never end (a defect some cases provoke) must not wedge
	// the process until the test deadline; Case.End turns a hang of an otherwise passing case
	// into a failure
	done := make(chan struct{})
	go func() { e.TM.Close(); close(done) }()
	select {
	case <-done:
	case <-time.After(CloseBound):
		atomic.AddInt64(&HungCloses, 1)
		return
	}
	if e.Alert != nil {
		e.Alert.Close()
	}
	if e.Store != nil {
		e.Store.Close()
	}
	if e.ownDir {
		os.RemoveAll(e.Dir)
	}
}

// CloseBound is how long Env.Close waits for TaskMaster.Close; HungCloses counts the times it did not return.
var (
	CloseBound = 20 * time.Second
	HungCloses int64
)

var DefaultDBRP = []kapacitor.DBRP{{Database: "db", RetentionPolicy: "rp"}}

// StartTask defines and starts a task.
func (e *Env) StartTask(id, script string, tt kapacitor.TaskType, dbrps []kapacitor.DBRP) (*kapacitor.ExecutingTask, error) {
	if dbrps == nil {
		dbrps = DefaultDBRP
	}
	task, err := e.TM.NewTask(id, script, tt, dbrps, 0, nil)
	if err != nil {
		return nil, err
	}
	return e.TM.StartTask(task)
}

// RunStream runs a stream task over the points and waits for it to finish its backlog.
// It returns the task's terminal error (nil when every node exited cleanly).
func (e *Env) RunStream(script string, pts []Pt) (defErr, runErr error) {
	id := "t" + Unique()
	et, err := e.StartTask(id, script, kapacitor.StreamTask, nil)
	if err != nil {
		return err, nil
	}
	for _, p := range pts {
		if p.DB == "" {
			p.DB, p.RP = "db", "rp"
		}
		if err := e.TM.WriteKapacitorPoint(p.Msg()); err != nil {
			return nil, fmt.Errorf("write: %w", err)
		}
	}
	e.TM.Drain()
	et.StopStats()
	return nil, et.Wait()
}

// RunBatch runs a batch task feeding the batches directly into the collector of its
// idx-th query node (what replay does) and waits for it to finish.
func (e *Env) RunBatch(script string, perQuery [][]Bt) (defErr, runErr error) {
	id := "t" + Unique()
	et, err := e.StartTask(id, script, kapacitor.BatchTask, nil)
	if err != nil {
		return err, nil
	}
	cols := e.TM.BatchCollectors(id)
	if len(cols) != len(perQuery) {
		return nil, fmt.Errorf("task has %d batch collectors, case has %d", len(cols), len(perQuery))
	}
	for i, bs := range perQuery {
		for _, b := range bs {
			if err := cols[i].CollectBatch(b.Msg()); err != nil {
				return nil, fmt.Errorf("collect batch: %w", err)
			}
		}
	}
	for _, c := range cols {
		c.Close()
	}
	et.StopStats()
	return nil, et.Wait()
}

// BatchCollectorsInScriptOrder returns the batch collectors of a running batch task ordered like
// the task's query nodes appear in the script. TaskMaster.BatchCollectors returns them in the order
// in which the executing batch node linked its children, which is the topological walk order of
// the pipeline, not the script order (with two queries under one join it is the reverse).
func (e *Env) BatchCollectorsInScriptOrder(et *kapacitor.ExecutingTask) ([]kapacitor.BatchCollector, error) {
	cols := e.TM.BatchCollectors(et.Task.ID)
	var ids []pipeline.ID
	_ = et.Task.Pipeline.Walk(func(n pipeline.Node) error {
		switch n.(type) {
		case *pipeline.QueryNode, *pipeline.QueryFluxNode:
			ids = append(ids, n.ID())
		}
		return nil
	})
	if len(ids) != len(cols) {
		return nil, fmt.Errorf("task has %d batch collectors and %d query nodes", len(cols), len(ids))
	}
	// the query created k-th in the script has the k-th smallest node id
	idx := make([]int, len(ids))
	for i := range idx {
		idx[i] = i
	}
	sort.Slice(idx, func(a, b int) bool { return ids[idx[a]] < ids[idx[b]] })
	out := make([]kapacitor.BatchCollector, len(cols))
	for k, i := range idx {
		out[k] = cols[i]
	}
	return out, nil
}
