// Handler specs through the HTTP API of the alert service (services/alert/api.go), as a user of
// client/API.md "Create / Update / Remove a Handler" would change them: POST, PUT, PATCH (RFC 6902
// JSON patch applied to the existing handler) and DELETE. The routes the service registers with its
// HTTPDService are kept and requested by method and path; no socket is involved.
package c09

import (
	"encoding/json"
	"fmt"
	"net/http"
	"net/http/httptest"
	"strings"
	"sync"

	"github.com/influxdata/kapacitor/services/httpd"
)

// routeCatcher stands in for the httpd service: it keeps the routes the alert service registers.
type routeCatcher struct {
	mu     sync.Mutex
	routes []httpd.Route
}

func (c *routeCatcher) AddRoutes(rs []httpd.Route) error {
	c.mu.Lock()
	c.routes = append(c.routes, rs...)
	c.mu.Unlock()
	return nil
}

func (c *routeCatcher) DelRoutes([]httpd.Route) {}

const handlersBase = httpd.BasePath + "/alerts/topics/"

// do requests method on path (below /kapacitor/v1/alerts/topics/). ok=false: the service has registered no such route.
func (c *routeCatcher) do(method, path, body string) (status int, resp string, ok bool) {
	c.mu.Lock()
	routes := append([]httpd.Route(nil), c.routes...)
	c.mu.Unlock()
	for _, r := range routes {
		if r.Method != method || !strings.HasSuffix(r.Pattern, "/alerts/topics/") {
			continue
		}
		var f func(http.ResponseWriter, *http.Request)
		switch hf := r.HandlerFunc.(type) {
		case func(http.ResponseWriter, *http.Request):
			f = hf
		case http.HandlerFunc:
			f = hf
		default:
			return 0, "", false
		}
		w := httptest.NewRecorder()
		f(w, httptest.NewRequest(method, path, strings.NewReader(body)))
		return w.Code, w.Body.String(), true
	}
	return 0, "", false
}

func mustJSON(v interface{}) string {
	b, err := json.Marshal(v)
	if err != nil {
		panic(err)
	}
	return string(b)
}

// specOptions: the options of a generated publish or log handler as a JSON object.
func specOptions(sp *mSpec) map[string]interface{} {
	if sp.kind == "log" {
		return map[string]interface{}{"path": sp.logPath}
	}
	return map[string]interface{}{"topics": sp.topics()}
}

func optionKey(sp *mSpec) string {
	if sp.kind == "log" {
		return "path"
	}
	return "topics"
}

// specDocument: the handler as a user writes it for POST and PUT (client/API.md: id, kind, options, match; the
// examples there leave "match" out for a handler without a match condition - omitEmptyMatch does the same).
func specDocument(sp *mSpec, omitEmptyMatch bool) string {
	doc := map[string]interface{}{"id": sp.id, "kind": sp.kind, "options": specOptions(sp)}
	if m := sp.match.render(); m != "" || !omitEmptyMatch {
		doc["match"] = m
	}
	return mustJSON(doc)
}

// patchDocument: an RFC 6902 patch that turns the handler old into the handler nw and names only what differs.
// variant bit 0: the match condition is dropped with "remove" (else "replace" by "") / set with "add" (else "replace");
// variant bit 1: the options are replaced as a whole (else member by member: replace, or remove + add when the kind changes).
// Every path exists in the document the API lists for a handler (id, kind, options, match are always present).
func patchDocument(old, nw *mSpec, variant int) (doc string, removesMatch, keepsMatch bool) {
	type pop = map[string]interface{}
	var ops []pop
	if nw.id != old.id {
		ops = append(ops, pop{"op": "replace", "path": "/id", "value": nw.id})
	}
	if nw.kind != old.kind {
		ops = append(ops, pop{"op": "replace", "path": "/kind", "value": nw.kind})
	}
	switch {
	case variant&2 != 0:
		ops = append(ops, pop{"op": "replace", "path": "/options", "value": specOptions(nw)})
	case nw.kind == old.kind:
		ops = append(ops, pop{"op": "replace", "path": "/options/" + optionKey(nw), "value": specOptions(nw)[optionKey(nw)]})
	default:
		ops = append(ops, pop{"op": "remove", "path": "/options/" + optionKey(old)},
			pop{"op": "add", "path": "/options/" + optionKey(nw), "value": specOptions(nw)[optionKey(nw)]})
	}
	om, nm := old.match.render(), nw.match.render()
	switch {
	case om == nm:
		keepsMatch = om != ""
	case nm == "":
		removesMatch = true
		if variant&1 != 0 {
			ops = append(ops, pop{"op": "remove", "path": "/match"})
		} else {
			ops = append(ops, pop{"op": "replace", "path": "/match", "value": ""})
		}
	case variant&1 != 0:
		ops = append(ops, pop{"op": "add", "path": "/match", "value": nm}) // "add" on an existing member replaces its value (RFC 6902, 4.1)
	default:
		ops = append(ops, pop{"op": "replace", "path": "/match", "value": nm})
	}
	return mustJSON(ops), removesMatch, keepsMatch
}

// httpErr turns the answer of the API into the error a caller of the service function would see: 2xx = done.
func httpErr(method, path string, status int, resp string, ok bool) error {
	if !ok {
		return fmt.Errorf("%s %s: the alert service has registered no such route", method, path)
	}
	if status < 200 || status > 299 {
		return fmt.Errorf("%s %s: status %d %s", method, path, status, strings.TrimSpace(resp))
	}
	return nil
}

// registerSpec registers the handler through Service.RegisterHandlerSpec (via 0) or POST .../handlers (via 1).
func (h *svcHarness) registerSpec(topic string, sp *mSpec, via, variant int) error {
	if via%2 == 0 {
		return h.as.RegisterHandlerSpec(h.handlerSpec(topic, sp))
	}
	h.x.label("spec-via-http:POST")
	p := handlersBase + topic + "/handlers"
	st, resp, ok := h.routes.do("POST", p, specDocument(sp, variant&1 != 0))
	return httpErr("POST", p, st, resp, ok)
}

// deregisterSpec: Service.DeregisterHandlerSpec (via 0) or DELETE .../handlers/<id> (via 1).
func (h *svcHarness) deregisterSpec(topic, id string, via int) error {
	if via%2 == 0 {
		return h.as.DeregisterHandlerSpec(topic, id)
	}
	h.x.label("spec-via-http:DELETE")
	p := handlersBase + topic + "/handlers/" + id
	st, resp, ok := h.routes.do("DELETE", p, "")
	return httpErr("DELETE", p, st, resp, ok)
}

// updateSpec: Service.UpdateHandlerSpec (via 0), PUT of the whole new handler (via 1) or PATCH with a JSON patch
// that names only the differences (via 2) on .../handlers/<old id>.
func (h *svcHarness) updateSpec(topic string, old, nw *mSpec, via, variant int) error {
	p := handlersBase + topic + "/handlers/" + old.id
	switch via % 3 {
	case 1:
		h.x.label("spec-via-http:PUT")
		st, resp, ok := h.routes.do("PUT", p, specDocument(nw, variant&1 != 0))
		return httpErr("PUT", p, st, resp, ok)
	case 2:
		h.x.label("spec-via-http:PATCH")
		doc, removes, keeps := patchDocument(old, nw, variant)
		if removes {
			h.x.label("patch-drops-match-condition")
		}
		if keeps {
			h.x.label("patch-leaves-match-condition-unmentioned")
		}
		st, resp, ok := h.routes.do("PATCH", p, doc)
		return httpErr("PATCH", p, st, resp, ok)
	}
	return h.as.UpdateHandlerSpec(h.handlerSpec(topic, old), h.handlerSpec(topic, nw))
}
