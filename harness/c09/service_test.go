// Unit "Service": generated histories over services/alert.Service on a real Bolt store, with
// handler specs (publish, log, aggregate) registered through the service's API functions.
//
// Generator: persist-topics on (3 of 4 cases) or off; steps collect / UpdateEvent / register, deregister, update
// handler spec (publish with 1-3 private target topics, or log; match expressions) / anonymous handlers /
// close, restore, restart (close + re-register + restore, the sequence of alert.go runAlert), delete topic.
// Handler specs are registered, updated and removed through the service's API functions or through its HTTP API
// (api_test.go: POST, PUT, PATCH with an RFC 6902 patch naming only the differences - remove/replace/add on /match,
// /options, /options/<member>, /id, /kind - and DELETE); an update keeps, drops or replaces the match expression.
// With an aggregate handler (1 case in 12) 1 collect in 4 on its topic is followed by a wait for its aggregated
// event, so that the history spans several aggregation intervals.
// 1 case in 16 additionally holds, somewhere in the history, the triple "register a publish handler with 2-3
// targets; block the recording handler of one of its targets; burst of topic-buffer-length + 1..40 events":
// Collect on the blocked target then reports a full queue, which must not keep the event from the other targets.
//
// Oracle: map model of the event states per topic (source and target topics) and one ledger per recording handler
// (exactly once, FIFO, previous level), a log-file comparison per log handler; for the aggregate handler conservation
// of counts and, per aggregated event, level / time / duration against the events it summarises (its Count). Where the statement leaves something open both readings are accepted (see serviceAssumptions):
// OK states across close/restore, all states across a close without persistence, the previous level of the first
// event of an id on a publish target, the events a blocked handler's full queue refuses.
package c09

import (
	"bytes"
	"encoding/json"
	"fmt"
	"os"
	"path/filepath"
	"runtime"
	"strconv"
	"strings"
	"testing"
	"time"

	"verifharness/kit"

	"github.com/influxdata/kapacitor/alert"
	salert "github.com/influxdata/kapacitor/services/alert"
	"pgregory.net/rapid"
)

// ---------------------------------------------------------------- match expressions

// MExpr is a match expression over changed(), level(), name(), taskName(), alertDuration().
// The oracle evaluates this tree itself; the service gets the rendered text.
type MExpr struct {
	Op  string  `json:"op"`            // "" (none) | changed | level | name | task | dur | tag | and | or | not
	Cmp string  `json:"cmp,omitempty"` // == != < <= > >=
	V   int     `json:"v,omitempty"`
	A   []MExpr `json:"a,omitempty"`
}

var (
	evNames     = []string{"cpu", "mem"}
	evTasks     = []string{"t1", "t2"}
	evDurs      = []time.Duration{0, 5 * time.Second, 10 * time.Second, 30 * time.Second, 90 * time.Second}
	durLits     = []string{"0s", "10s", "1m"}
	durLitVals  = []time.Duration{0, 10 * time.Second, time.Minute}
	allCmps     = []string{"==", "!=", "<", "<=", ">", ">="}
	evHosts     = []string{"", "db01", "db02", "db01"} // tag host of an event; "" = the event has no such tag
	tagVals     = []string{"db01", "db02"}
	changedText = []string{"changed() == TRUE", "changed() == FALSE", "changed()", "changed() != TRUE"}
)

func (e MExpr) render() string {
	switch e.Op {
	case "changed":
		return changedText[e.V%4]
	case "level":
		return fmt.Sprintf("level() %s %s", e.Cmp, levelNames[e.V%4])
	case "name":
		return fmt.Sprintf("name() %s '%s'", e.Cmp, evNames[e.V%2])
	case "task":
		return fmt.Sprintf("taskName() %s '%s'", e.Cmp, evTasks[e.V%2])
	case "dur":
		return fmt.Sprintf("alertDuration() %s %s", e.Cmp, durLits[e.V%3])
	case "tag":
		return fmt.Sprintf("\"host\" == '%s'", tagVals[e.V%2])
	case "and":
		return "(" + e.A[0].render() + ") AND (" + e.A[1].render() + ")"
	case "or":
		return "(" + e.A[0].render() + ") OR (" + e.A[1].render() + ")"
	case "not":
		return "!(" + e.A[0].render() + ")"
	}
	return ""
}

// mEvent is an event as the oracle sees it.
type mEvent struct {
	id    string
	msg   string
	level int
	time  int64
	dur   time.Duration
	name  string
	task  string
	host  string // "" = no tag host
	noExt bool
}

func cmpInt(a int64, op string, b int64) bool {
	switch op {
	case "==":
		return a == b
	case "!=":
		return a != b
	case "<":
		return a < b
	case "<=":
		return a <= b
	case ">":
		return a > b
	case ">=":
		return a >= b
	}
	panic("bad comparison " + op)
}

// eval gives the meaning of the match functions: changed() - the event's level differs from the level
// of the preceding event with the same id; level() - the event's level (OK < INFO < WARNING < CRITICAL);
// name() - measurement name; taskName() - name of the task; alertDuration() - duration of the event.
func (e MExpr) eval(ev mEvent, prev int) bool {
	switch e.Op {
	case "":
		return true
	case "changed":
		ch := ev.level != prev
		switch e.V % 4 {
		case 0, 2:
			return ch
		default:
			return !ch
		}
	case "level":
		return cmpInt(int64(ev.level), e.Cmp, int64(e.V%4))
	case "name":
		return (ev.name == evNames[e.V%2]) == (e.Cmp == "==")
	case "task":
		return (ev.task == evTasks[e.V%2]) == (e.Cmp == "==")
	case "dur":
		return cmpInt(int64(ev.dur), e.Cmp, int64(durLitVals[e.V%3]))
	case "tag":
		// only generated as the whole condition or as a conjunct of it: an event without the tag
		// does not satisfy it under any reading of a missing tag
		return ev.host != "" && ev.host == tagVals[e.V%2]
	case "and":
		return e.A[0].eval(ev, prev) && e.A[1].eval(ev, prev)
	case "or":
		return e.A[0].eval(ev, prev) || e.A[1].eval(ev, prev)
	case "not":
		return !e.A[0].eval(ev, prev)
	}
	panic("bad match op " + e.Op)
}

func (e MExpr) uses(op string) bool {
	if e.Op == op {
		return true
	}
	for _, a := range e.A {
		if a.uses(op) {
			return true
		}
	}
	return false
}

func genAtom(t *rapid.T) MExpr {
	switch rapid.IntRange(0, 9).Draw(t, "atom") {
	case 0, 1, 2:
		return MExpr{Op: "changed", V: rapid.IntRange(0, 3).Draw(t, "form")}
	case 3, 4, 5:
		return MExpr{Op: "level", Cmp: rapid.SampledFrom(allCmps).Draw(t, "cmp"), V: rapid.IntRange(0, 3).Draw(t, "lv")}
	case 6:
		return MExpr{Op: "name", Cmp: rapid.SampledFrom(allCmps[:2]).Draw(t, "cmp"), V: rapid.IntRange(0, 1).Draw(t, "nm")}
	case 7:
		return MExpr{Op: "task", Cmp: rapid.SampledFrom(allCmps[:2]).Draw(t, "cmp"), V: rapid.IntRange(0, 1).Draw(t, "tk")}
	default:
		return MExpr{Op: "dur", Cmp: rapid.SampledFrom(allCmps).Draw(t, "cmp"), V: rapid.IntRange(0, 2).Draw(t, "dv")}
	}
}

func genMatch(t *rapid.T, depth int) MExpr {
	k := rapid.IntRange(0, 9).Draw(t, "shape")
	if depth >= 2 || k < 5 {
		return genAtom(t)
	}
	switch {
	case k < 7:
		return MExpr{Op: "and", A: []MExpr{genMatch(t, depth+1), genMatch(t, depth+1)}}
	case k < 9:
		return MExpr{Op: "or", A: []MExpr{genMatch(t, depth+1), genMatch(t, depth+1)}}
	default:
		return MExpr{Op: "not", A: []MExpr{genMatch(t, depth+1)}}
	}
}

// ---------------------------------------------------------------- case

type SOp struct {
	K     string `json:"k"` // collect update reg dereg upd anon deanon close restore restart delete gate burst
	T     int    `json:"t"`
	I     int    `json:"i,omitempty"`
	L     int    `json:"l,omitempty"`
	Nm    int    `json:"nm,omitempty"`
	Tk    int    `json:"tk,omitempty"`
	D     int    `json:"d,omitempty"`
	NoExt bool   `json:"noext,omitempty"`
	Hs    int    `json:"hs,omitempty"`   // collect: index into evHosts (0 = the event has no tag host)
	H     int    `json:"h,omitempty"`    // handler id index
	H2    int    `json:"h2,omitempty"`   // upd: id index of the new spec
	Kind  int    `json:"kind,omitempty"` // 0 publish, 1 log
	Nt    int    `json:"nt,omitempty"`   // reg/upd of a publish handler: number of target topics beyond the first
	J     int    `json:"j,omitempty"`    // gate: selector of the target topic of the publish handler
	N     int    `json:"n,omitempty"`    // burst: events beyond the queue length
	Via   int    `json:"via,omitempty"`  // reg: 0 Service.RegisterHandlerSpec, 1 POST; dereg: 0 Service.DeregisterHandlerSpec, 1 DELETE; upd: 0 Service.UpdateHandlerSpec, 1 PUT, 2 PATCH
	Pv    int    `json:"pv,omitempty"`   // reg/upd over HTTP: variant of the document (see specDocument, patchDocument)
	Km    int    `json:"km,omitempty"`   // upd: 0 the new spec has the generated match expression, 1 it keeps the one of the old spec, 2 it has none
	Fl    bool   `json:"fl,omitempty"`   // collect on the topic of the aggregate handler: wait until the aggregate handler has published everything it was handed
	Match MExpr  `json:"match"`
	P     int    `json:"p"`
	M     int    `json:"m"`
}

type AggCfg struct {
	T     int   `json:"t"`
	Match MExpr `json:"match"`
}

type ServiceCase struct {
	Witness  bool    `json:"witness,omitempty"`  // a saved witness: no input class is avoided
	NoSettle bool    `json:"nosettle,omitempty"` // do not wait for the deliveries after a collect step
	Persist  bool    `json:"persist"`
	Agg      *AggCfg `json:"agg,omitempty"`
	Ops      []SOp   `json:"ops"`
}

var (
	srcNames    = []string{"sa", "sb", "u"}
	svcPatterns = []string{"", "*", "s*", "sa", "k*", "?b", "s[ab]", "[!s]*", "u", "k1", "x*", "[ks]?"}
	specIDs     = []string{"h0", "h1", "h2"}
)

const (
	anonSlots   = 2
	aggInterval = 20 * time.Millisecond
	svcBuffer   = alert.MinimumEventBufferSize // topic-buffer-length: the smallest queue the service accepts
)

const serviceRule = "rapid: histories of collect/update/register-spec/deregister-spec/update-spec/anonymous handlers/close/restore/restart/delete over services/alert.Service (Bolt store, persist-topics on or off), " +
	"publish (1-3 target topics) +log(+aggregate) handler specs with generated match expressions, set through the service functions or the HTTP API (POST/PUT/PATCH/DELETE), queries after every step; 1 case in 16 blocks the handler of one target topic of a publish handler and collects more events than its queue holds; " +
	"non-trivial = some topic held >=2 event ids with different levels in unsorted insertion order AND at least one event was matched and one rejected by a match expression; distinct by case hash"

func genSOp() func(t *rapid.T) SOp {
	return func(t *rapid.T) SOp {
		op := SOp{T: rapid.SampledFrom([]int{0, 0, 0, 0, 0, 1, 1, 2}).Draw(t, "topic")}
		k := rapid.IntRange(0, 99).Draw(t, "kind")
		switch {
		case k < 46:
			op.K = "collect"
			op.I = rapid.IntRange(0, 3).Draw(t, "id")
			op.L = rapid.IntRange(0, 3).Draw(t, "level")
			op.Nm = rapid.IntRange(0, 1).Draw(t, "name")
			op.Tk = rapid.IntRange(0, 1).Draw(t, "task")
			op.D = rapid.IntRange(0, len(evDurs)-1).Draw(t, "dur")
			op.NoExt = rapid.IntRange(0, 9).Draw(t, "noext") == 9
			op.Hs = rapid.IntRange(0, 3).Draw(t, "host")
			op.Fl = rapid.IntRange(0, 3).Draw(t, "flush") == 3
		case k < 51:
			op.K = "update"
			op.I = rapid.IntRange(0, 3).Draw(t, "id")
			op.L = rapid.IntRange(0, 3).Draw(t, "level")
		case k < 66:
			op.K = "reg"
		case k < 71:
			op.K = "dereg"
			op.H2 = rapid.IntRange(0, 2).Draw(t, "unknown") // 2: an id that may not be registered
		case k < 78:
			op.K = "upd"
			op.H2 = rapid.IntRange(0, len(specIDs)-1).Draw(t, "h2")
		case k < 84:
			op.K = "anon"
		case k < 88:
			op.K = "deanon"
			op.H2 = rapid.IntRange(0, 2).Draw(t, "unknown") // 2: a handler that may not be registered
		case k < 91:
			op.K = "close"
		case k < 94:
			op.K = "restore"
		case k < 96:
			// what a task that is stopped and started again does with its topic (alert.go runAlert): close, register
			// its own handlers again (H2 = 1: one of them), restore
			op.K = "restart"
			op.H2 = rapid.IntRange(0, 1).Draw(t, "reanon")
		default:
			op.K = "delete"
		}
		switch op.K {
		case "reg", "dereg", "upd":
			op.H = rapid.IntRange(0, len(specIDs)-1).Draw(t, "h")
		case "anon", "deanon", "restart":
			op.H = rapid.IntRange(0, anonSlots-1).Draw(t, "slot")
		}
		// the way the request reaches the service: its API functions, or the HTTP API (client/API.md)
		switch op.K {
		case "reg", "dereg":
			op.Via = rapid.SampledFrom([]int{0, 0, 1}).Draw(t, "via")
		case "upd":
			op.Via = rapid.SampledFrom([]int{0, 1, 2, 2}).Draw(t, "via")
			op.Km = rapid.SampledFrom([]int{0, 0, 0, 1, 2}).Draw(t, "newmatch")
		}
		if op.Via != 0 && op.K != "dereg" {
			op.Pv = rapid.IntRange(0, 3).Draw(t, "variant")
		}
		if op.K == "reg" || op.K == "upd" {
			if rapid.IntRange(0, 9).Draw(t, "logkind") >= 7 {
				op.Kind = 1
			} else {
				op.Nt = rapid.SampledFrom([]int{0, 0, 1, 1, 2}).Draw(t, "targets")
			}
			if rapid.IntRange(0, 3).Draw(t, "hasmatch") > 0 {
				op.Match = genMatch(t, 0)
			}
			// a condition on a tag of the event: alone, or AND-ed with the rest
			if rapid.IntRange(0, 3).Draw(t, "tagmatch") == 0 {
				tag := MExpr{Op: "tag", V: rapid.IntRange(0, 1).Draw(t, "tagval")}
				if op.Match.Op == "" {
					op.Match = tag
				} else if rapid.Bool().Draw(t, "tagfirst") {
					op.Match = MExpr{Op: "and", A: []MExpr{tag, op.Match}}
				} else {
					op.Match = MExpr{Op: "and", A: []MExpr{op.Match, tag}}
				}
			}
		}
		op.P = rapid.IntRange(0, len(svcPatterns)-1).Draw(t, "pattern")
		op.M = rapid.IntRange(0, 3).Draw(t, "min")
		return op
	}
}

func genService(t *rapid.T) ServiceCase {
	var c ServiceCase
	c.Persist = rapid.IntRange(0, 3).Draw(t, "persist") > 0
	c.NoSettle = rapid.IntRange(0, 3).Draw(t, "nosettle") == 3
	if rapid.IntRange(0, 11).Draw(t, "agg") == 11 {
		// no match expression on the aggregate handler: DeregisterHandlerSpec closes a handler only if the
		// registered object has a Close method, and the match wrapper has none - the aggregate handler's
		// goroutine and 20 ms ticker would stay behind in every such case and slow the process down
		c.Agg = &AggCfg{T: rapid.IntRange(0, 1).Draw(t, "aggT")}
	}
	// rapid prefers short slices: a drawn minimum length keeps long histories frequent, and shrinks away first
	min := rapid.IntRange(1, 24).Draw(t, "minOps")
	c.Ops = rapid.SliceOfN(rapid.Custom(genSOp()), min, 30).Draw(t, "ops")
	if rapid.IntRange(0, 15).Draw(t, "burst") == 15 { // the largest value: shrinking moves away from bursts
		// somewhere in the history: a publish handler with 2-3 target topics, the handler of one of the targets is
		// slow (blocked), and more events than its queue holds
		tp := rapid.IntRange(0, 1).Draw(t, "burstTopic")
		at := rapid.IntRange(0, len(c.Ops)).Draw(t, "burstAt")
		hid := rapid.IntRange(0, len(specIDs)-1).Draw(t, "h")
		triple := []SOp{{K: "reg", T: tp, H: hid, Nt: rapid.IntRange(1, 2).Draw(t, "targets")},
			{K: "gate", T: tp, H: hid, J: rapid.IntRange(0, 2).Draw(t, "gateTarget")},
			{K: "burst", T: tp, I: rapid.IntRange(0, 3).Draw(t, "id"), L: rapid.IntRange(0, 3).Draw(t, "level"), N: rapid.IntRange(1, 40).Draw(t, "extra"),
				Nm: rapid.IntRange(0, 1).Draw(t, "name"), Tk: rapid.IntRange(0, 1).Draw(t, "task"), D: rapid.IntRange(0, len(evDurs)-1).Draw(t, "dur"), Hs: rapid.IntRange(0, 3).Draw(t, "host")}}
		ops := append([]SOp(nil), c.Ops[:at]...)
		ops = append(ops, triple...)
		c.Ops = append(ops, c.Ops[at:]...)
	}
	return c
}

// ---------------------------------------------------------------- harness

type serviceView struct{ as *salert.Service }

func (v serviceView) exists(topic string) bool { _, ok, _ := v.as.TopicState(topic); return ok }
func (v serviceView) maxLevel(topic string) (int, bool) {
	s, ok, _ := v.as.TopicState(topic)
	return int(s.Level), ok
}
func (v serviceView) eventStates(topic string, min int) (map[string]alert.EventState, bool) {
	m, err := v.as.EventStates(topic, alert.Level(min))
	return m, err == nil
}
func (v serviceView) eventState(topic, id string) (alert.EventState, bool) {
	s, ok, _ := v.as.EventState(topic, id)
	return s, ok
}
func (v serviceView) topicStates(pattern string, min int) map[string]alert.TopicState {
	m, _ := v.as.TopicStates(pattern, alert.Level(min))
	return m
}

// Findings of this unit. While a finding is open its input class is avoided by construction (counted in the
// evidence); saved witnesses carry "witness": true and are run as they are. Once a finding is repaired in the
// repository its class is put back into the search by setting the constant to false (to try a repair in a
// scratch worktree: VERIF_C09_INCLUDE=delete,update,drain,restoremark).
const (
	// Service.DeleteTopic removes the running topic together with the registrations of its handler specs, but
	// keeps the specs: they are still listed and stored, yet receive nothing until the daemon restarts.
	openDeleteWithSpecs = false // repaired in /repo by a fix: commit
	sigDeadAfterDelete  = "service/handler-spec-dead-after-delete-topic"
	// UpdateHandlerSpec onto the id of another handler of the topic overwrites that handler's spec but leaves
	// its handler registered: unlisted and not removable, it keeps receiving every event.
	openUpdateOntoExistingID = false // repaired in /repo by a fix: commit
	sigOrphanAfterUpdate     = "service/orphan-handler-after-update-onto-existing-id"
	// DeregisterHandlerSpec/UpdateHandlerSpec/CloseTopic/DeleteTopic/Close hold Service.mu, and Topics.DeregisterHandler/
	// ReplaceHandler/Close hold Topics.mu, while they wait for the handler's goroutine to drain its queue; a publish (or
	// aggregate) handler that is still inside Service.Collect needs Service.mu.RLock / Topics.mu.RLock: deadlock.
	// Avoided by letting these steps start only when no handler goroutine is inside Service.Collect.
	openDrainWhilePublishing = true
	sigDrainDeadlock         = "service/deadlock-draining-publish-handler"
	// Service.RestoreTopic restores a closed topic but leaves it marked as closed, so the next Collect on it restores it
	// a second time from the store. With persist-topics disabled the store is empty: the event states that UpdateEvent
	// set in between (alert.go restoreEvent does that when a restarted task meets a group again) are discarded.
	// Avoided by generating no UpdateEvent between the RestoreTopic of a closed topic and the next Collect on it
	// when persist-topics is disabled.
	openRestoreKeepsClosedMark = false // repaired in /repo by a fix: commit
	sigUpdateLostAfterRestore  = "service/update-event-lost-after-restore-topic"
)

var (
	include                     = os.Getenv("VERIF_C09_INCLUDE")
	excludeDeleteWithSpecs      = openDeleteWithSpecs && !strings.Contains(include, "delete")
	excludeUpdateOntoExistingID = openUpdateOntoExistingID && !strings.Contains(include, "update")
	excludeDrainWhilePublishing = openDrainWhilePublishing && !strings.Contains(include, "drain")
	excludeUpdateAfterRestore   = openRestoreKeepsClosedMark && !strings.Contains(include, "restoremark")
)

var svcRec *kit.Rec

type mSpec struct {
	topicDeleted bool // its topic was deleted while the spec was registered
	orphan       bool // its id was taken over by an update of another handler
	id           string
	kind         string // publish | log | aggregate
	match        MExpr
	sink         string    // aggregate: target topic
	targets      []*target // publish: target topics, in the order of the handler's option "topics"
	logPath      string
	logExp       []expEntry
	closed       bool
	logSeen      int // lines verified when the spec was closed
}

// target is one target topic of a publish handler: a private topic that carries an anonymous recording handler.
type target struct {
	topic string
	lg    *ledger
}

func (sp *mSpec) publishesTo(topic string) bool {
	for _, tg := range sp.targets {
		if tg.topic == topic {
			return true
		}
	}
	return false
}

func (sp *mSpec) topics() []string {
	var ts []string
	for _, tg := range sp.targets {
		ts = append(ts, tg.topic)
	}
	return ts
}

type srcTopic struct {
	name         string
	specs        map[string]*mSpec
	anon         [anonSlots]*ledger
	closed       bool
	closedStates *mTopic
	reopened     bool // the topic was closed at least once
	restoredOpen bool // RestoreTopic has restored the closed topic and nothing was collected on it since
}

// specIDs lists the ids of the topic's generated handler specs (not the aggregate handler), sorted.
func (st *srcTopic) specIDs() []string {
	var ids []string
	for _, id := range kit.SortedKeys(st.specs) {
		if st.specs[id].kind != "aggregate" {
			ids = append(ids, id)
		}
	}
	return ids
}

type svcHarness struct {
	witness  bool
	persist  bool
	x        *ctx
	as       *salert.Service
	routes   *routeCatcher
	dir      string
	model    map[string]*mTopic
	src      map[string]*srcTopic
	ledgers  []*ledger
	specs    []*mSpec
	serial   int64
	sinkSeq  int
	logSeq   int
	matched  bool
	rejected bool
	// an UpdateEvent was made between the RestoreTopic of a closed topic and the next Collect on it, without persistence
	updatedAfterRestore bool
	// aggregate
	agg         *mSpec
	aggTopic    string
	aggRec      *recorder
	aggExpected int
	aggMaxLevel int
	aggEvents   []mEvent // the events handed to the aggregate handler, in the order they were collected
}

func (h *svcHarness) newLedger(name, topic string) *ledger {
	lg := &ledger{rec: &recorder{name: name, topic: topic}}
	h.ledgers = append(h.ledgers, lg)
	return lg
}

func (h *svcHarness) handlerSpec(topic string, sp *mSpec) salert.HandlerSpec {
	hs := salert.HandlerSpec{ID: sp.id, Topic: topic, Kind: sp.kind, Match: sp.match.render()}
	switch sp.kind {
	case "publish":
		hs.Options = map[string]interface{}{"topics": sp.topics()}
	case "log":
		hs.Options = map[string]interface{}{"path": sp.logPath}
	case "aggregate":
		hs.Options = map[string]interface{}{"id": "agg", "interval": aggInterval, "topic": sp.sink, "message": "{{.Count}}"}
	}
	return hs
}

// newSpec prepares a spec with private targets: 1+extra fresh sink topics, each carrying an anonymous recording
// handler (publish), or a fresh log file.
func (h *svcHarness) newSpec(topic, id string, kind int, match MExpr, extra int) *mSpec {
	sp := &mSpec{id: id, match: match}
	if kind == 1 {
		sp.kind = "log"
		h.logSeq++
		sp.logPath = filepath.Join(h.dir, fmt.Sprintf("log%d.json", h.logSeq))
	} else {
		sp.kind = "publish"
		n := 1 + extra%3
		for j := 0; j < n; j++ {
			h.sinkSeq++
			sink := fmt.Sprintf("k%d", h.sinkSeq)
			h.model[sink] = newMTopic()
			lg := h.newLedger(fmt.Sprintf("recorder on %s (target %d of %d of publish handler %s/%s)", sink, j+1, n, topic, id), sink)
			h.as.RegisterAnonHandler(sink, lg.rec)
			sp.targets = append(sp.targets, &target{topic: sink, lg: lg})
		}
		if n > 1 {
			h.x.label("publish-targets>=2")
		}
	}
	h.specs = append(h.specs, sp)
	return sp
}

// closeSpec ends a spec whose source-side queue has been drained by the service: its publishes have
// been collected on the sink (the sink's own handler may still be busy: bounded wait), its log is complete.
func (h *svcHarness) closeSpec(sp *mSpec, why string) {
	sp.closed = true
	switch sp.kind {
	case "publish":
		for _, tg := range sp.targets {
			lg := tg.lg
			if lg.gated {
				// the handler of this target is blocked: the events are counted on the topic now, the ledger is compared at the end
				h.awaitCollected(lg)
				lg.closed = true
				continue
			}
			waitFor(func() bool { return lg.rec.count() >= len(lg.exp) }, deliveryBound)
			lg.closed = true
			verifyLedger(h.x, lg, nil, map[string]int{})
			lg.verified = lg.rec.count()
			if h.x.failed() {
				break
			}
		}
	case "log":
		h.verifyLog(sp)
	}
	if h.x.failed() {
		h.x.mu.Lock()
		h.x.msg = "after " + why + ": " + h.x.msg
		h.x.mu.Unlock()
	}
}

func (h *svcHarness) verifyLog(sp *mSpec) {
	var lines []alert.Data
	f, err := os.Open(sp.logPath)
	if err == nil {
		dec := json.NewDecoder(f)
		for dec.More() {
			var ad alert.Data
			if err := dec.Decode(&ad); err != nil {
				f.Close()
				h.x.fail("log/unreadable", "log of handler %s: %v", sp.id, err)
				return
			}
			lines = append(lines, ad)
		}
		f.Close()
	} else if !os.IsNotExist(err) {
		h.x.fail("harness/log", "open log: %v", err)
		return
	}
	prevSeen := sp.logSeen
	sp.logSeen = len(lines)
	obs := make([]got, len(lines))
	for i, ad := range lines {
		obs[i] = got{ID: ad.ID, Msg: ad.Message, Level: int(ad.Level), Prev: int(ad.PreviousLevel), Time: ad.Time.UnixNano(), Dur: ad.Duration}
	}
	if len(obs) != len(sp.logExp) {
		sig := "delivery/missing"
		if sp.topicDeleted {
			sig = sigDeadAfterDelete
		}
		if len(obs) > len(sp.logExp) {
			sig = "delivery/unexpected"
			if sp.closed && prevSeen == len(sp.logExp) {
				sig = "delivery/after-deregistration"
				if sp.orphan {
					sig = sigOrphanAfterUpdate
				}
			}
		}
		h.x.fail(sig, "log handler %s (match %q) wrote %d events, %d expected\nexpected: %s\nobserved: %s", sp.id, sp.match.render(), len(obs), len(sp.logExp), fmtExp(sp.logExp), fmtObs(obs))
		return
	}
	for i, e := range sp.logExp {
		o := obs[i]
		if o.Msg != e.Msg || o.ID != e.ID || o.Level != e.Level || o.Time != e.Time*int64(time.Second) {
			h.x.fail("delivery/order", "log handler %s (match %q): entry %d is %s[%s:%s], expected %s[%s:%s]\nexpected: %s\nobserved: %s", sp.id, sp.match.render(), i, o.Msg, o.ID, lvl(o.Level), e.Msg, e.ID, lvl(e.Level), fmtExp(sp.logExp), fmtObs(obs))
			return
		}
		if o.Prev != e.Prev && o.Prev != e.PrevAlt {
			h.x.fail("delivery/previous-level", "log handler %s: event %s (id %s level %s) logged with previousLevel %s, the preceding event with that id had level %s", sp.id, o.Msg, o.ID, lvl(o.Level), lvl(o.Prev), lvl(e.Prev))
			return
		}
	}
}

func (h *svcHarness) restoreModel(st *srcTopic) {
	mt := h.model[st.name]
	mt.clear()
	if st.closedStates != nil {
		for _, id := range st.closedStates.order {
			s := st.closedStates.states[id]
			if s.Level == 0 {
				// Collect deletes an OK state from the store, UpdateEvent stores it: either is accepted
				s.Optional = true
			}
			if !h.persist {
				// persist-topics disabled: the statement does not say whether a closed topic remembers its
				// event states; both are accepted (for the listing and for the previous level of the next event)
				s.Optional = true
			}
			mt.set(id, s)
		}
	}
	st.closed = false
	st.closedStates = nil
}

// modelCollect applies one collected event to the model and extends the ledgers.
func (h *svcHarness) modelCollect(st *srcTopic, ev mEvent) {
	if st.closed {
		h.restoreModel(st) // Collect on a closed topic restores it first
		h.x.label("collect-restores-closed-topic")
	}
	mt := h.model[st.name]
	prev, alt := mt.prevLevel(ev.id), mt.prevAlt(ev.id)
	mt.set(ev.id, mState{Level: ev.level, Time: ev.time, Msg: ev.msg})
	if mt.unsortedInsertion() {
		h.x.label("unsorted-insertion")
	}
	for _, lg := range st.anon {
		if lg != nil {
			lg.exp = append(lg.exp, expEntry{Msg: ev.msg, ID: ev.id, Level: ev.level, Prev: prev, PrevAlt: alt, Time: ev.time})
		}
	}
	for _, id := range kit.SortedKeys(st.specs) {
		sp := st.specs[id]
		ok := sp.match.eval(ev, prev) // the same under the second admissible previous level: see ambiguous
		if sp.match.Op != "" {
			if ok {
				h.matched = true
			} else {
				h.rejected = true
			}
		}
		if !ok {
			continue
		}
		switch sp.kind {
		case "publish":
			// republished to every target topic of the handler
			for _, tg := range sp.targets {
				sm := h.model[tg.topic]
				e := expEntry{Msg: ev.msg, ID: ev.id, Level: ev.level, PrevAlt: -1, Time: ev.time}
				if _, has := sm.states[ev.id]; has {
					e.Prev = sm.prevLevel(ev.id)
				} else {
					// first event with this id on the target topic: the statement does not say whether the
					// previous level is OK (no preceding event there) or the one it had on the source topic
					// (which is prev, or OK under the second reading of prev)
					e.Prev, e.PrevAlt = 0, prev
				}
				sm.set(ev.id, mState{Level: ev.level, Time: ev.time, Msg: ev.msg})
				tg.lg.exp = append(tg.lg.exp, e)
			}
		case "log":
			if !ev.noExt { // log is an external handler: events flagged NoExternal are not passed to it
				sp.logExp = append(sp.logExp, expEntry{Msg: ev.msg, ID: ev.id, Level: ev.level, Prev: prev, PrevAlt: alt, Time: ev.time})
			}
		case "aggregate":
			h.aggExpected++
			h.aggEvents = append(h.aggEvents, ev)
			if ev.level > h.aggMaxLevel {
				h.aggMaxLevel = ev.level
			}
		}
	}
}

// ambiguous: the state of the event's id may have been forgotten by a close without persistence, and a match
// expression of a handler of the topic decides differently under the two admissible previous levels.
func (h *svcHarness) ambiguous(st *srcTopic, ev mEvent) bool {
	prev, alt := h.peekPrev(st, ev.id)
	if alt < 0 {
		return false
	}
	for _, sp := range st.specs {
		if sp.match.eval(ev, prev) != sp.match.eval(ev, alt) {
			return true
		}
	}
	return false
}

// peekPrev: the admissible previous levels of the next event with that id on the topic (alt -1: only one).
func (h *svcHarness) peekPrev(st *srcTopic, id string) (prev, alt int) {
	states, all := h.model[st.name].states, false
	if st.closed { // the topic would be restored first
		if st.closedStates == nil {
			return 0, -1
		}
		states, all = st.closedStates.states, !h.persist
	}
	s, ok := states[id]
	if !ok {
		return 0, -1
	}
	if s.Level != 0 && (s.Optional || all) {
		return s.Level, 0
	}
	return s.Level, -1
}

// unobservable: some handler of the topic would not be handed the event (its match expression is false, or it is an
// external handler and the event is flagged NoExternal): the progress of that handler cannot be observed.
func (h *svcHarness) unobservable(st *srcTopic, ev mEvent) bool {
	prev, _ := h.peekPrev(st, ev.id)
	for _, sp := range st.specs {
		if !sp.match.eval(ev, prev) || (sp.kind == "log" && ev.noExt) {
			return true
		}
	}
	return false
}

// caughtUp: everything the model expects of the recorder has arrived; for a blocked recorder: has been
// collected on its topic (TopicState.Collected counts the events collected on a topic).
func (h *svcHarness) caughtUp(lg *ledger) bool {
	if lg.gated {
		ts, ok, _ := h.as.TopicState(lg.rec.topic)
		return ok && ts.Collected >= int64(len(lg.exp))
	}
	return lg.rec.count() >= len(lg.exp)
}

// awaitCollected waits (bounded) until every event expected on the target topic of a blocked recorder has been collected there.
func (h *svcHarness) awaitCollected(lg *ledger) {
	if !waitFor(func() bool { return h.caughtUp(lg) }, deliveryBound) {
		h.failCollected(lg)
	}
}

func (h *svcHarness) failCollected(lg *ledger) {
	ts, _, _ := h.as.TopicState(lg.rec.topic)
	sig := "delivery/missing"
	if lg.missSig != "" {
		sig = lg.missSig
	}
	h.x.fail(sig, "%s: the topic has collected %d events after %v, %d events were collected on the source topic while the publish handler was registered and its match condition held\nexpected: %s",
		lg.rec.name, ts.Collected, deliveryBound, len(lg.exp), fmtExp(lg.exp))
}

func countLines(path string) int {
	b, err := os.ReadFile(path)
	if err != nil {
		return 0
	}
	return bytes.Count(b, []byte{'\n'})
}

// pace keeps a burst from overflowing the queues of the handlers of the source topic (which would make Collect
// on the source topic report failed deliveries): it waits until what was collected so far has been handled.
func (h *svcHarness) pace(st *srcTopic) {
	waitFor(func() bool {
		for _, lg := range h.ledgers {
			if !lg.closed && !h.caughtUp(lg) {
				return false
			}
		}
		return true
	}, deliveryBound)
	for _, id := range kit.SortedKeys(st.specs) {
		if sp := st.specs[id]; sp.kind == "log" {
			waitFor(func() bool { return countLines(sp.logPath) >= len(sp.logExp) }, deliveryBound)
		}
	}
	if h.agg != nil && st.name == h.aggTopic {
		waitFor(func() bool { s, _ := h.aggSum(); return s >= h.aggExpected }, deliveryBound)
	}
}

func (h *svcHarness) releaseGates() {
	for _, lg := range h.ledgers {
		lg.rec.release()
	}
}

func (st *srcTopic) publishSpecs() []*mSpec {
	var pubs []*mSpec
	for _, id := range st.specIDs() {
		if sp := st.specs[id]; sp.kind == "publish" {
			pubs = append(pubs, sp)
		}
	}
	return pubs
}

func (st *srcTopic) hasGatedTarget() bool {
	for _, sp := range st.publishSpecs() {
		for _, tg := range sp.targets {
			if tg.lg.gated {
				return true
			}
		}
	}
	return false
}

// collectOne collects one event on the topic; paced: only if the progress of every handler of the topic can be
// observed by this event. It reports whether the event was collected.
func (h *svcHarness) collectOne(st *srcTopic, op SOp, idIdx, level int, paced bool) bool {
	x := h.x
	n := h.serial
	h.serial++
	ev := mEvent{id: eventIDs[idIdx%4], msg: fmt.Sprintf("m%d", n), level: level % 4, time: baseTime + n, dur: evDurs[op.D%len(evDurs)],
		name: evNames[op.Nm%2], task: evTasks[op.Tk%2], host: evHosts[op.Hs%len(evHosts)], noExt: op.NoExt}
	if h.ambiguous(st, ev) {
		x.label("skipped:match-depends-on-a-state-from-before-an-unpersisted-close")
		return false
	}
	if paced && h.unobservable(st, ev) {
		return false
	}
	var tags map[string]string
	if ev.host != "" {
		tags = map[string]string{"host": ev.host, "dc": "x"}
		x.label("event-with-tag")
	}
	if !h.persist && st.reopened && len(st.specs) > 0 {
		x.label("event-for-spec-handler-after-unpersisted-close")
	}
	h.modelCollect(st, ev)
	st.restoredOpen = false
	err := h.as.Collect(alert.Event{Topic: st.name, NoExternal: ev.noExt,
		State: alert.EventState{ID: ev.id, Message: ev.msg, Time: time.Unix(ev.time, 0).UTC(), Duration: ev.dur, Level: alert.Level(ev.level)},
		Data:  alert.EventData{Name: ev.name, TaskName: ev.task, Tags: tags}})
	if err != nil {
		x.fail("collect/error", "Collect of event %s on topic %s returned %v", ev.msg, st.name, err)
	}
	return true
}

// handlersIdle: no goroutine is inside Service.Collect (the harness calls Collect only synchronously, so
// any such frame belongs to a publish or aggregate handler that republishes).
func handlersIdle() bool {
	buf := make([]byte, 1<<18)
	for {
		n := runtime.Stack(buf, true)
		if n < len(buf) || len(buf) >= 1<<26 {
			return !strings.Contains(string(buf[:n]), "services/alert.(*Service).Collect(")
		}
		buf = make([]byte, 2*len(buf))
	}
}

// beforeDrain runs before every step that makes the service wait for handler goroutines while it holds its
// locks (finding service/deadlock-draining-publish-handler, avoided by construction).
func (h *svcHarness) beforeDrain(st *srcTopic) {
	if !excludeDrainWhilePublishing || h.witness {
		return
	}
	if h.agg != nil && (st == nil || st.name == h.aggTopic) {
		waitFor(func() bool { s, _ := h.aggSum(); return s >= h.aggExpected }, deliveryBound)
	}
	waitFor(handlersIdle, deliveryBound)
}

func (h *svcHarness) pickTopic(sel int, pred func(*srcTopic) bool) *srcTopic {
	for i := 0; i < len(srcNames); i++ {
		if st := h.src[srcNames[(sel+i)%len(srcNames)]]; pred(st) {
			return st
		}
	}
	return h.src[srcNames[sel%len(srcNames)]]
}

func (h *svcHarness) apply(op SOp) {
	x := h.x
	st := h.src[srcNames[op.T%len(srcNames)]]
	// steps that need something to act on prefer a topic that has it
	switch op.K {
	case "dereg":
		if op.H2 != 2 {
			st = h.pickTopic(op.T, func(t *srcTopic) bool { return len(t.specIDs()) > 0 })
		}
	case "upd":
		st = h.pickTopic(op.T, func(t *srcTopic) bool { return len(t.specIDs()) > 0 })
	case "deanon":
		if op.H2 != 2 {
			st = h.pickTopic(op.T, func(t *srcTopic) bool { return t.anon[0] != nil || t.anon[1] != nil })
		}
	case "restore":
		st = h.pickTopic(op.T, func(t *srcTopic) bool { return t.closed })
	case "gate":
		st = h.pickTopic(op.T, func(t *srcTopic) bool { return len(t.publishSpecs()) > 0 })
	case "burst":
		st = h.pickTopic(op.T, func(t *srcTopic) bool { return t.hasGatedTarget() })
	case "restart":
		// close, register one of the task's own handlers again (H2 = 1), restore: alert.go runAlert of the old and the new task
		x.label("op:restart")
		t := op.T % len(srcNames)
		h.apply(SOp{K: "close", T: t})
		if op.H2 == 1 && !x.failed() {
			h.apply(SOp{K: "anon", T: t, H: op.H})
		}
		if !x.failed() {
			h.apply(SOp{K: "restore", T: t})
		}
		return
	}
	name := st.name
	mt := h.model[name]
	x.label("op:" + op.K)
	switch op.K {
	case "dereg", "upd", "close", "delete":
		h.beforeDrain(st)
	}
	switch op.K {
	case "collect":
		if h.collectOne(st, op, op.I, op.L, false) && op.Fl && h.agg != nil && name == h.aggTopic {
			// the next event handed to the aggregate handler belongs to a later interval
			x.label("aggregate-interval-boundary")
			if !waitFor(func() bool { s, _ := h.aggSum(); return s >= h.aggExpected }, deliveryBound) {
				s, _ := h.aggSum()
				x.fail("aggregate/missing", "aggregate handler was handed %d events but after %v its aggregated events account for %d", h.aggExpected, deliveryBound, s)
			}
		}
	case "burst":
		// more events than a handler queue holds (topic-buffer-length), ids and levels varying. Only events that every
		// handler of the topic is handed (match expressions) are collected: the harness has to see the progress of every
		// handler of the source topic to keep their queues from overflowing (which Collect would report as an error).
		total, done := svcBuffer+op.N, 0
		for i := 0; done < total && i < 4*total && !x.failed(); i++ {
			if h.collectOne(st, op, op.I+i, op.L+i/3, true) {
				if done++; done%250 == 0 {
					h.pace(st)
				}
			}
		}
		if done < total {
			x.label("burst-cut-short-by-match-expressions")
		}
	case "gate":
		// the handler of one target topic of a publish handler of this topic becomes slow: it blocks until the end of the history
		pubs := st.publishSpecs()
		if len(pubs) == 0 {
			x.label("gate-skipped")
			return
		}
		sp := st.specs[specIDs[op.H%len(specIDs)]]
		if sp == nil || sp.kind != "publish" {
			sp = pubs[op.H%len(pubs)]
		}
		j := op.J % len(sp.targets)
		lg := sp.targets[j].lg
		if lg.gated {
			return
		}
		// its queue is empty when it blocks: everything handed to it so far has been handled
		waitFor(func() bool { return lg.rec.count() >= len(lg.exp) }, deliveryBound)
		verifyLedger(x, lg, nil, map[string]int{})
		if x.failed() {
			return
		}
		lg.gated, lg.gateIdx, lg.queueLen = true, len(lg.exp), svcBuffer
		lg.rec.setGate()
		if j < len(sp.targets)-1 {
			x.label("slow-handler-on-earlier-target")
		} else {
			x.label("slow-handler-on-last-target")
		}
	case "update":
		// callers' precondition: the topic is known to the API (and, narrowed here, not closed)
		if st.closed || !(serviceView{h.as}).exists(name) {
			x.label("update-skipped")
			return
		}
		if st.restoredOpen && !h.persist {
			if excludeUpdateAfterRestore && !h.witness {
				// known finding service/update-event-lost-after-restore-topic: avoided by construction
				x.label("excluded:update-event-between-restore-topic-and-collect-without-persistence")
				if svcRec != nil {
					svcRec.Exclude("update-event-between-restore-topic-and-collect-without-persistence")
				}
				return
			}
			x.label("update-event-between-restore-topic-and-collect-without-persistence")
			h.updatedAfterRestore = true
		}
		n := h.serial
		h.serial++
		id := eventIDs[op.I%4]
		msg := fmt.Sprintf("u%d", n)
		mt.set(id, mState{Level: op.L % 4, Time: baseTime + n, Msg: msg})
		if err := h.as.UpdateEvent(name, alert.EventState{ID: id, Message: msg, Time: time.Unix(baseTime+n, 0).UTC(), Level: alert.Level(op.L % 4)}); err != nil {
			x.fail("update/error", "UpdateEvent on topic %s returned %v", name, err)
		}
	case "reg":
		id := specIDs[op.H%len(specIDs)]
		if _, dup := st.specs[id]; dup {
			x.label("register-existing-id")
			err := h.registerSpec(name, &mSpec{id: id, kind: "publish", targets: []*target{{topic: "unused"}}}, op.Via, op.Pv)
			if err == nil {
				x.fail("spec/duplicate-id-accepted", "RegisterHandlerSpec accepted a second handler %s on topic %s", id, name)
			}
			return
		}
		sp := h.newSpec(name, id, op.Kind, op.Match, op.Nt)
		if err := h.registerSpec(name, sp, op.Via, op.Pv); err != nil {
			x.fail("spec/rejected", "RegisterHandlerSpec(%+v) returned %v", h.handlerSpec(name, sp), err)
			return
		}
		st.specs[id] = sp
	case "dereg":
		id := specIDs[op.H%len(specIDs)]
		if ids := st.specIDs(); len(ids) > 0 && op.H2 != 2 {
			id = ids[op.H%len(ids)]
		}
		sp := st.specs[id]
		if err := h.deregisterSpec(name, id, op.Via); err != nil {
			x.fail("spec/rejected", "DeregisterHandlerSpec(%s, %s) returned %v", name, id, err)
			return
		}
		if sp == nil {
			x.label("deregister-unknown-id")
			return
		}
		delete(st.specs, id)
		h.closeSpec(sp, "DeregisterHandlerSpec")
	case "upd":
		// API precondition (handlePutHandler/handlePatchHandler): the old spec exists
		ids := st.specIDs()
		if len(ids) == 0 {
			x.label("update-spec-skipped")
			return
		}
		oldID, newID := ids[op.H%len(ids)], specIDs[op.H2%len(specIDs)]
		old := st.specs[oldID]
		other := st.specs[newID]
		if newID != oldID && other != nil && excludeUpdateOntoExistingID && !h.witness {
			x.label("excluded:update-spec-to-existing-id")
			if svcRec != nil {
				svcRec.Exclude("update-spec-to-existing-id")
			}
			return
		}
		match := op.Match
		switch op.Km % 3 {
		case 1:
			match = old.match
			x.label("update-spec-keeps-match-condition")
		case 2:
			match = MExpr{}
		}
		nw := h.newSpec(name, newID, op.Kind, match, op.Nt)
		if old.match.Op != "" && nw.match.Op == "" {
			x.label("update-spec-drops-match-condition")
		}
		err := h.updateSpec(name, old, nw, op.Via, op.Pv)
		if newID != oldID && other != nil {
			// the new id belongs to another handler of the topic: either the update is refused and
			// nothing changes, or it replaces both handlers by the new one
			x.label("update-spec-to-existing-id")
			if err != nil {
				nw.closed = true
				nw.lgClose()
				return
			}
			delete(st.specs, oldID)
			st.specs[newID] = nw
			h.closeSpec(old, "UpdateHandlerSpec")
			if !x.failed() {
				other.orphan = true
				for _, tg := range other.targets {
					tg.lg.afterSig = sigOrphanAfterUpdate
				}
				h.closeSpec(other, "UpdateHandlerSpec onto its id")
			}
			return
		}
		if err != nil {
			x.fail("spec/rejected", "UpdateHandlerSpec(%s/%s -> %+v) returned %v", name, oldID, h.handlerSpec(name, nw), err)
			return
		}
		if newID != oldID {
			x.label("update-spec-renames")
		}
		delete(st.specs, oldID)
		st.specs[newID] = nw
		h.closeSpec(old, "UpdateHandlerSpec")
	case "anon":
		s := op.H % anonSlots
		if st.anon[s] != nil {
			h.as.RegisterAnonHandler(name, st.anon[s].rec)
			return
		}
		st.anon[s] = h.newLedger(fmt.Sprintf("anonymous handler %s/a%d", name, s), name)
		h.as.RegisterAnonHandler(name, st.anon[s].rec)
	case "deanon":
		s := op.H % anonSlots
		if st.anon[s] == nil && st.anon[(s+1)%anonSlots] != nil && op.H2 != 2 {
			s = (s + 1) % anonSlots
		}
		lg := st.anon[s]
		if lg == nil {
			h.as.DeregisterAnonHandler(name, &recorder{name: "never-registered", topic: name})
			return
		}
		h.as.DeregisterAnonHandler(name, lg.rec)
		st.anon[s] = nil
		h.closeAnon(lg, "DeregisterAnonHandler")
	case "close":
		if st.closed {
			x.label("close-closed-topic")
		}
		if err := h.as.CloseTopic(name); err != nil {
			x.fail("topic/close-error", "CloseTopic(%s): %v", name, err)
			return
		}
		if !h.persist {
			x.label("close-without-persistence")
		}
		st.reopened, st.restoredOpen = true, false
		if !st.closed {
			st.closed = true
			st.closedStates = &mTopic{states: mt.states, order: mt.order}
			mt.states, mt.order = map[string]mState{}, nil
		}
		h.dropAnon(st, "CloseTopic")
	case "restore":
		// caller (alert.go runAlert): restores a topic that was closed, or that has no events yet
		if !st.closed && len(mt.states) > 0 {
			x.label("restore-skipped-live-topic")
			return
		}
		if err := h.as.RestoreTopic(name); err != nil {
			x.fail("topic/restore-error", "RestoreTopic(%s): %v", name, err)
			return
		}
		if st.closed {
			x.label("restore-closed-topic")
			h.restoreModel(st)
			st.restoredOpen = true
		}
	case "delete":
		if len(st.specs) > 0 {
			if excludeDeleteWithSpecs && !h.witness {
				// known finding service/handler-spec-dead-after-delete-topic: avoided by construction
				x.label("excluded:delete-topic-with-handler-specs")
				if svcRec != nil {
					svcRec.Exclude("delete-topic-with-handler-specs")
				}
				return
			}
			x.label("delete-topic-with-handler-specs")
			for _, sp := range st.specs {
				sp.topicDeleted = true
				for _, tg := range sp.targets {
					tg.lg.missSig = sigDeadAfterDelete
				}
			}
		}
		if err := h.as.DeleteTopic(name); err != nil {
			x.fail("topic/delete-error", "DeleteTopic(%s): %v", name, err)
			return
		}
		mt.clear()
		st.closed, st.closedStates, st.restoredOpen = false, nil, false
		h.dropAnon(st, "DeleteTopic")
	}
}

func afterSig(lg *ledger) string {
	if lg.afterSig != "" {
		return lg.afterSig
	}
	return "delivery/after-deregistration"
}

func (sp *mSpec) lgClose() {
	for _, tg := range sp.targets {
		tg.lg.closed = true
		tg.lg.verified = tg.lg.rec.count()
	}
}

func (h *svcHarness) closeAnon(lg *ledger, why string) {
	lg.closed = true
	verifyLedger(h.x, lg, nil, map[string]int{})
	if h.x.failed() {
		h.x.mu.Lock()
		h.x.msg = "after " + why + " (which must drain the handler's queue): " + h.x.msg
		h.x.mu.Unlock()
	}
	lg.verified = lg.rec.count()
}

// dropAnon: closing or deleting a topic ends the registration of its anonymous handlers (alert.go
// registers them again when the task starts); their queues are drained first.
func (h *svcHarness) dropAnon(st *srcTopic, why string) {
	for s, lg := range st.anon {
		if lg != nil {
			st.anon[s] = nil
			h.closeAnon(lg, why)
		}
	}
}

// settle waits until every expected delivery to a recording handler has happened (bounded), then
// compares all ledgers.
func (h *svcHarness) settle() {
	ok := waitFor(func() bool {
		for _, lg := range h.ledgers {
			if !lg.closed && !h.caughtUp(lg) {
				return false
			}
		}
		return true
	}, deliveryBound)
	for _, lg := range h.ledgers {
		if lg.gated {
			// blocked recorder: compared at the end of the history; here: its topic has collected the events
			if !lg.closed && !ok && !h.caughtUp(lg) {
				h.failCollected(lg)
				return
			}
			continue
		}
		if lg.closed {
			if n := lg.rec.count(); n != lg.verified {
				h.x.fail(afterSig(lg), "%s was handed %d more events after its handler's registration had ended\nobserved: %s", lg.rec.name, n-lg.verified, fmtObs(lg.rec.snapshot()))
				return
			}
			continue
		}
		verifyLedger(h.x, lg, nil, map[string]int{})
		if h.x.failed() {
			return
		}
	}
	if !ok {
		h.x.fail("delivery/missing", "deliveries outstanding after %v", deliveryBound)
	}
}

func (h *svcHarness) query(op SOp) {
	v := serviceView{h.as}
	for _, name := range kit.SortedKeys(h.model) {
		checkTopic(h.x, v, name, h.model[name], eventIDs)
		if h.x.failed() {
			for _, sp := range h.specs {
				if sp.orphan && sp.publishesTo(name) {
					h.x.resig(sigOrphanAfterUpdate, "the target topic of a handler whose id was taken over by an update of another handler still receives events")
				}
			}
			return
		}
	}
	pat := svcPatterns[op.P%len(svcPatterns)]
	checkTopicStates(h.x, v, h.model, pat, op.M%4, aggSinks)
	if h.x.failed() {
		return
	}
	checkTopicStates(h.x, v, h.model, "", 0, aggSinks)
}

// the state of the aggregate target depends on how the ticker batched the events: not modelled
var aggSinks = map[string]bool{"g0": true}

func (h *svcHarness) aggSum() (sum int, bad string) {
	for _, o := range h.aggRec.snapshot() {
		n, err := strconv.Atoi(o.Msg)
		if err != nil || n < 1 || o.ID != "agg" || o.Topic != h.agg.sink {
			return sum, fmt.Sprintf("aggregate event {topic %s id %s message %q}", o.Topic, o.ID, o.Msg)
		}
		sum += n
	}
	return sum, ""
}

func (h *svcHarness) finish() {
	x := h.x
	// the slow handlers proceed (their ledgers are compared after Close, when their queues have been drained)
	for _, sp := range h.specs {
		for j, tg := range sp.targets {
			if tg.lg.gated && len(tg.lg.exp) > tg.lg.gateIdx+tg.lg.queueLen {
				x.label("target-queue-overflow")
				if j < len(sp.targets)-1 {
					x.label("queue-overflow-on-earlier-target")
				}
			}
		}
	}
	h.releaseGates()
	if h.agg != nil {
		x.at("end of history: waiting for the aggregate handler (interval %v)", aggInterval)
		if !waitFor(func() bool { s, _ := h.aggSum(); return s >= h.aggExpected }, deliveryBound) {
			s, _ := h.aggSum()
			x.fail("aggregate/missing", "aggregate handler (match %q) was handed %d events but after %v its aggregated events account for %d", h.agg.match.render(), h.aggExpected, deliveryBound, s)
			return
		}
		if err := h.as.DeregisterHandlerSpec(h.aggTopic, "agg"); err != nil {
			x.fail("spec/rejected", "DeregisterHandlerSpec(agg): %v", err)
			return
		}
	}
	h.beforeDrain(nil)
	x.at("end of history: deregistering the handler specs")
	for _, name := range srcNames {
		st := h.src[name]
		for _, id := range kit.SortedKeys(st.specs) {
			sp := st.specs[id]
			if sp.kind == "aggregate" {
				continue
			}
			if err := h.as.DeregisterHandlerSpec(name, id); err != nil {
				x.fail("spec/rejected", "DeregisterHandlerSpec(%s, %s) returned %v", name, id, err)
				return
			}
			delete(st.specs, id)
			h.closeSpec(sp, "DeregisterHandlerSpec")
			if x.failed() {
				return
			}
		}
	}
	h.settle()
	if x.failed() {
		return
	}
	// republished exactly once: a target topic has collected as many events as its publish handler was handed
	for _, sp := range h.specs {
		for _, tg := range sp.targets {
			if ts, ok, _ := h.as.TopicState(tg.topic); ok && ts.Collected != int64(len(tg.lg.exp)) {
				sig := "delivery/duplicate"
				if ts.Collected < int64(len(tg.lg.exp)) {
					sig = "delivery/missing"
				}
				x.fail(sig, "target topic %s of publish handler %s has collected %d events, %d events were collected on the source topic while the handler was registered and its match condition held", tg.topic, sp.id, ts.Collected, len(tg.lg.exp))
				return
			}
		}
	}
	x.at("end of history: Close")
	h.beforeDrain(nil)
	h.as.Close()
	for _, lg := range h.ledgers {
		if lg.gated {
			// a handler that was blocked for a while: exactly once and FIFO except for what its full queue refused
			verifyLedger(x, lg, lg.mayMiss(), map[string]int{})
			if x.failed() {
				return
			}
			continue
		}
		if lg.closed {
			if n := lg.rec.count(); n != lg.verified {
				x.fail(afterSig(lg), "%s was handed %d more events after its handler's registration had ended\nobserved: %s", lg.rec.name, n-lg.verified, fmtObs(lg.rec.snapshot()))
				return
			}
			continue
		}
		verifyLedger(x, lg, nil, map[string]int{})
		if x.failed() {
			return
		}
	}
	for _, sp := range h.specs {
		if sp.kind == "log" && sp.closed && sp.logPath != "" {
			seen := sp.logSeen
			h.verifyLog(sp)
			if x.failed() {
				return
			}
			if sp.logSeen != seen {
				sig := "delivery/after-deregistration"
				if sp.orphan {
					sig = sigOrphanAfterUpdate
				}
				x.fail(sig, "log handler %s wrote %d more events after it was deregistered", sp.id, sp.logSeen-seen)
				return
			}
		}
	}
	if h.agg != nil {
		s, bad := h.aggSum()
		if bad != "" {
			x.fail("aggregate/content", "unexpected %s on the aggregate target topic", bad)
			return
		}
		if s != h.aggExpected {
			x.fail("aggregate/conservation", "aggregate handler (match %q) was handed %d events, its aggregated events account for %d", h.agg.match.render(), h.aggExpected, s)
			return
		}
		max := 0
		for _, o := range h.aggRec.snapshot() {
			if o.Level > max {
				max = o.Level
			}
		}
		if max != h.aggMaxLevel {
			x.fail("aggregate/content", "highest level of the aggregated events is %s, of the events handed to the aggregate handler %s", lvl(max), lvl(h.aggMaxLevel))
			return
		}
		h.verifyAggregates()
	}
}

// verifyAggregates compares every aggregated event with the events it summarises. The handler is handed its events
// in FIFO order and reports in its message how many events an aggregated event stands for ({{.Count}}), so the k-th
// aggregated event summarises the next Count events of the sequence handed to the handler - however the ticker cut
// the sequence (called when conservation of counts has been established).
func (h *svcHarness) verifyAggregates() {
	x := h.x
	obs := h.aggRec.snapshot()
	off, prevLevel, highest, lower := 0, 0, 0, false
	for k, o := range obs {
		n, _ := strconv.Atoi(o.Msg)
		if off+n > len(h.aggEvents) {
			x.fail("aggregate/conservation", "aggregated event #%d stands for %d events, only %d of the %d events handed to the handler are not accounted for by earlier ones", k, n, len(h.aggEvents)-off, len(h.aggEvents))
			return
		}
		batch := h.aggEvents[off : off+n]
		off += n
		var level int
		var latest int64
		var dur time.Duration
		describe := func() string {
			var msgs []string
			for _, ev := range batch {
				msgs = append(msgs, fmt.Sprintf("%s[%s:%s dur=%v]", ev.msg, ev.id, lvl(ev.level), ev.dur))
			}
			return strings.Join(msgs, " ")
		}
		for _, ev := range batch {
			if ev.level > level {
				level = ev.level
			}
			if ev.time > latest {
				latest = ev.time
			}
			if ev.dur > dur {
				dur = ev.dur
			}
		}
		if level < highest {
			lower = true
		}
		if level > highest {
			highest = level
		}
		if o.Level != level {
			x.fail("aggregate/level", "aggregated event #%d on topic %s (count %d) has level %s, the highest level among the %d events it summarises is %s: %s\nall aggregated events: %s",
				k, o.Topic, n, lvl(o.Level), n, lvl(level), describe(), fmtObs(obs))
			return
		}
		if o.Time != latest*int64(time.Second) || o.Dur != dur {
			x.fail("aggregate/content", "aggregated event #%d on topic %s (count %d) has time %d and duration %v, the latest time among the %d events it summarises is %d and the longest duration %v: %s",
				k, o.Topic, n, o.Time, o.Dur, n, latest*int64(time.Second), dur, describe())
			return
		}
		// statement: each event's previous level is the level of the preceding event with the same id (all aggregated events carry the id "agg")
		if o.Prev != prevLevel || o.DataPrev != prevLevel {
			x.fail("delivery/previous-level", "aggregated event #%d on topic %s (id %s level %s) carries previous level %s (AlertData: %s), the preceding event with that id had level %s\nall aggregated events: %s",
				k, o.Topic, o.ID, lvl(o.Level), lvl(o.Prev), lvl(o.DataPrev), lvl(prevLevel), fmtObs(obs))
			return
		}
		prevLevel = o.Level
	}
	if len(obs) >= 2 {
		x.label("aggregate-intervals>=2")
	}
	if lower {
		x.label("aggregate-later-interval-lower-level")
	}
}

func runService(c ServiceCase, cc *kit.Case) {
	runBounded(cc, func(x *ctx) {
		dir, err := os.MkdirTemp("", "c09svc")
		if err != nil {
			x.fail("harness/env", "tempdir: %v", err)
			return
		}
		store, err := kit.OpenStore(filepath.Join(dir, "kapacitor.db"))
		if err != nil {
			os.RemoveAll(dir)
			x.fail("harness/env", "bolt: %v", err)
			return
		}
		as := salert.NewService(kit.DiagService.NewAlertServiceHandler(), nil, svcBuffer) // topic-buffer-length: the smallest queue (cheap to allocate)
		as.StorageService = store
		routes := &routeCatcher{}
		as.HTTPDService = routes
		as.PersistTopics = c.Persist
		if err := as.Open(); err != nil {
			store.Close()
			os.RemoveAll(dir)
			x.fail("harness/env", "alert service open: %v", err)
			return
		}
		closed := false
		noSettle := c.NoSettle
		if noSettle && excludeDrainWhilePublishing && !c.Witness {
			noSettle = false
			if svcRec != nil {
				svcRec.Exclude("step-while-publish-handler-has-queued-events")
			}
		}
		if noSettle {
			x.label("no-settle")
		}
		h := &svcHarness{witness: c.Witness, persist: c.Persist, x: x, as: as, routes: routes, dir: dir, model: map[string]*mTopic{}, src: map[string]*srcTopic{}}
		defer func() {
			h.releaseGates()
			if h.updatedAfterRestore {
				switch x.sigNow() {
				case "topic/state-content", "topic/vanished", "topics/listing", "topics/level-view-incomplete", "delivery/previous-level":
					x.resig(sigUpdateLostAfterRestore, "an event state set by UpdateEvent after RestoreTopic is gone after the next Collect on the topic (persist-topics disabled)")
				}
			}
			if !closed {
				// failed case: stop the aggregate goroutine and the topics (not waited for: the service may be stuck)
				go func() {
					waitFor(handlersIdle, deliveryBound)
					if h.agg != nil {
						as.DeregisterHandlerSpec(h.aggTopic, "agg")
					}
					as.Close()
					store.Close()
					os.RemoveAll(dir)
				}()
			}
		}()
		for _, name := range srcNames {
			h.model[name] = newMTopic()
			h.src[name] = &srcTopic{name: name, specs: map[string]*mSpec{}}
		}
		if c.Persist {
			x.label("persist-topics")
		}
		if c.Agg != nil {
			x.label("aggregate-handler")
			x.at("registering the aggregate handler")
			sp := &mSpec{id: "agg", kind: "aggregate", match: c.Agg.Match, sink: "g0"}
			h.aggRec = &recorder{name: "recorder on g0 (target of the aggregate handler)", topic: "g0"}
			as.RegisterAnonHandler("g0", h.aggRec)
			name := srcNames[c.Agg.T%2]
			h.aggTopic = name
			if err := as.RegisterHandlerSpec(h.handlerSpec(name, sp)); err != nil {
				x.fail("spec/rejected", "RegisterHandlerSpec(aggregate) returned %v", err)
				return
			}
			h.agg = sp
			h.src[name].specs["agg"] = sp
		}
		for i, op := range c.Ops {
			x.at("#%d %s", i, fmtSOp(op))
			h.apply(op)
			if x.failed() {
				return
			}
			x.at("after #%d %s", i, fmtSOp(op))
			if noSettle && op.K == "collect" {
				// handlers may still be busy: only the source topics have a determined state now
				for _, name := range srcNames {
					checkTopic(x, serviceView{as}, name, h.model[name], eventIDs)
				}
				if x.failed() {
					return
				}
				continue
			}
			h.settle()
			if x.failed() {
				return
			}
			x.at("queries after #%d %s", i, fmtSOp(op))
			h.query(op)
			if x.failed() {
				return
			}
		}
		if x.labels["unsorted-insertion"] && h.matched && h.rejected {
			x.nonTrivial()
		}
		if h.matched && h.rejected {
			x.label("match-accepts-and-rejects")
		}
		h.finish()
		if !x.failed() {
			closed = true
			store.Close()
			os.RemoveAll(dir)
		}
	})
}

func fmtSOp(op SOp) string {
	name := srcNames[op.T%len(srcNames)]
	switch op.K {
	case "collect":
		return fmt.Sprintf("collect %s %s:%s name=%s task=%s dur=%v noExternal=%v", name, eventIDs[op.I%4], lvl(op.L%4), evNames[op.Nm%2], evTasks[op.Tk%2], evDurs[op.D%len(evDurs)], op.NoExt)
	case "update":
		return fmt.Sprintf("update %s %s:%s", name, eventIDs[op.I%4], lvl(op.L%4))
	case "reg":
		return fmt.Sprintf("register spec %s/%s kind=%d targets=%d match=%q via=%s", name, specIDs[op.H%len(specIDs)], op.Kind, 1+op.Nt%3, op.Match.render(), []string{"service", "POST"}[op.Via%2])
	case "upd":
		return fmt.Sprintf("update spec %s/%s -> %s kind=%d targets=%d match=%q newmatch=%s via=%s variant=%d", name, specIDs[op.H%len(specIDs)], specIDs[op.H2%len(specIDs)], op.Kind, 1+op.Nt%3, op.Match.render(), []string{"generated", "kept", "none"}[op.Km%3],
			[]string{"service", "PUT", "PATCH"}[op.Via%3], op.Pv)
	case "gate":
		return fmt.Sprintf("block the handler of target %d of publish handler %s/%s", op.J, name, specIDs[op.H%len(specIDs)])
	case "burst":
		return fmt.Sprintf("burst %s %d events", name, svcBuffer+op.N)
	case "restart":
		return fmt.Sprintf("restart %s (close, anon=%v, restore)", name, op.H2 == 1)
	case "dereg":
		return fmt.Sprintf("deregister spec %s/%s via=%s", name, specIDs[op.H%len(specIDs)], []string{"service", "DELETE"}[op.Via%2])
	case "anon", "deanon":
		return fmt.Sprintf("%s %s/a%d", op.K, name, op.H%anonSlots)
	}
	return op.K + " " + name
}

var serviceAssumptions = []string{
	"a match condition on a tag (\"host\" == 'db01') is generated only as the whole condition or as a conjunct of it; an event without that tag does not satisfy it",
	"match functions (no user documentation in the repository; names and closures in services/alert/handlers.go): changed() = the event's level differs from the level of the preceding event with the same id on the topic (OK if none), level() = the event's level with OK<INFO<WARNING<CRITICAL, name() = measurement name, taskName() = task name, alertDuration() = the event's duration (the function called duration() in the property text was renamed, CHANGELOG #2448)",
	"handlers are observed through private targets: a publish handler republishes to 1-3 sink topics of its own (option topics), each carrying an anonymous recording handler (RegisterAnonHandler), and every event it is handed must be collected on every one of them; a log handler appends alert.Data JSON to its own file; log is an external handler and skips events flagged NoExternal (externalHandler doc comment)",
	"for the first event with some id on a publish target the previous level may be OK or the previous level it had on the source topic (the statement does not say which)",
	"aggregate (wall-clock ticker, interval 20 ms): conservation of counts, id/topic of the aggregated events and the overall highest level are checked, after a bounded wait; per aggregated event (from services/alert/handlers.go aggregateHandler.run; alert/DESIGN.md only says 'a single alert containing summary information'): the handler is handed its events in FIFO order and its message template reports how many events an aggregated event stands for ({{.Count}}), so the k-th aggregated event summarises the next Count events handed to the handler however the ticker cut the sequence; its level must be the highest level, its time the latest time and its duration the longest duration among exactly those events, and its previous level the level of the preceding aggregated event (same id, statement). 1 collect in 4 on the handler's topic is followed by a bounded wait for the aggregated event (the next event then belongs to a later interval). The aggregate handler has no match expression (the match wrapper hides its Close: it would leak its goroutine and ticker in the test process) and is never updated or removed mid-history (its Close discards what it has buffered)",
	"CloseTopic/RestoreTopic are generated with persist-topics enabled and disabled, RestoreTopic only on a closed or still empty topic (alert.go runAlert); 'restart' is CloseTopic, RegisterAnonHandler (optional), RestoreTopic - what alert.go runAlert does with the topic of a task that is stopped and started again; across close/restore an event whose latest state is OK may be present or absent (Collect deletes an OK state from the store)",
	"persist-topics disabled (services/alert/config.go: 'whether we persist the alert topics to BoltDB or not'): the statement does not say whether a closed topic remembers its event states, so every state from before the close may be present or absent afterwards and the previous level of the next event with that id may be that level or OK; an event for which a match expression of a handler of the topic decides differently under the two readings is not collected (label skipped:match-depends-...). What is asserted in full: the handlers defined by handler specs stay registered across close/restore and are handed every later event",
	"slow handler: the recording handler of one target topic of a publish handler blocks from some step until the end of the history. topic-buffer-length is 1000 (alert.MinimumEventBufferSize, the smallest the service accepts): the first 1000 events republished after it blocked must reach it, later ones may have been refused by its full queue (bufHandler.Handle 'failed to deliver event'; the publish handler does not pass the refusal on) - exactly once and FIFO for the rest, compared after Close has drained the queues; every such event must still be collected on that target topic (state, level) and on all other target topics of the handler",
	"TopicState.Collected (API field 'collected'; alert/topics.go Topic.collect) counts the events collected on a topic since it was created: used to await republication to a target whose recording handler is blocked, and at the end of the history every target topic of a publish handler must have collected exactly as many events as the handler was handed",
	"burst (1001-1040 events on one source topic): only events that every handler of the source topic is handed (match expressions true, not NoExternal for log) are collected, and every 250 events the harness waits until all of them have been handled (recorders, log lines, aggregate sum): otherwise a handler queue of the source topic itself could overflow and Collect on the source topic would rightly report an error",
	"known finding service/update-event-lost-after-restore-topic avoided by construction (counted): no UpdateEvent between the RestoreTopic of a closed topic and the next Collect on it while persist-topics is disabled",
	"handler specs over HTTP (client/API.md 'Create a Handler', 'Update a Handler', 'Remove a Handler'): the routes the service registers with its HTTPDService are requested by method and path (no socket); POST/PUT carry the handler document (id, kind, options, match - 'match' left out or \"\" for no condition, as in the examples), 'PUT will replace the entire handler', 'PATCH will apply JSON patch object to the existing handler' (RFC 6902): the generated patch names only what differs between the old and the new handler (replace /id, /kind; replace /options or /options/<member>, or remove + add of the member when the kind changes; for the match condition remove or replace-by-\"\" to drop it, add or replace to set it, nothing when it stays) and uses only paths present in the listed handler document; a 2xx answer means the handler is now the requested one, any other status is treated as the error of the corresponding service function; the oracle is unchanged (deliveries follow the handler the request describes)",
	"UpdateEvent only on topics the API reports as existing and that are not closed; UpdateHandlerSpec only for an existing handler (API precondition); updating a handler onto the id of another handler of the topic may be refused (no change) or replace both",
	"closing or deleting a topic ends the registration of its anonymous handlers (alert.go registers them again at task start); handler specs stay registered on the topic",
}

func TestService(t *testing.T) {
	r := kit.NewRec("C09", "Service", serviceRule, serviceAssumptions...)
	svcRec = r
	kit.Check(t, r, genService, runService)
	t.Logf("goroutines at the end of the unit: %d", runtime.NumGoroutine())
}

func TestReplayService(t *testing.T) {
	r := kit.NewRec("C09", "Service", serviceRule, serviceAssumptions...)
	kit.Replay(t, r, runService)
}
