// Unit "Topics": generated operation histories over alert.Topics compared with a map model.
package c09

import (
	"fmt"
	"runtime"
	"testing"
	"time"

	"verifharness/kit"

	"github.com/influxdata/kapacitor/alert"
	"pgregory.net/rapid"
)

// TOp is one step of a history over alert.Topics. Selectors (H, H2) are interpreted relative
// to the state reached so far, so that a history stays meaningful when steps are shrunk away.
type TOp struct {
	K  string `json:"k"`            // collect update reg dereg replace delete restore gate ungate burst
	T  int    `json:"t"`            // topic index
	I  int    `json:"i,omitempty"`  // event id index
	L  int    `json:"l,omitempty"`  // level
	H  int    `json:"h,omitempty"`  // handler slot selector
	H2 int    `json:"h2,omitempty"` // second handler slot selector (replace)
	N  int    `json:"n,omitempty"`  // burst: events beyond the queue length
	R  []int  `json:"r,omitempty"`  // restore: level per event id, -1 = absent
	P  int    `json:"p"`            // pattern index of the TopicState query after the step
	M  int    `json:"m"`            // minimum level of that query
}

type TopicsCase struct {
	Ops []TOp `json:"ops"`
}

var (
	topicNames    = []string{"ta", "tb", "u"}
	topicPatterns = []string{"", "*", "t*", "ta", "?b", "t[ab]", "[!t]*", "u", "x*", "t?", "*a"}
)

const (
	slotsPerTopic = 3
	topicsBuffer  = alert.MinimumEventBufferSize // the smallest queue NewTopics accepts
)

const topicsRule = "rapid: histories of collect/update/register/deregister/replace/delete/restore/gate/burst over 3 topics x 4 event ids x 4 levels with queries after every step; " +
	"non-trivial = some topic held >=2 event ids with different levels whose insertion order was not already (level desc, id asc) sorted; distinct by case hash"

func genTOp(t *rapid.T) TOp {
	op := TOp{T: rapid.SampledFrom([]int{0, 0, 0, 0, 0, 1, 1, 2}).Draw(t, "topic")}
	k := rapid.IntRange(0, 99).Draw(t, "kind")
	switch {
	case k < 50:
		op.K = "collect"
		op.I = rapid.IntRange(0, 3).Draw(t, "id")
		op.L = rapid.IntRange(0, 3).Draw(t, "level")
	case k < 57:
		op.K = "update"
		op.I = rapid.IntRange(0, 3).Draw(t, "id")
		op.L = rapid.IntRange(0, 3).Draw(t, "level")
	case k < 70:
		op.K = "reg"
		op.H = rapid.IntRange(0, slotsPerTopic-1).Draw(t, "h")
	case k < 77:
		op.K = "dereg"
		op.H = rapid.IntRange(0, slotsPerTopic-1).Draw(t, "h")
		op.H2 = rapid.IntRange(0, 4).Draw(t, "unregistered") // 4: deregister a handler that is not registered
	case k < 82:
		op.K = "replace"
		op.H = rapid.IntRange(0, slotsPerTopic-1).Draw(t, "h")
		op.H2 = rapid.IntRange(0, slotsPerTopic-1).Draw(t, "h2")
	case k < 86:
		op.K = "delete"
	case k < 91:
		op.K = "restore"
		op.R = make([]int, len(eventIDs))
		for j := range op.R {
			op.R[j] = rapid.IntRange(-1, 3).Draw(t, "rlevel")
		}
	case k < 97:
		op.K = "gate"
		op.H = rapid.IntRange(0, slotsPerTopic-1).Draw(t, "h")
	default:
		op.K = "ungate"
		op.H = rapid.IntRange(0, slotsPerTopic-1).Draw(t, "h")
	}
	op.P = rapid.IntRange(0, len(topicPatterns)-1).Draw(t, "pattern")
	op.M = rapid.IntRange(0, 3).Draw(t, "min")
	return op
}

// genTopics draws the history as a slice of operations (rapid can then shrink by deleting steps).
func genTopics(t *rapid.T) TopicsCase {
	var c TopicsCase
	// rapid prefers short slices: a drawn minimum length keeps long histories frequent, and shrinks away first
	min := rapid.IntRange(1, 30).Draw(t, "minOps")
	c.Ops = rapid.SliceOfN(rapid.Custom(genTOp), min, 40).Draw(t, "ops")
	if rapid.IntRange(0, 24).Draw(t, "burst") == 24 { // the largest value: shrinking moves away from bursts
		// a slow handler and more events than its queue holds, somewhere in the history
		tp := rapid.IntRange(0, 1).Draw(t, "burstTopic")
		at := rapid.IntRange(0, len(c.Ops)).Draw(t, "burstAt")
		triple := []TOp{{K: "reg", T: tp, H: rapid.IntRange(0, slotsPerTopic-1).Draw(t, "h")}, {K: "gate", T: tp},
			{K: "burst", T: tp, I: rapid.IntRange(0, 3).Draw(t, "id"), L: rapid.IntRange(0, 3).Draw(t, "level"), N: rapid.IntRange(1, 40).Draw(t, "extra")}}
		ops := append([]TOp(nil), c.Ops[:at]...)
		ops = append(ops, triple...)
		c.Ops = append(ops, c.Ops[at:]...)
	}
	return c
}

// topicsView adapts alert.Topics to the query oracle.
type topicsView struct{ tp *alert.Topics }

func (v topicsView) exists(topic string) bool { _, ok := v.tp.Topic(topic); return ok }
func (v topicsView) maxLevel(topic string) (int, bool) {
	t, ok := v.tp.Topic(topic)
	if !ok {
		return 0, false
	}
	l := t.MaxLevel()
	if s := t.State(); s.Level != l {
		return -1, true
	}
	return int(l), true
}
func (v topicsView) eventStates(topic string, min int) (map[string]alert.EventState, bool) {
	t, ok := v.tp.Topic(topic)
	if !ok {
		return nil, false
	}
	return t.EventStates(alert.Level(min)), true
}
func (v topicsView) eventState(topic, id string) (alert.EventState, bool) {
	return v.tp.EventState(topic, id)
}
func (v topicsView) topicStates(pattern string, min int) map[string]alert.TopicState {
	return v.tp.TopicState(pattern, alert.Level(min))
}

type topicsHarness struct {
	x       *ctx
	tp      *alert.Topics
	model   map[string]*mTopic
	regs    map[string]*[slotsPerTopic]*ledger // open registrations
	all     []*ledger
	serial  int64
	drops   map[string]int
	missing map[string]int
	recSeq  int
	closed  bool
}

func (h *topicsHarness) newLedger(topic string, slot int) *ledger {
	h.recSeq++
	lg := &ledger{rec: &recorder{name: fmt.Sprintf("%s/h%d#%d", topic, slot, h.recSeq), topic: topic}}
	h.all = append(h.all, lg)
	return lg
}

func (h *topicsHarness) nregs(topic string) int {
	n := 0
	for _, lg := range h.regs[topic] {
		if lg != nil {
			n++
		}
	}
	return n
}

// pick selects the (sel mod n)-th registered slot of the topic, -1 if none is registered.
func (h *topicsHarness) pick(topic string, sel int) int {
	var used []int
	for s, lg := range h.regs[topic] {
		if lg != nil {
			used = append(used, s)
		}
	}
	if len(used) == 0 {
		return -1
	}
	return used[sel%len(used)]
}

// closeLedger ends a registration whose queue has just been drained by the code under test
// (DeregisterHandler / ReplaceHandler / DeleteTopic return only after the handler's goroutine has
// handled everything queued): everything expected must be there now, without waiting.
func (h *topicsHarness) closeLedger(lg *ledger, why string) {
	lg.closed = true
	verifyLedger(h.x, lg, h.drops, h.missing)
	if h.x.failed() {
		h.x.mu.Lock()
		h.x.msg = "after " + why + " (which must drain the handler's queue): " + h.x.msg
		h.x.mu.Unlock()
	}
	lg.verified = lg.rec.count()
}

func (h *topicsHarness) collect(name string, idIdx, level int) {
	n := h.serial
	h.serial++
	id := eventIDs[idIdx]
	msg := fmt.Sprintf("m%d", n)
	mt := h.model[name]
	prev := mt.prevLevel(id)
	mt.set(id, mState{Level: level, Time: baseTime + n, Msg: msg})
	if mt.unsortedInsertion() {
		h.x.nonTrivial()
		h.x.label("unsorted-insertion")
	}
	err := h.tp.Collect(alert.Event{Topic: name, State: alert.EventState{ID: id, Message: msg, Time: time.Unix(baseTime+n, 0).UTC(), Level: alert.Level(level)}})
	k := countDrops(err)
	if k < 0 {
		h.x.fail("collect/error", "Collect of event %s on topic %s returned %v", msg, name, err)
		return
	}
	if k > h.nregs(name) {
		h.x.fail("delivery/drop-accounting", "Collect of event %s on topic %s reported %d failed deliveries but only %d handlers are registered", msg, name, k, h.nregs(name))
		return
	}
	if k > 0 {
		h.drops[msg] = k
		h.x.label("accounted-drop")
	}
	for _, lg := range h.regs[name] {
		if lg != nil {
			lg.exp = append(lg.exp, expEntry{Msg: msg, ID: id, Level: level, Prev: prev, PrevAlt: -1, Time: baseTime + n})
		}
	}
}

func (h *topicsHarness) apply(op TOp) {
	x := h.x
	name := topicNames[op.T%len(topicNames)]
	mt := h.model[name]
	regs := h.regs[name]
	x.label("op:" + op.K)
	switch op.K {
	case "collect":
		if prev, ok := mt.states[eventIDs[op.I%4]]; ok && prev.Level > op.L {
			x.label("level-lowered")
		}
		h.collect(name, op.I%4, op.L%4)
	case "burst":
		total := topicsBuffer + op.N
		for i := 0; i < total && !x.failed(); i++ {
			h.collect(name, (op.I+i)%4, (op.L+i/3)%4)
		}
	case "update":
		// callers' precondition (alert.go restoreEvent): the topic is known to the API
		if _, ok := h.tp.Topic(name); !ok {
			x.label("update-skipped-unknown-topic")
			return
		}
		n := h.serial
		h.serial++
		id := eventIDs[op.I%4]
		msg := fmt.Sprintf("u%d", n)
		mt.set(id, mState{Level: op.L % 4, Time: baseTime + n, Msg: msg})
		if mt.unsortedInsertion() {
			x.nonTrivial()
			x.label("unsorted-insertion")
		}
		h.tp.UpdateEvent(name, alert.EventState{ID: id, Message: msg, Time: time.Unix(baseTime+n, 0).UTC(), Level: alert.Level(op.L % 4)})
	case "reg":
		s := op.H % slotsPerTopic
		if regs[s] != nil {
			x.label("register-twice")
			h.tp.RegisterHandler(name, regs[s].rec) // idempotent: still handed every event exactly once
			return
		}
		lg := h.newLedger(name, s)
		regs[s] = lg
		h.tp.RegisterHandler(name, lg.rec)
	case "dereg":
		s := h.pick(name, op.H)
		var lg *ledger
		if s >= 0 && op.H2 != 4 {
			lg = regs[s]
		}
		if lg == nil {
			x.label("deregister-unregistered")
			h.tp.DeregisterHandler(name, &recorder{name: "never-registered", topic: name})
			return
		}
		if lg.rec.gated() {
			x.label("drain-slow-handler")
			go lg.rec.release()
		}
		if lg.rec.count() < len(lg.exp) {
			x.label("drain-pending")
		}
		h.tp.DeregisterHandler(name, lg.rec)
		regs[s] = nil
		h.closeLedger(lg, "DeregisterHandler")
	case "replace":
		// callers (UpdateHandlerSpec): the old handler is registered, the new one is fresh
		var used, free []int
		for s, lg := range regs {
			if lg != nil {
				used = append(used, s)
			} else {
				free = append(free, s)
			}
		}
		if len(used) == 0 || len(free) == 0 {
			x.label("replace-skipped")
			return
		}
		so, sn := used[op.H%len(used)], free[op.H2%len(free)]
		old := regs[so]
		nw := h.newLedger(name, sn)
		if old.rec.gated() {
			x.label("drain-slow-handler")
			go old.rec.release()
		}
		h.tp.ReplaceHandler(name, old.rec, nw.rec)
		regs[so] = nil
		regs[sn] = nw
		h.closeLedger(old, "ReplaceHandler")
	case "delete":
		pending := false
		for _, lg := range regs {
			if lg != nil {
				if lg.rec.gated() {
					x.label("drain-slow-handler")
					go lg.rec.release()
				}
				if lg.rec.count() < len(lg.exp) {
					pending = true
				}
			}
		}
		if pending {
			x.label("drain-pending")
		}
		h.tp.DeleteTopic(name)
		mt.clear()
		for s, lg := range regs {
			if lg != nil {
				regs[s] = nil
				h.closeLedger(lg, "DeleteTopic")
			}
		}
	case "restore":
		n := h.serial
		h.serial++
		m := map[string]*alert.EventState{}
		mt.clear()
		for j, id := range eventIDs {
			if j < len(op.R) && op.R[j] >= 0 {
				msg := fmt.Sprintf("r%d.%s", n, id)
				m[id] = &alert.EventState{ID: id, Message: msg, Time: time.Unix(baseTime+n, 0).UTC(), Level: alert.Level(op.R[j] % 4)}
				mt.set(id, mState{Level: op.R[j] % 4, Time: baseTime + n, Msg: msg})
			}
		}
		if mt.unsortedInsertion() {
			x.label("unsorted-restore")
		}
		h.tp.RestoreTopicNoCopy(name, m)
	case "gate":
		if s := h.pick(name, op.H); s >= 0 {
			regs[s].rec.setGate()
		}
	case "ungate":
		if s := h.pick(name, op.H); s >= 0 {
			regs[s].rec.release()
		}
	}
}

func (h *topicsHarness) query(op TOp) {
	v := topicsView{h.tp}
	for _, name := range topicNames {
		checkTopic(h.x, v, name, h.model[name], eventIDs)
		if h.x.failed() {
			return
		}
		if len(h.model[name].states) >= 3 {
			h.x.label("topic-with>=3-events")
		}
	}
	pat := topicPatterns[op.P%len(topicPatterns)]
	checkTopicStates(h.x, v, h.model, pat, op.M%4, nil)
	if h.x.failed() {
		return
	}
	checkTopicStates(h.x, v, h.model, "", 0, nil)
	matched := 0
	for _, name := range topicNames {
		if globMatch(pat, name) {
			matched++
		}
	}
	if matched > 0 && matched < len(topicNames) {
		h.x.label("pattern-selects-some-topics")
	}
}

func (h *topicsHarness) releaseAll() {
	for _, lg := range h.all {
		lg.rec.release()
	}
}

// finish: every expected delivery arrives without any further action (bounded wait), then
// Close drains and the ledgers are compared exactly.
func (h *topicsHarness) finish() {
	x := h.x
	x.at("end of history: waiting for the outstanding deliveries")
	h.releaseAll()
	ok := waitFor(func() bool {
		for _, regs := range h.regs {
			for _, lg := range regs {
				if lg == nil {
					continue
				}
				need := 0
				for _, e := range lg.exp {
					if h.drops[e.Msg] == 0 {
						need++
					}
				}
				if lg.rec.count() < need {
					return false
				}
			}
		}
		return true
	}, deliveryBound)
	if !ok {
		for _, name := range topicNames {
			for _, lg := range h.regs[name] {
				if lg != nil {
					verifyLedger(x, lg, h.drops, map[string]int{})
				}
			}
		}
		x.fail("delivery/missing", "deliveries outstanding after %v", deliveryBound)
		return
	}
	x.at("end of history: Close")
	h.closed = true
	h.tp.Close()
	for _, lg := range h.all {
		if lg.closed {
			if n := lg.rec.count(); n != lg.verified {
				x.fail("delivery/after-deregistration", "handler %s (topic %s) was handed %d more events after its registration had ended\nobserved: %s", lg.rec.name, lg.rec.topic, n-lg.verified, fmtObs(lg.rec.snapshot()))
				return
			}
			continue
		}
		verifyLedger(x, lg, h.drops, h.missing)
		if x.failed() {
			return
		}
	}
	for msg, k := range h.drops {
		if h.missing[msg] != k {
			x.fail("delivery/drop-accounting", "Collect of event %s reported %d failed deliveries, but %d registered handlers did not receive it", msg, k, h.missing[msg])
			return
		}
	}
}

func runTopics(c TopicsCase, cc *kit.Case) {
	runBounded(cc, func(x *ctx) {
		h := &topicsHarness{x: x, tp: alert.NewTopics(topicsBuffer), model: map[string]*mTopic{}, regs: map[string]*[slotsPerTopic]*ledger{},
			drops: map[string]int{}, missing: map[string]int{}}
		h.tp.Open()
		for _, name := range topicNames {
			h.model[name] = newMTopic()
			h.regs[name] = new([slotsPerTopic]*ledger)
		}
		defer func() {
			h.releaseAll()
			if !h.closed {
				h.tp.Close()
			}
		}()
		for i, op := range c.Ops {
			x.at("#%d %s", i, fmtTOp(op))
			h.apply(op)
			if x.failed() {
				return
			}
			x.at("queries after #%d %s", i, fmtTOp(op))
			h.query(op)
			if x.failed() {
				return
			}
		}
		h.finish()
	})
}

func fmtTOp(op TOp) string {
	name := topicNames[op.T%len(topicNames)]
	switch op.K {
	case "collect", "update":
		return fmt.Sprintf("%s %s %s:%s", op.K, name, eventIDs[op.I%4], lvl(op.L%4))
	case "restore":
		return fmt.Sprintf("restore %s %v", name, op.R)
	case "burst":
		return fmt.Sprintf("burst %s %d events", name, topicsBuffer+op.N)
	case "replace":
		return fmt.Sprintf("replace %s h%d->h%d", name, op.H, op.H2)
	case "delete":
		return "delete " + name
	}
	return fmt.Sprintf("%s %s h%d", op.K, name, op.H%slotsPerTopic)
}

var topicsAssumptions = []string{
	"an event without a preceding event of the same id on the topic has previous level OK (zero EventState; alert.Event.PreviousState)",
	"UpdateEvent only on topics the API reports as existing (callers' precondition: alert.go restoreEvent updates a topic on which it found the event, or one it has just created)",
	"UpdateEvent sets the current state of the event without handing it to handlers (services/alert/types.go: 'updates an existing event with a previously known state')",
	"ReplaceHandler only with a registered old and a fresh new handler (its only caller, UpdateHandlerSpec); RestoreTopicNoCopy with key == state id (its callers) replaces the topic's event states",
	"a topic without any event state may or may not be listed by TopicState (the statement does not say whether an empty topic exists)",
	"glob patterns follow Go path.Match (client/API.md), the empty pattern selects all topics; path.Match is trusted",
	"a Collect that returns 'failed to deliver event' errors (handler queue full, bufHandler.Handle) is an accounted drop: exactly that many registered handlers miss the event",
	"DeregisterHandler/ReplaceHandler/DeleteTopic/Close return after the handler's queue is drained (bufHandler.Close): the ledger is compared without waiting at these points; elsewhere delivery is awaited by polling with a 20 s bound",
}

func TestTopics(t *testing.T) {
	r := kit.NewRec("C09", "Topics", topicsRule, topicsAssumptions...)
	kit.Check(t, r, genTopics, runTopics)
	t.Logf("goroutines at the end of the unit: %d", runtime.NumGoroutine())
}

func TestReplayTopics(t *testing.T) {
	r := kit.NewRec("C09", "Topics", topicsRule, topicsAssumptions...)
	kit.Replay(t, r, runTopics)
}
