// C09 — topic state and handler delivery are consistent with the event history.
//
// Shared pieces of the three units (Topics, Service, Concurrent): the recording handler,
// the per-case context with its watchdog, the map model of a topic and the query oracle.
package c09

import (
	"fmt"
	"path"
	"regexp"
	"runtime"
	"runtime/debug"
	"sort"
	"strings"
	"sync"
	"sync/atomic"
	"time"

	"verifharness/kit"

	"github.com/influxdata/kapacitor/alert"
)

const (
	// deliveryBound: handlers run on their own goroutine; a delivery normally takes microseconds.
	// Waiting longer than this for an expected delivery is reported as a hang/missing delivery.
	deliveryBound = 20 * time.Second
	// caseBound: a whole case normally takes milliseconds.
	caseBound = 30 * time.Second

	baseTime = int64(1_700_000_000) // seconds; event number n has time baseTime+n
)

var (
	levelNames = []string{"OK", "INFO", "WARNING", "CRITICAL"}
	eventIDs   = []string{"0", "a", "b", "c"} // "0" sorts before the letters
)

func lvl(l int) string {
	if l >= 0 && l < len(levelNames) {
		return levelNames[l]
	}
	return fmt.Sprintf("L%d", l)
}

// ---------------------------------------------------------------- per-case context

// ctx collects what the body of one case establishes. The body runs on its own goroutine
// under a watchdog, so it never touches the kit.Case directly.
type ctx struct {
	mu     sync.Mutex
	labels map[string]bool
	nt     bool
	sig    string
	msg    string
	step   atomic.Value // string: the step in progress (for the hang report)
}

func (x *ctx) label(l string) {
	x.mu.Lock()
	x.labels[l] = true
	x.mu.Unlock()
}
func (x *ctx) nonTrivial() { x.mu.Lock(); x.nt = true; x.mu.Unlock() }
func (x *ctx) failed() bool {
	x.mu.Lock()
	defer x.mu.Unlock()
	return x.sig != ""
}
func (x *ctx) sigNow() string {
	x.mu.Lock()
	defer x.mu.Unlock()
	return x.sig
}
func (x *ctx) fail(sig, format string, args ...any) {
	x.mu.Lock()
	defer x.mu.Unlock()
	if x.sig != "" {
		return
	}
	x.sig = sig
	st, _ := x.step.Load().(string)
	x.msg = fmt.Sprintf(format, args...) + "\n  at step " + st
}

// resig replaces the signature of the recorded failure by a more specific defect class.
func (x *ctx) resig(sig, why string) {
	x.mu.Lock()
	defer x.mu.Unlock()
	if x.sig != "" && x.sig != sig {
		x.msg = why + " [" + x.sig + "]: " + x.msg
		x.sig = sig
	}
}
func (x *ctx) at(format string, args ...any) { x.step.Store(fmt.Sprintf(format, args...)) }

var kapFrame = regexp.MustCompile(`(?m)^(github\.com/influxdata/kapacitor[^\s(]*(?:\([^)]*\))?[^\s(]*)\(`)

// runBounded runs body under the case watchdog and transfers its outcome to cc.
// A panic on the body's goroutine (kapacitor code called synchronously) becomes a failure
// whose signature carries the top kapacitor frame, so that rapid can shrink it.
func runBounded(cc *kit.Case, body func(x *ctx)) {
	x := &ctx{labels: map[string]bool{}}
	x.step.Store("setup")
	done := make(chan struct{})
	go func() {
		defer close(done)
		defer func() {
			if r := recover(); r != nil {
				st := string(debug.Stack())
				frame := "?"
				if m := kapFrame.FindStringSubmatch(st); m != nil {
					frame = m[1]
				}
				x.fail("panic/"+frame, "panic: %v\n%s", r, st)
			}
		}()
		body(x)
	}()
	select {
	case <-done:
	case <-time.After(caseBound):
		buf := make([]byte, 1<<20)
		buf = buf[:runtime.Stack(buf, true)]
		var blocked []string
		for _, g := range strings.Split(string(buf), "\n\n") {
			if strings.Contains(g, "github.com/influxdata/kapacitor/") || strings.Contains(g, "bbolt") || strings.Contains(g, "verifharness/c09.") {
				blocked = append(blocked, g)
			}
		}
		sig := "hang/case"
		all := strings.Join(blocked, "\n\n")
		// the handler goroutine that is being drained needs the service lock its drainer holds
		if strings.Contains(all, "alert.(*bufHandler).Close") && strings.Contains(all, "alert.(*publishHandler).Handle") && strings.Contains(all, "alert.(*Service).Collect") && strings.Contains(all, "RWMutex.RLock") {
			sig = sigDrainDeadlock
		}
		x.fail(sig, "the case did not finish within %v; goroutines in kapacitor, bolt and the harness:\n%s", caseBound, all)
	}
	x.mu.Lock()
	defer x.mu.Unlock()
	ls := make([]string, 0, len(x.labels))
	for l := range x.labels {
		ls = append(ls, l)
	}
	sort.Strings(ls)
	for _, l := range ls {
		cc.Label(l)
	}
	if x.nt {
		cc.NonTrivial()
	}
	if x.sig != "" {
		cc.Fail(x.sig, "%s", x.msg)
	}
}

// waitFor polls cond with a generous bound; it returns false when the bound expired.
func waitFor(cond func() bool, bound time.Duration) bool {
	for i := 0; i < 300; i++ {
		if cond() {
			return true
		}
		runtime.Gosched()
	}
	deadline := time.Now().Add(bound)
	d := 20 * time.Microsecond
	for {
		if cond() {
			return true
		}
		if time.Now().After(deadline) {
			return cond()
		}
		time.Sleep(d)
		if d < 2*time.Millisecond {
			d *= 2
		}
	}
}

// ---------------------------------------------------------------- recording handler

// got is what a recording handler saw of one event.
type got struct {
	Topic    string
	ID       string
	Msg      string
	Level    int
	Prev     int // PreviousState().Level
	DataPrev int // AlertData().PreviousLevel
	Time     int64
	Dur      time.Duration
	Details  string
}

// recorder is an alert.Handler that records every event handed to it. With a gate set it
// blocks inside Handle until the gate is released (a slow handler).
type recorder struct {
	name  string // for messages
	topic string // the topic it is (was) registered on
	mu    sync.Mutex
	obs   []got
	gate  chan struct{}
}

func (r *recorder) Handle(e alert.Event) {
	r.mu.Lock()
	g := r.gate
	r.mu.Unlock()
	if g != nil {
		<-g
	}
	ad := e.AlertData()
	o := got{Topic: e.Topic, ID: e.State.ID, Msg: e.State.Message, Level: int(e.State.Level), Prev: int(e.PreviousState().Level),
		DataPrev: int(ad.PreviousLevel), Time: e.State.Time.UTC().UnixNano(), Dur: e.State.Duration, Details: e.State.Details}
	r.mu.Lock()
	r.obs = append(r.obs, o)
	r.mu.Unlock()
}

func (r *recorder) count() int {
	r.mu.Lock()
	defer r.mu.Unlock()
	return len(r.obs)
}

func (r *recorder) snapshot() []got {
	r.mu.Lock()
	defer r.mu.Unlock()
	return append([]got(nil), r.obs...)
}

func (r *recorder) setGate() {
	r.mu.Lock()
	if r.gate == nil {
		r.gate = make(chan struct{})
	}
	r.mu.Unlock()
}

func (r *recorder) gated() bool {
	r.mu.Lock()
	defer r.mu.Unlock()
	return r.gate != nil
}

func (r *recorder) release() {
	r.mu.Lock()
	g := r.gate
	r.gate = nil
	r.mu.Unlock()
	if g != nil {
		close(g)
	}
}

// expEntry is one delivery the model expects of a recorder.
type expEntry struct {
	Msg     string // unique per collected event (and hop)
	ID      string
	Level   int
	Prev    int
	PrevAlt int // second admissible previous level, -1 = none
	Time    int64
}

// ledger is the expected side of one registration of one recorder.
type ledger struct {
	rec      *recorder
	exp      []expEntry
	afterSig string // signature to use for a delivery after the registration ended, "" = delivery/after-deregistration
	missSig  string // signature to use for a missing delivery (a more specific defect class), "" = delivery/missing
	closed   bool   // the registration ended (deregistered / topic deleted): nothing more may arrive
	verified int    // number of observations at the time the closed ledger was verified
	// slow handler (Service unit): the recorder was blocked when gateIdx entries were expected and handled, and
	// stays blocked until the end of the history. Its queue holds queueLen events: the entries from
	// gateIdx+queueLen on may be missing. The ledger is compared once, after the service was closed.
	gated    bool
	gateIdx  int
	queueLen int
}

// mayMiss lists the expected entries of a blocked handler that its full queue may have refused.
func (lg *ledger) mayMiss() map[string]int {
	m := map[string]int{}
	if lg.gated {
		for i := lg.gateIdx + lg.queueLen; i < len(lg.exp); i++ {
			m[lg.exp[i].Msg] = 1
		}
	}
	return m
}

// verifyLedger compares the observations with the expectation: exactly once, FIFO, right topic,
// right content and previous level. drops[msg] > 0 marks events whose Collect reported that many
// "failed to deliver" errors: such an event may be missing; missing[msg] counts how often it was.
func verifyLedger(x *ctx, lg *ledger, drops map[string]int, missing map[string]int) {
	obs := lg.rec.snapshot()
	pos := make(map[string]int, len(lg.exp))
	for i, e := range lg.exp {
		pos[e.Msg] = i
	}
	seen := make(map[string]bool, len(obs))
	next := 0
	miss := func(e expEntry, laterSeen bool) bool {
		if drops[e.Msg] > 0 {
			missing[e.Msg]++
			return true
		}
		if laterSeen {
			x.fail("delivery/order", "handler %s (topic %s): event %s (id %s) was delivered out of FIFO order\nexpected: %s\nobserved: %s",
				lg.rec.name, lg.rec.topic, e.Msg, e.ID, fmtExp(lg.exp), fmtObs(obs))
		} else {
			sig := "delivery/missing"
			if lg.missSig != "" {
				sig = lg.missSig
			}
			x.fail(sig, "handler %s (topic %s): event %s (id %s level %s) was never delivered although the handler was registered when it was collected\nexpected: %s\nobserved: %s",
				lg.rec.name, lg.rec.topic, e.Msg, e.ID, lvl(e.Level), fmtExp(lg.exp), fmtObs(obs))
		}
		return false
	}
	obsSet := make(map[string]bool, len(obs))
	for _, o := range obs {
		obsSet[o.Msg] = true
	}
	for _, o := range obs {
		if o.Topic != lg.rec.topic {
			x.fail("delivery/foreign-topic", "handler %s is registered on topic %s but was handed event %s of topic %s", lg.rec.name, lg.rec.topic, o.Msg, o.Topic)
			return
		}
		idx, ok := pos[o.Msg]
		if !ok {
			x.fail("delivery/unexpected", "handler %s (topic %s) was handed event %s (id %s level %s) which it should not receive (not registered, or match condition false, when it was collected)\nexpected: %s\nobserved: %s",
				lg.rec.name, lg.rec.topic, o.Msg, o.ID, lvl(o.Level), fmtExp(lg.exp), fmtObs(obs))
			return
		}
		if seen[o.Msg] {
			x.fail("delivery/duplicate", "handler %s (topic %s) was handed event %s more than once\nexpected: %s\nobserved: %s", lg.rec.name, lg.rec.topic, o.Msg, fmtExp(lg.exp), fmtObs(obs))
			return
		}
		seen[o.Msg] = true
		if idx < next {
			x.fail("delivery/order", "handler %s (topic %s): event %s was delivered out of FIFO order\nexpected: %s\nobserved: %s", lg.rec.name, lg.rec.topic, o.Msg, fmtExp(lg.exp), fmtObs(obs))
			return
		}
		for ; next < idx; next++ {
			if !miss(lg.exp[next], obsSet[lg.exp[next].Msg]) {
				return
			}
		}
		e := lg.exp[idx]
		next = idx + 1
		if o.ID != e.ID || o.Level != e.Level || o.Time != e.Time*int64(time.Second) {
			x.fail("delivery/content", "handler %s (topic %s): event %s arrived as id=%s level=%s time=%d, collected as id=%s level=%s time=%d",
				lg.rec.name, lg.rec.topic, o.Msg, o.ID, lvl(o.Level), o.Time, e.ID, lvl(e.Level), e.Time*int64(time.Second))
			return
		}
		if (o.Prev != e.Prev && o.Prev != e.PrevAlt) || o.DataPrev != o.Prev {
			alt := ""
			if e.PrevAlt >= 0 {
				alt = " (or " + lvl(e.PrevAlt) + ")"
			}
			x.fail("delivery/previous-level", "handler %s (topic %s): event %s (id %s level %s) carries previous level %s (AlertData: %s), the preceding event with that id had level %s%s\nexpected: %s\nobserved: %s",
				lg.rec.name, lg.rec.topic, o.Msg, o.ID, lvl(o.Level), lvl(o.Prev), lvl(o.DataPrev), lvl(e.Prev), alt, fmtExp(lg.exp), fmtObs(obs))
			return
		}
	}
	for ; next < len(lg.exp); next++ {
		if !miss(lg.exp[next], false) {
			return
		}
	}
}

func fmtExp(exp []expEntry) string {
	var b strings.Builder
	n := len(exp)
	for i, e := range exp {
		if n > 60 && i >= 25 && i < n-25 {
			if i == 25 {
				fmt.Fprintf(&b, " ...(%d more)...", n-50)
			}
			continue
		}
		fmt.Fprintf(&b, " %s[%s:%s<-%s]", e.Msg, e.ID, lvl(e.Level), lvl(e.Prev))
	}
	return b.String()
}

func fmtObs(obs []got) string {
	var b strings.Builder
	n := len(obs)
	for i, o := range obs {
		if n > 60 && i >= 25 && i < n-25 {
			if i == 25 {
				fmt.Fprintf(&b, " ...(%d more)...", n-50)
			}
			continue
		}
		fmt.Fprintf(&b, " %s[%s:%s<-%s]", o.Msg, o.ID, lvl(o.Level), lvl(o.Prev))
	}
	return b.String()
}

// countDrops classifies the error of a Collect: the number of "failed to deliver" errors it
// stands for (bufHandler.Handle: the handler's queue was full), or -1 for any other error.
func countDrops(err error) int {
	if err == nil {
		return 0
	}
	s := err.Error()
	k := strings.Count(s, "failed to deliver event")
	if k == 0 {
		return -1
	}
	rest := strings.TrimPrefix(s, "multiple errors:")
	for _, line := range strings.Split(rest, "\n") {
		if line != "" && !strings.HasPrefix(line, "failed to deliver event") {
			return -1
		}
	}
	return k
}

// ---------------------------------------------------------------- topic model and query oracle

type mState struct {
	Level    int
	Time     int64 // seconds
	Msg      string
	Optional bool // the state may legitimately be absent (OK state across close/restore)
}

// mTopic is the reference model of one topic: the current state per event id.
type mTopic struct {
	states map[string]mState
	order  []string // ids in order of first insertion (non-trivial rule)
}

func newMTopic() *mTopic { return &mTopic{states: map[string]mState{}} }

func (t *mTopic) set(id string, s mState) {
	if _, ok := t.states[id]; !ok {
		t.order = append(t.order, id)
	}
	t.states[id] = s
}

func (t *mTopic) clear() { t.states = map[string]mState{}; t.order = nil }

func (t *mTopic) prevLevel(id string) int {
	if s, ok := t.states[id]; ok {
		return s.Level
	}
	return 0 // no preceding event with that id: previous level OK (zero EventState)
}

// prevAlt is the second admissible previous level of the next event with that id: OK when its state may
// have been forgotten (Optional), -1 if there is no second reading.
func (t *mTopic) prevAlt(id string) int {
	if s, ok := t.states[id]; ok && s.Optional && s.Level != 0 {
		return 0
	}
	return -1
}

// maxLevels returns the max over the required states and the max including optional ones.
func (t *mTopic) maxLevels() (req, all int) {
	for _, s := range t.states {
		if s.Level > all {
			all = s.Level
		}
		if !s.Optional && s.Level > req {
			req = s.Level
		}
	}
	return
}

func (t *mTopic) required() int {
	n := 0
	for _, s := range t.states {
		if !s.Optional {
			n++
		}
	}
	return n
}

// unsortedInsertion is the non-trivial rule: >= 2 ids with different levels whose insertion
// order is not already the (level descending, id ascending) order.
func (t *mTopic) unsortedInsertion() bool {
	if len(t.order) < 2 {
		return false
	}
	diff, sorted := false, true
	for i := 1; i < len(t.order); i++ {
		a, b := t.states[t.order[i-1]], t.states[t.order[i]]
		if a.Level != b.Level {
			diff = true
		}
		if a.Level < b.Level || (a.Level == b.Level && t.order[i-1] > t.order[i]) {
			sorted = false
		}
	}
	return diff && !sorted
}

// view is the query surface shared by alert.Topics and services/alert.Service.
type view interface {
	exists(topic string) bool
	maxLevel(topic string) (int, bool)
	eventStates(topic string, min int) (map[string]alert.EventState, bool)
	eventState(topic, id string) (alert.EventState, bool)
	topicStates(pattern string, min int) map[string]alert.TopicState
}

func globMatch(pattern, id string) bool {
	if pattern == "" { // no pattern: all topics
		return true
	}
	ok, _ := path.Match(pattern, id)
	return ok
}

func fmtModel(t *mTopic) string {
	var b strings.Builder
	for _, id := range kit.SortedKeys(t.states) {
		s := t.states[id]
		o := ""
		if s.Optional {
			o = "?"
		}
		fmt.Fprintf(&b, " %s:%s%s", id, lvl(s.Level), o)
	}
	return b.String()
}

func fmtStates(m map[string]alert.EventState) string {
	var b strings.Builder
	for _, id := range kit.SortedKeys(m) {
		fmt.Fprintf(&b, " %s:%s", id, lvl(int(m[id].Level)))
	}
	return b.String()
}

// checkTopic compares everything the API reports about one topic with the model.
func checkTopic(x *ctx, v view, name string, t *mTopic, ids []string) {
	ex := v.exists(name)
	if !ex {
		if t.required() > 0 {
			x.fail("topic/vanished", "topic %s is reported as unknown but its events have states:%s", name, fmtModel(t))
		}
		for _, id := range ids {
			if st, ok := v.eventState(name, id); ok {
				x.fail("topic/state-content", "topic %s is unknown but EventState(%s) reports level %s", name, id, lvl(int(st.Level)))
			}
		}
		return
	}
	// full listing first: it tells whether the stored states themselves are right
	full, ok := v.eventStates(name, 0)
	if !ok {
		x.fail("topic/vanished", "topic %s exists but listing its events failed", name)
		return
	}
	for id, st := range full {
		ms, ok := t.states[id]
		if !ok {
			x.fail("topic/state-content", "topic %s lists event %s (level %s) that has no current state; model:%s", name, id, lvl(int(st.Level)), fmtModel(t))
			return
		}
		if st.ID != id || int(st.Level) != ms.Level || st.Message != ms.Msg || !st.Time.Equal(time.Unix(ms.Time, 0)) {
			x.fail("topic/state-content", "topic %s event %s: reported {id %s level %s msg %s time %v}, latest state is {level %s msg %s time %v}",
				name, id, st.ID, lvl(int(st.Level)), st.Message, st.Time.UTC(), lvl(ms.Level), ms.Msg, time.Unix(ms.Time, 0).UTC())
			return
		}
	}
	for id, ms := range t.states {
		if _, ok := full[id]; !ok && !ms.Optional {
			x.fail("topic/state-content", "topic %s does not list event %s (level %s); listed:%s model:%s", name, id, lvl(ms.Level), fmtStates(full), fmtModel(t))
			return
		}
	}
	for _, id := range ids {
		st, ok := v.eventState(name, id)
		_, inFull := full[id]
		if ok != inFull || (ok && (st.Level != full[id].Level || st.Message != full[id].Message)) {
			x.fail("topic/state-content", "topic %s: EventState(%s) = (%s,%v) disagrees with the event listing%s", name, id, lvl(int(st.Level)), ok, fmtStates(full))
			return
		}
	}
	// the stored states are right: now the level-ordered views, judged against what is listed
	max := 0
	for _, st := range full {
		if int(st.Level) > max {
			max = int(st.Level)
		}
	}
	got, _ := v.maxLevel(name)
	if got < max {
		x.fail("topics/level-view-incomplete", "topic %s reports level %s but the maximum level among the current states of its events is %s; states:%s", name, lvl(got), lvl(max), fmtStates(full))
		return
	}
	if got > max {
		x.fail("topics/level-view-extra", "topic %s reports level %s but the maximum level among the current states of its events is %s; states:%s", name, lvl(got), lvl(max), fmtStates(full))
		return
	}
	for min := 1; min <= 3; min++ {
		lst, ok := v.eventStates(name, min)
		if !ok {
			x.fail("topic/vanished", "topic %s exists but listing its events failed", name)
			return
		}
		for id, st := range full {
			_, in := lst[id]
			if int(st.Level) >= min && !in {
				x.fail("topics/level-view-incomplete", "topic %s: events with min level %s =%s, but event %s has level %s; states:%s", name, lvl(min), fmtStates(lst), id, lvl(int(st.Level)), fmtStates(full))
				return
			}
			if int(st.Level) < min && in {
				x.fail("topics/level-view-extra", "topic %s: events with min level %s =%s includes event %s of level %s; states:%s", name, lvl(min), fmtStates(lst), id, lvl(int(st.Level)), fmtStates(full))
				return
			}
		}
		for id, st := range lst {
			f, in := full[id]
			if !in || f.Level != st.Level || f.Message != st.Message {
				x.fail("topics/level-view-extra", "topic %s: events with min level %s lists %s:%s which is not a current state; states:%s", name, lvl(min), id, lvl(int(st.Level)), fmtStates(full))
				return
			}
		}
	}
}

// checkTopicStates checks the glob/min-level listing of topics. Topics without any required event state
// may or may not be listed (the statement does not say whether an empty topic exists).
func checkTopicStates(x *ctx, v view, model map[string]*mTopic, pattern string, min int, ignore map[string]bool) {
	res := v.topicStates(pattern, min)
	for name, ts := range res {
		if ignore[name] {
			continue
		}
		t, ok := model[name]
		if !ok {
			x.fail("topics/listing", "TopicState(%q, %s) lists unknown topic %s", pattern, lvl(min), name)
			return
		}
		if !globMatch(pattern, name) {
			x.fail("topics/listing", "TopicState(%q, %s) lists topic %s which does not match the pattern", pattern, lvl(min), name)
			return
		}
		req, all := t.maxLevels()
		l := int(ts.Level)
		if l < min {
			x.fail("topics/listing", "TopicState(%q, %s) lists topic %s with level %s below the minimum", pattern, lvl(min), name, lvl(l))
			return
		}
		if l < req {
			x.fail("topics/level-view-incomplete", "TopicState(%q, %s) reports topic %s at level %s, the maximum level of its event states is %s; states:%s", pattern, lvl(min), name, lvl(l), lvl(req), fmtModel(t))
			return
		}
		if l > all {
			x.fail("topics/level-view-extra", "TopicState(%q, %s) reports topic %s at level %s, the maximum level of its event states is %s; states:%s", pattern, lvl(min), name, lvl(l), lvl(all), fmtModel(t))
			return
		}
	}
	for name, t := range model {
		req, _ := t.maxLevels()
		if t.required() == 0 || !globMatch(pattern, name) || req < min {
			continue
		}
		if _, ok := res[name]; !ok {
			// distinguish "wrong level" from "wrong listing"
			if l, ok := v.maxLevel(name); ok && l < req {
				x.fail("topics/level-view-incomplete", "TopicState(%q, %s) omits topic %s: it reports level %s but the maximum level of its event states is %s; states:%s", pattern, lvl(min), name, lvl(l), lvl(req), fmtModel(t))
			} else {
				x.fail("topics/listing", "TopicState(%q, %s) omits topic %s whose level is %s; listed: %v", pattern, lvl(min), name, lvl(req), kit.SortedKeys(res))
			}
			return
		}
	}
}
