// Unit "Concurrent": several publisher goroutines collect generated sequences on one topic.
// The oracle is schedule independent: exactly once per handler, FIFO per publisher, a consistent
// chain of previous levels per event id, final level = max over the final states.
package c09

import (
	"fmt"
	"runtime"
	"sync"
	"sync/atomic"
	"testing"
	"time"

	"verifharness/kit"

	"github.com/influxdata/kapacitor/alert"
	"pgregory.net/rapid"
)

type CEvent struct {
	I int `json:"i"`
	L int `json:"l"`
}

type ConcCase struct {
	Pubs     [][]CEvent `json:"pubs"`     // one sequence per publisher
	Handlers int        `json:"handlers"` // recording handlers on the topic
	Readers  int        `json:"readers"`  // goroutines querying the topic while it is published to
	// Fresh > 0: the publishers are released together onto Fresh topics that do not exist yet, one
	// after the other (the first publish of several tasks to a new topic); no handlers, no readers
	Fresh int `json:"fresh,omitempty"`
}

const concRule = "rapid: 2-4 publisher goroutines x generated (id, level) sequences on one topic with 1-3 recording handlers and concurrent readers; " +
	"a quarter of the cases instead release 2-6 publishers with 1-3 events each together (spin barrier) onto 20-100 topics that do not exist yet, one after the other; " +
	"non-trivial = >=2 publishers published and >=2 event ids ended at different levels, or a fresh-topic case; distinct by case hash (schedules are sampled by the Go scheduler)"

func genConc(t *rapid.T) ConcCase {
	var c ConcCase
	ev := rapid.Custom(func(t *rapid.T) CEvent {
		return CEvent{I: rapid.IntRange(0, 3).Draw(t, "id"), L: rapid.IntRange(0, 3).Draw(t, "level")}
	})
	// rapid prefers short slices: a drawn minimum length keeps long sequences frequent, and shrinks away first
	min := rapid.IntRange(0, 40).Draw(t, "minEvents")
	c.Pubs = rapid.SliceOfN(rapid.SliceOfN(ev, min, 60), 2, 4).Draw(t, "publishers")
	c.Handlers = rapid.IntRange(1, 3).Draw(t, "handlers")
	c.Readers = rapid.IntRange(0, 2).Draw(t, "readers")
	if rapid.IntRange(0, 3).Draw(t, "fresh") == 0 {
		// short sequences: what is lost when two publishers each create the topic is the first event
		c.Pubs = rapid.SliceOfN(rapid.SliceOfN(ev, 1, 3), 2, 6).Draw(t, "freshPublishers")
		c.Fresh = rapid.SampledFrom([]int{20, 50, 100}).Draw(t, "rounds")
		c.Handlers, c.Readers = 0, 0
	}
	return c
}

// runFresh releases the publishers together onto topics that do not exist yet.
func runFresh(c ConcCase, x *ctx) {
	tp := alert.NewTopics(alert.MinimumEventBufferSize)
	tp.Open()
	defer tp.Close()
	total := 0
	for _, seq := range c.Pubs {
		total += len(seq)
	}
	for r := 0; r < c.Fresh; r++ {
		topic := fmt.Sprintf("f%d", r)
		x.at("round %d: %d publishers onto the new topic %s", r, len(c.Pubs), topic)
		var ready int32
		var wg sync.WaitGroup
		errs := make([]error, len(c.Pubs))
		n := int32(len(c.Pubs))
		for p, seq := range c.Pubs {
			wg.Add(1)
			go func(p int, seq []CEvent) {
				defer wg.Done()
				atomic.AddInt32(&ready, 1)
				for atomic.LoadInt32(&ready) < n {
					runtime.Gosched()
				}
				for j, e := range seq {
					err := tp.Collect(alert.Event{Topic: topic, State: alert.EventState{ID: eventIDs[e.I%4], Message: fmt.Sprintf("p%d.%d", p, j),
						Time: time.Unix(baseTime+int64(j), 0).UTC(), Level: alert.Level(e.L % 4)}})
					if err != nil && errs[p] == nil {
						errs[p] = err
					}
				}
			}(p, seq)
		}
		wg.Wait()
		for p, err := range errs {
			if err != nil {
				x.fail("collect/error", "publisher %d: Collect returned %v", p, err)
				return
			}
		}
		t, ok := tp.Topic(topic)
		if !ok {
			x.fail("topic/vanished", "topic %s is unknown after %d events", topic, total)
			return
		}
		if got := t.Collected(); got != int64(total) {
			x.fail("topic/collected-count", "round %d: %d events were collected on the new topic %s by %d publishers, the topic counts %d", r, total, topic, len(c.Pubs), got)
			return
		}
		v := topicsView{tp}
		full, _ := v.eventStates(topic, 0)
		model := newMTopic()
		for id, cands := range lastCandidates(c) {
			st, ok := full[id]
			if !ok {
				x.fail("topic/state-content", "round %d: the new topic %s does not list event %s although it was collected; listed:%s", r, topic, id, fmtStates(full))
				return
			}
			lv, isCand := cands[st.Message]
			if !isCand || int(st.Level) != lv {
				x.fail("topic/state-content", "round %d: topic %s: the state of event %s is that of %s with level %s, which is not the last event with this id of any publisher", r, topic, id, st.Message, lvl(int(st.Level)))
				return
			}
			model.set(id, mState{Level: lv, Time: st.Time.Unix(), Msg: st.Message})
		}
		checkTopic(x, v, topic, model, eventIDs)
		if x.failed() {
			return
		}
	}
	x.label(fmt.Sprintf("fresh-topic-publishers=%d", len(c.Pubs)))
	x.nonTrivial()
}

// lastCandidates: id -> message of the last event with that id of each publisher -> its level.
func lastCandidates(c ConcCase) map[string]map[string]int {
	out := map[string]map[string]int{}
	for p, seq := range c.Pubs {
		last := map[string]int{}
		for j, e := range seq {
			last[eventIDs[e.I%4]] = j
		}
		for id, j := range last {
			if out[id] == nil {
				out[id] = map[string]int{}
			}
			out[id][fmt.Sprintf("p%d.%d", p, j)] = seq[j].L % 4
		}
	}
	return out
}

func runConc(c ConcCase, cc *kit.Case) {
	runBounded(cc, func(x *ctx) {
		if c.Fresh > 0 {
			runFresh(c, x)
			return
		}
		const topic, other = "ta", "tb"
		tp := alert.NewTopics(alert.MinimumEventBufferSize)
		tp.Open()
		closed := false
		defer func() {
			if !closed {
				tp.Close()
			}
		}()
		recs := make([]*recorder, c.Handlers)
		for i := range recs {
			recs[i] = &recorder{name: fmt.Sprintf("%s/h%d", topic, i), topic: topic}
			tp.RegisterHandler(topic, recs[i])
		}
		foreign := &recorder{name: other + "/h0", topic: other}
		tp.RegisterHandler(other, foreign)

		total := 0
		type pe struct{ pub, seq int }
		byMsg := map[string]pe{}
		for p, seq := range c.Pubs {
			total += len(seq)
			for j := range seq {
				byMsg[fmt.Sprintf("p%d.%d", p, j)] = pe{p, j}
			}
		}
		x.at("publishing %d events from %d goroutines", total, len(c.Pubs))
		start := make(chan struct{})
		stop := make(chan struct{})
		var wg, rwg sync.WaitGroup
		errs := make([]error, len(c.Pubs))
		for p, seq := range c.Pubs {
			wg.Add(1)
			go func(p int, seq []CEvent) {
				defer wg.Done()
				<-start
				for j, e := range seq {
					err := tp.Collect(alert.Event{Topic: topic, State: alert.EventState{ID: eventIDs[e.I%4], Message: fmt.Sprintf("p%d.%d", p, j),
						Time: time.Unix(baseTime+int64(j), 0).UTC(), Level: alert.Level(e.L % 4)}})
					if err != nil && errs[p] == nil {
						errs[p] = err
					}
				}
			}(p, seq)
		}
		for r := 0; r < c.Readers; r++ {
			rwg.Add(1)
			go func() {
				defer rwg.Done()
				<-start
				for {
					select {
					case <-stop:
						return
					default:
					}
					tp.TopicState("t*", alert.Warning)
					if t, ok := tp.Topic(topic); ok {
						t.EventStates(alert.Info)
						t.MaxLevel()
					}
					tp.EventState(topic, "a")
				}
			}()
		}
		close(start)
		wg.Wait()
		close(stop)
		rwg.Wait()
		for p, err := range errs {
			if err != nil {
				x.fail("collect/error", "publisher %d: Collect returned %v (queues hold %d events, only %d were published)", p, err, alert.MinimumEventBufferSize, total)
				return
			}
		}
		x.at("waiting for %d deliveries per handler", total)
		if !waitFor(func() bool {
			for _, r := range recs {
				if r.count() < total {
					return false
				}
			}
			return true
		}, deliveryBound) {
			for _, r := range recs {
				if r.count() < total {
					x.fail("delivery/missing", "handler %s received %d of %d events within %v", r.name, r.count(), total, deliveryBound)
					return
				}
			}
		}

		// final state, before Close
		x.at("final queries")
		v := topicsView{tp}
		full, ok := v.eventStates(topic, 0)
		if total > 0 && !ok {
			x.fail("topic/vanished", "topic %s is unknown after %d events", topic, total)
			return
		}
		lastOf := map[string]map[string]bool{} // id -> messages that are the last event of that id for some publisher
		for p, seq := range c.Pubs {
			last := map[string]int{}
			for j, e := range seq {
				last[eventIDs[e.I%4]] = j
			}
			for id, j := range last {
				if lastOf[id] == nil {
					lastOf[id] = map[string]bool{}
				}
				lastOf[id][fmt.Sprintf("p%d.%d", p, j)] = true
			}
		}
		model := newMTopic()
		for id, cands := range lastOf {
			st, ok := full[id]
			if !ok {
				x.fail("topic/state-content", "topic %s does not list event %s although it was collected; listed:%s", topic, id, fmtStates(full))
				return
			}
			if !cands[st.Message] {
				x.fail("topic/state-content", "topic %s: the state of event %s is that of %s, which is not the last event with this id of any publisher", topic, id, st.Message)
				return
			}
			pj := byMsg[st.Message]
			e := c.Pubs[pj.pub][pj.seq]
			if int(st.Level) != e.L%4 {
				x.fail("topic/state-content", "topic %s: the state of event %s is that of %s but carries level %s instead of %s", topic, id, st.Message, lvl(int(st.Level)), lvl(e.L%4))
				return
			}
			model.set(id, mState{Level: e.L % 4, Time: baseTime + int64(pj.seq), Msg: st.Message})
		}
		for id := range full {
			if lastOf[id] == nil {
				x.fail("topic/state-content", "topic %s lists event %s that was never collected", topic, id)
				return
			}
		}
		if ok {
			checkTopic(x, v, topic, model, eventIDs)
			if x.failed() {
				return
			}
			checkTopicStates(x, v, map[string]*mTopic{topic: model, other: newMTopic()}, "", 0, nil)
			if x.failed() {
				return
			}
		}

		x.at("Close")
		closed = true
		tp.Close()
		if n := foreign.count(); n != 0 {
			x.fail("delivery/foreign-topic", "the handler registered on topic %s was handed %d events of topic %s", other, n, topic)
			return
		}
		// per handler: exactly once, FIFO per publisher
		var ref map[string]int
		for _, r := range recs {
			obs := r.snapshot()
			nextSeq := make([]int, len(c.Pubs))
			seen := map[string]bool{}
			prevOf := map[string]int{}
			for _, o := range obs {
				pj, known := byMsg[o.Msg]
				if !known || o.Topic != topic {
					x.fail("delivery/unexpected", "handler %s was handed an event %s of topic %s that nobody published", r.name, o.Msg, o.Topic)
					return
				}
				if seen[o.Msg] {
					x.fail("delivery/duplicate", "handler %s was handed event %s more than once", r.name, o.Msg)
					return
				}
				seen[o.Msg] = true
				if pj.seq != nextSeq[pj.pub] {
					x.fail("delivery/order", "handler %s: event %s of publisher %d arrived when its event number %d was due (FIFO per publisher)", r.name, o.Msg, pj.pub, nextSeq[pj.pub])
					return
				}
				nextSeq[pj.pub]++
				e := c.Pubs[pj.pub][pj.seq]
				if o.ID != eventIDs[e.I%4] || o.Level != e.L%4 {
					x.fail("delivery/content", "handler %s: event %s arrived as %s:%s, published as %s:%s", r.name, o.Msg, o.ID, lvl(o.Level), eventIDs[e.I%4], lvl(e.L%4))
					return
				}
				if o.DataPrev != o.Prev {
					x.fail("delivery/previous-level", "handler %s: event %s: PreviousState level %s but AlertData previous level %s", r.name, o.Msg, lvl(o.Prev), lvl(o.DataPrev))
					return
				}
				prevOf[o.Msg] = o.Prev
			}
			if len(obs) != total {
				x.fail("delivery/missing", "handler %s received %d of %d events", r.name, len(obs), total)
				return
			}
			if ref == nil {
				ref = prevOf
				continue
			}
			for m, p := range prevOf {
				if ref[m] != p {
					x.fail("delivery/previous-level", "event %s was handed to %s with previous level %s and to %s with previous level %s", m, recs[0].name, lvl(ref[m]), r.name, lvl(p))
					return
				}
			}
		}
		// previous levels per id form one chain OK -> ... -> final level: in the multigraph with an edge
		// previous->level per event, every level has out-degree - in-degree = [start] - [end]
		if ref != nil {
			for id := range lastOf {
				var out, in [4]int
				for m, p := range ref {
					pj := byMsg[m]
					e := c.Pubs[pj.pub][pj.seq]
					if eventIDs[e.I%4] != id {
						continue
					}
					out[p]++
					in[e.L%4]++
				}
				end := model.states[id].Level
				for l := 0; l < 4; l++ {
					want := 0
					if l == 0 {
						want++
					}
					if l == end {
						want--
					}
					if out[l]-in[l] != want {
						x.fail("delivery/previous-level", "event id %s: the previous levels handed to the handlers do not form a chain from OK to the final level %s: level %s is %d times a previous level and %d times a level",
							id, lvl(end), lvl(l), out[l], in[l])
						return
					}
				}
			}
		}

		// labels
		pubs := 0
		for _, seq := range c.Pubs {
			if len(seq) > 0 {
				pubs++
			}
		}
		levels := map[int]bool{}
		for _, s := range model.states {
			levels[s.Level] = true
		}
		if pubs >= 2 && len(levels) >= 2 {
			x.nonTrivial()
		}
		x.label(fmt.Sprintf("publishers=%d", len(c.Pubs)))
		if c.Readers > 0 {
			x.label("concurrent-readers")
		}
		if total >= 60 {
			x.label("events>=60")
		}
		// did the handlers observe an interleaving (not publisher after publisher)?
		if len(recs) > 0 {
			sw := 0
			obs := recs[0].snapshot()
			for i := 1; i < len(obs); i++ {
				if byMsg[obs[i].Msg].pub != byMsg[obs[i-1].Msg].pub {
					sw++
				}
			}
			if sw >= len(c.Pubs) {
				x.label("interleaved-delivery")
			}
		}
	})
}

var concAssumptions = []string{
	"concurrent publishers: the order between events of different publishers is not fixed; required are exactly-once per handler, FIFO per publisher, all handlers seeing the same previous level for an event, and per id a consistent chain of previous levels from OK to the final state",
	"the final state of an event id is the last event with that id of one of the publishers",
	"fresh-topic cases: the topic counts every collected event, lists every collected id with the state of a last event of some publisher, and reports the maximum level",
	"fewer events (<= 240) than the handler queue (1000) are published, so no Collect may report a failed delivery",
}

func TestConcurrent(t *testing.T) {
	r := kit.NewRec("C09", "Concurrent", concRule, concAssumptions...)
	kit.Check(t, r, genConc, runConc)
	t.Logf("goroutines at the end of the unit: %d", runtime.NumGoroutine())
}

func TestReplayConcurrent(t *testing.T) {
	r := kit.NewRec("C09", "Concurrent", concRule, concAssumptions...)
	kit.Replay(t, r, runConc)
}
