package c16

import (
	"context"
	"sync"
	"time"

	"github.com/influxdata/flux"
	"github.com/influxdata/kapacitor/influxdb"
)

// fakeClient is the InfluxDB the task talks to: it records every query (with the wall-clock
// instant it arrived) and answers with an empty response.
type fakeClient struct {
	mu   sync.Mutex
	qs   []string
	at   []time.Time
	wake chan struct{} // signalled (non-blocking) on every query
}

func (f *fakeClient) Ping(ctx context.Context) (time.Duration, string, error) { return 0, "", nil }
func (f *fakeClient) Write(bp influxdb.BatchPoints) error                     { return nil }
func (f *fakeClient) WriteV2(w influxdb.FluxWrite) error                      { return nil }
func (f *fakeClient) Query(q influxdb.Query) (*influxdb.Response, error) {
	now := time.Now()
	f.mu.Lock()
	f.qs = append(f.qs, q.Command)
	f.at = append(f.at, now)
	w := f.wake
	f.mu.Unlock()
	if w != nil {
		select {
		case w <- struct{}{}:
		default:
		}
	}
	return &influxdb.Response{}, nil
}
func (f *fakeClient) QueryFlux(q influxdb.FluxQuery) (flux.ResultIterator, error) { return nil, nil }
func (f *fakeClient) QueryFluxResponse(q influxdb.FluxQuery) (*influxdb.Response, error) {
	return &influxdb.Response{}, nil
}
func (f *fakeClient) CreateBucketV2(bucket string, org string, orgID string) error { return nil }

func (f *fakeClient) count() int {
	f.mu.Lock()
	defer f.mu.Unlock()
	return len(f.qs)
}

func (f *fakeClient) snapshot() ([]string, []time.Time) {
	f.mu.Lock()
	defer f.mu.Unlock()
	return append([]string(nil), f.qs...), append([]time.Time(nil), f.at...)
}

func (f fakeInflux) NewNamedClient(name string) (influxdb.Client, error) { return f.client, nil }
