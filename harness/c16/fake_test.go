package c16

import (
	"context"
	"sync"
	"time"

	"github.com/influxdata/flux"
	"github.com/influxdata/kapacitor/influxdb"
)

// fakeClient is the InfluxDB the task talks to: it records every query (with the wall-clock
// instants it arrived and was answered) and answers with an empty response. The answer to
// query number stallAt (0-based) is held back for stall (a slow or briefly unreachable
// InfluxDB) when stall > 0.
type fakeClient struct {
	mu      sync.Mutex
	qs      []string
	at      []time.Time
	ret     []time.Time   // zero while the query is unanswered
	wake    chan struct{} // signalled (non-blocking) on every query
	stallAt int
	stall   time.Duration
}

func (f *fakeClient) Ping(ctx context.Context) (time.Duration, string, error) { return 0, "", nil }
func (f *fakeClient) Write(bp influxdb.BatchPoints) error                     { return nil }
func (f *fakeClient) WriteV2(w influxdb.FluxWrite) error                      { return nil }
func (f *fakeClient) Query(q influxdb.Query) (*influxdb.Response, error) {
	now := time.Now()
	f.mu.Lock()
	idx := len(f.qs)
	f.qs = append(f.qs, q.Command)
	f.at = append(f.at, now)
	f.ret = append(f.ret, time.Time{})
	w := f.wake
	f.mu.Unlock()
	if w != nil {
		select {
		case w <- struct{}{}:
		default:
		}
	}
	if f.stall > 0 && idx == f.stallAt {
		time.Sleep(f.stall)
	}
	f.mu.Lock()
	f.ret[idx] = time.Now()
	f.mu.Unlock()
	return &influxdb.Response{}, nil
}
func (f *fakeClient) QueryFlux(q influxdb.FluxQuery) (flux.ResultIterator, error) { return nil, nil }
func (f *fakeClient) QueryFluxResponse(q influxdb.FluxQuery) (*influxdb.Response, error) {
	return &influxdb.Response{}, nil
}
func (f *fakeClient) CreateBucketV2(bucket string, org string, orgID string) error { return nil }

func (f *fakeClient) count() int {
	f.mu.Lock()
	defer f.mu.Unlock()
	return len(f.qs)
}

func (f *fakeClient) snapshot() (qs []string, at, ret []time.Time) {
	f.mu.Lock()
	defer f.mu.Unlock()
	return append([]string(nil), f.qs...), append([]time.Time(nil), f.at...), append([]time.Time(nil), f.ret...)
}

func (f fakeInflux) NewNamedClient(name string) (influxdb.Client, error) { return f.client, nil }
