// C16 — batch queries cover exactly their scheduled, bounded time range.
//
// Unit Queries: generated InfluxQL SELECT statements (fields, sources, WHERE trees of depth
// <= 4 over AND/OR/parentheses with tag/field comparisons and user time predicates) x
// query-node options (period, every|cron, offset, align, groupBy, fill, alignGroup) x spans
// [start, stop] in the past. The task is created through TaskMaster.NewTask and started (or
// turned into an ExecutingTask the way the replay service does); the queries come from
// ExecutingTask.BatchQueries(start, stop).
//
// Oracle: (1) reference schedule written from pipeline/batch.go (every: start+k*every;
// align: the multiples of every after start; cron: arithmetic for a restricted family),
// stop = tick - offset, start = stop - period; (2) every returned query string is re-parsed
// with influxql, reduced with influxql.ConditionExpr (InfluxQL reading: time comparisons are
// promoted to one time range) and evaluated on generated rows:
// selected(row) <=> user_selects(row) AND start <= row.time < stop; (3) fields, sources,
// group-by (as written in .groupBy(), offset aligned under .alignGroup()), fill and the
// ORDER/LIMIT/tz tail are the user's; (4) the queries of a list do not share state;
// (5) a query naming an undeclared db/rp is rejected, and so is one that names a database
// but omits the retention policy ("db"..m reads the database's default retention policy,
// which no declaration covers); a statement with a subquery source (one or two levels,
// declared and undeclared measurements inside) may be refused, but if it is accepted every
// measurement at any depth of every emitted query must be a declared pair.
//
// Unit Live (live_test.go): StartBatching against a fake InfluxDB; every observed live query
// must be exactly the query BatchQueries returns for the same tick. Unit LiveStall: the same
// with one answer of the fake InfluxDB held back for seconds; the tick of every later query
// is bounded from below by the instant an earlier answer was handed back. Unit LiveCron: a
// .cron() schedule with a seconds field run live; every live tick is a time of the schedule,
// exactly, and the historical list of the whole live span holds the live queries.
package c16

import (
	"fmt"
	"os"
	"strconv"
	"strings"
	"testing"
	"time"
	_ "time/tzdata" // tz('...') clauses of generated statements must parse wherever the check runs

	"verifharness/kit"

	"github.com/influxdata/influxql"
	"github.com/influxdata/kapacitor"
	"pgregory.net/rapid"
)

func init() {
	// cron schedules are evaluated in local time (QueryNode.Queries: start.Local()); the
	// restricted cron family of this check is arithmetic in UTC. bin/check sets TZ=UTC; make
	// hand runs agree.
	time.Local = time.UTC
}

// Switches for input classes of defects that are entered as "known" (not fixed) in
// known_findings.json: the generator then avoids the class by construction and counts it.
const (
	// influxql's NumberLiteral.String() prints 3 decimals; kapacitor re-serialises the user's
	// statement through it, so a float literal with more decimals is altered.
	excludeFineFloats = true
	// timeTicker.Next rounds instead of truncating under align(): a start whose phase within
	// 'every' is >= every/2 loses its first tick in BatchQueries.
	excludeAlignLatePhase = false
	// Query.Clone detaches the group-by-time literals: alignGroup() has no effect on the
	// queries returned by BatchQueries.
	excludeAlignGroupHistorical = false
)

// strictEnv: with VERIF_C16_STRICT=1 a divergence under the strict boolean reading of the
// emitted text (see sem_test.go) is a failure instead of a label. Off by default: InfluxQL
// does not read time comparisons that way.
func strictEnv() bool { return os.Getenv("VERIF_C16_STRICT") == "1" }

type Dur struct {
	K int64  `json:"k"`
	U string `json:"u"`
}

var unitNs = map[string]int64{"u": 1e3, "ms": 1e6, "s": 1e9, "m": 60e9, "h": 3600e9, "d": 86400e9}

func (d Dur) Ns() int64      { return d.K * unitNs[d.U] }
func (d Dur) String() string { return fmt.Sprintf("%d%s", d.K, d.U) }

type Cron struct {
	Expr string `json:"expr"`
	M    int64  `json:"m"` // occurrences are the whole seconds t (unix, UTC) with t % M == R
	R    int64  `json:"r"`
	Kind string `json:"kind"`
}

type Dim struct {
	Kind   string `json:"kind"` // time | bare (a plain duration) | tag | star
	Every  Dur    `json:"every,omitempty"`
	HasOff bool   `json:"hasoff,omitempty"`
	Off    Dur    `json:"off,omitempty"`
	Tag    string `json:"tag,omitempty"`
}

type DBRP struct {
	DB string `json:"db"`
	RP string `json:"rp"`
}

type Src struct {
	DB    string `json:"db"`
	RP    string `json:"rp"`
	Name  string `json:"name"`
	Regex bool   `json:"regex,omitempty"` // Name is a regular expression
	Form  string `json:"form"`            // full | norp ("db".."m") | bare (m) | sub (a subquery: Sub)
	Sub   *SubQ  `json:"sub,omitempty"`
}

// SubQ is a subquery used as a source: FROM (SELECT Fields FROM Sources [WHERE ...] [GROUP BY ...]).
type SubQ struct {
	Fields  string `json:"fields"`
	Sources []Src  `json:"sources"` // measurements and (one level deeper) subqueries
	Where   string `json:"where,omitempty"`
	GroupBy string `json:"groupby,omitempty"`
}

type Case struct {
	Fields     string   `json:"fields"`
	Sources    []Src    `json:"sources"`
	Where      *Node    `json:"where,omitempty"`
	Tail       string   `json:"tail,omitempty"`
	Declared   []DBRP   `json:"declared"`
	Period     Dur      `json:"period"`
	Every      Dur      `json:"every"` // K == 0: cron
	Cron       *Cron    `json:"cron,omitempty"`
	Offset     Dur      `json:"offset"`
	Align      bool     `json:"align,omitempty"`
	AlignGroup bool     `json:"aligngroup,omitempty"`
	GroupBy    []Dim    `json:"groupby,omitempty"`
	Fill       string   `json:"fill,omitempty"` // "" | 'null' | 'none' | 'previous' | 'linear' | a number
	PropOrder  []int    `json:"order"`
	StartNs    int64    `json:"start"`
	StopNs     int64    `json:"stop"`
	NowNs      int64    `json:"now"`   // the instant now() stands for when a condition is evaluated
	Masks      []uint32 `json:"masks"` // extra truth assignments of the leaves
	MutIdx     int      `json:"mut"`   // the query whose times are rewritten in the independence check
	ReplayPath bool     `json:"replaypath,omitempty"`
	// ZoneOff: the server's local zone, seconds east of UTC (cron expressions are matched against
	// local wall-clock fields by the live ticker and must be by the historical list as well)
	ZoneOff int `json:"zone_off,omitempty"`
	// Sib: a second query node of the batch task beside the one under test: "flux-first" /
	// "flux-last" (a queryFlux node before / after it in the script), "ql-first" / "ql-last" (an
	// InfluxQL query on a declared pair). The db/rp check is per task: it must look at every node.
	Sib string `json:"sib,omitempty"`
}

const rule = "rapid: InfluxQL SELECT (fields x sources x WHERE tree depth<=4 over AND/OR/parens, tag/field/arith/regex comparisons, user time predicates) x " +
	"period/every|cron/offset/align/groupBy/fill/alignGroup x declared dbrps and FROM clause (declared pair | undeclared pair | declared database, other or omitted retention policy | no database | subquery of depth 1-2 over such sources, alone or beside a measurement) x span [start,stop] with generated phase x optionally a sibling query node (queryFlux, or InfluxQL on a declared pair) before or after it in the script; " +
	"non-trivial = the WHERE tree has an OR at its top level or a user time predicate (and the task issues >= 1 query); distinct by case hash"

// ------------------------------------------------------------------ reference schedule

func truncNs(t, d int64) int64 {
	return time.Unix(0, t).UTC().Truncate(time.Duration(d)).UnixNano()
}

// refTicks is the reference schedule: the tick instants in (start, stop].
//   - every: start + k*every (pipeline/batch.go: "How often to query InfluxDB")
//   - align: "Align start and stop times for queries with even boundaries of the
//     QueryNode.Every property": the multiples of every (time.Truncate grid) after start -
//     which is also what a live task started at 'start' does (timeTicker.Start:
//     now.Truncate(every).Add(every), then one tick per every)
//   - cron: the occurrences after start (restricted family: t % M == R in unix seconds)
func refTicks(c Case) []int64 {
	var out []int64
	if c.Cron != nil {
		m := c.Cron.M * 1e9
		// local wall-clock seconds t+off with (t+off) % M == R
		r := ((c.Cron.R-int64(c.ZoneOff))%c.Cron.M + c.Cron.M) % c.Cron.M * 1e9
		t := (c.StartNs-r)/m*m + r
		for t <= c.StartNs {
			t += m
		}
		for ; t <= c.StopNs && len(out) < 1000; t += m {
			out = append(out, t)
		}
		return out
	}
	e := c.Every.Ns()
	t := c.StartNs + e
	if c.Align {
		t = truncNs(c.StartNs, e) + e
	}
	for ; t <= c.StopNs && len(out) < 1000; t += e {
		out = append(out, t)
	}
	return out
}

// ------------------------------------------------------------------ generator

var (
	nameBases  = []string{"host", "cpu", "region", "dc", "usage_idle", "my-tag", "x y", "from", "Ünï", "a.b", `q"t`}
	strPool    = []string{"abc", "serverA", "it's", `a\b`, "a b", "ü", "", "us-west", "0"}
	intPool    = []int64{0, 1, -3, 5, 42, 100, 9007199254740993, -1000000}
	floatPool  = []float64{2.5, 0.125, -1.5, 100.5, 0.001, 1234567.25}
	fineFloats = []float64{0.0005, 0.00025, 99.9999, 1.0004, 0.0000001}
	cmpOps     = []string{"=", "!=", "<>", "<", "<=", ">", ">="}
	rawFields  = []string{`"value"`, `*`, `"value", "other"`, `"value" * 2`, `"a" + "b" AS "s"`, `"value" * 0.5`, `"value"::field, "host"::tag`, `/^usage_/`}
	aggFields  = []string{`mean("value")`, `count("value")`, `max("value") AS "mx"`, `percentile("value", 95)`, `sum("a") / count("b")`,
		`mean("value"), min("value")`, `count(distinct("value"))`, `top("value", 3)`, `mean(*)`, `mean(/^usage/)`, `percentile("value", 99.9) AS "p"`, `last("value") - first("value")`}
	fineRawFields = []string{`"value" * 0.00025`}
	fineAggFields = []string{`percentile("value", 99.9999)`}
	timeAggFields = []string{`derivative(mean("value"), 1s)`, `moving_average(mean("value"), 3)`}
	tails         = []string{"", "", "", " ORDER BY time DESC", " LIMIT 10", " ORDER BY time DESC LIMIT 5 OFFSET 2", " SLIMIT 3 SOFFSET 1", " tz('Europe/Berlin')", " LIMIT 1 tz('America/New_York')"}
	dbPool        = []string{"db", "telegraf", "my db", "DB", "db2", "_internal"}
	rpPool        = []string{"rp", "autogen", "rp 1", "default", "RP", "two_weeks"}
	measPool      = []string{"m", "cpu", "my-meas", "disk io", "select", "Ünï"}
	measRegex     = []string{`^cpu.*`, `process_.*`, `a\/b`}
	anchors       = []int64{1456790390e9, 1583056800e9, 1640995199500e6, 1560602096789e6, 1600000000e9, 1672531200e9, 1583056800e9 + 123456789}
	durK          = []int64{1, 2, 3, 4, 5, 7, 10, 15, 20, 30, 45, 60, 90, 100, 250, 500, 1500}
)

func genDur(t *rapid.T, label string, units []string) Dur {
	return Dur{K: rapid.SampledFrom(durK).Draw(t, label+"K"), U: rapid.SampledFrom(units).Draw(t, label+"U")}
}

type treeGen struct {
	t       *rapid.T
	idx     int
	instant func() int64 // an interesting instant for a user time predicate
	nowNs   int64
	rec     *kit.Rec
}

func (g *treeGen) leaf() *Node {
	t := g.t
	l := &Leaf{}
	name := rapid.SampledFrom(nameBases).Draw(t, "name") + strconv.Itoa(g.idx)
	g.idx++
	kinds := []string{"tag", "str", "int", "float", "bool", "arith", "time"}
	w := []int{3, 1, 2, 2, 1, 2, 3}
	if g.instant == nil {
		w[6] = 0 // no user time predicates
	}
	kind := kinds[wpick(t, "leafKind", w...)]
	l.Kind, l.Name = kind, name
	switch kind {
	case "tag", "str":
		l.Op = rapid.SampledFrom([]string{"=", "=", "!=", "<>", "=~", "!~"}).Draw(t, "op")
		if l.Op == "=~" || l.Op == "!~" {
			l.RI = rapid.IntRange(0, len(regexTable)-1).Draw(t, "regex")
		} else {
			l.S = rapid.SampledFrom(strPool).Draw(t, "str")
			l.Flip = wpick(t, "flip", 5, 1) == 1
		}
	case "int":
		l.Op = rapid.SampledFrom(cmpOps).Draw(t, "op")
		l.I = rapid.SampledFrom(intPool).Draw(t, "int")
		l.Flip = wpick(t, "flip", 5, 1) == 1
	case "float":
		l.Op = rapid.SampledFrom(cmpOps).Draw(t, "op")
		if wpick(t, "fine", 3, 1) == 1 {
			if excludeFineFloats {
				g.rec.Exclude("float literal with more than 3 decimals (influxql NumberLiteral.String)")
				l.F = rapid.SampledFrom(floatPool).Draw(t, "float")
			} else {
				l.F = rapid.SampledFrom(fineFloats).Draw(t, "finefloat")
			}
		} else {
			l.F = rapid.SampledFrom(floatPool).Draw(t, "float")
		}
		l.Flip = wpick(t, "flip", 5, 1) == 1
	case "bool":
		l.Op = rapid.SampledFrom([]string{"=", "!="}).Draw(t, "op")
		l.B = rapid.Bool().Draw(t, "bool")
	case "arith":
		l.Op = rapid.SampledFrom(cmpOps).Draw(t, "op")
		l.AOp = rapid.SampledFrom([]string{"+", "-", "*"}).Draw(t, "aop")
		l.AK = rapid.SampledFrom([]int64{1, 2, 3, 10}).Draw(t, "ak")
		l.I = l.AK * rapid.SampledFrom([]int64{0, 1, 5, -4, 30}).Draw(t, "mult")
		l.AP = rapid.Bool().Draw(t, "aparen")
	case "time":
		l.Name = ""
		l.Op = rapid.SampledFrom([]string{">", ">=", "<", "<="}).Draw(t, "op")
		l.Form = rapid.SampledFrom([]string{"rfc", "rfc", "datetime", "date", "epochns", "epochs", "epochms", "now", "now"}).Draw(t, "form")
		b := g.instant()
		switch l.Form {
		case "datetime", "rfc", "epochns":
		case "date":
			b = b / 86400e9 * 86400e9
		case "epochs":
			b = b / 1e9 * 1e9
		case "epochms", "now":
			b = b / 1e6 * 1e6
		}
		l.TNs = b
		l.Flip = wpick(t, "flip", 4, 1) == 1
	}
	return &Node{Op: "leaf", Leaf: l}
}

// node draws a tree of at most the given depth; under an AND an OR child is parenthesised
// (the text then means what the tree says).
func (g *treeGen) node(depth int, underAnd bool) *Node {
	t := g.t
	k := 0
	if depth > 1 {
		k = wpick(t, "nodeKind", 2, 4, 4, 1)
	}
	switch {
	case k == 0:
		return g.leaf()
	case k == 1:
		return &Node{Op: "and", L: g.node(depth-1, true), R: g.node(depth-1, true)}
	case k == 2:
		n := &Node{Op: "or", L: g.node(depth-1, false), R: g.node(depth-1, false)}
		if underAnd {
			return &Node{Op: "paren", L: n}
		}
		return n
	default:
		return &Node{Op: "paren", L: g.node(depth-1, false)}
	}
}

// wpick draws an index with the given relative weights (rapid's integer generators are
// biased towards small values and bounds; an explicit table keeps the class frequencies as intended).
func wpick(t *rapid.T, label string, weights ...int) int {
	var table []int
	for i, w := range weights {
		for j := 0; j < w; j++ {
			table = append(table, i)
		}
	}
	x := 0
	for i := 0; i < 10; i++ { // ten fair bits (a 1-bit draw has no bias); shrinks towards the first entry
		x <<= 1
		if rapid.Bool().Draw(t, label) {
			x |= 1
		}
	}
	return table[x%len(table)]
}

// genStatement draws what the user wrote in the query text and in groupBy/fill/alignGroup.
func genStatement(t *rapid.T, rec *kit.Rec, c *Case) {
	hasTimeDim := false
	nd := 0
	if wpick(t, "grouped", 1, 1) == 1 {
		nd = 1 + wpick(t, "ndims", 2, 2, 1)
	}
	for i := 0; i < nd; i++ {
		k := wpick(t, "dimKind", 2, 1, 2, 1)
		if hasTimeDim && k >= 2 {
			k -= 2
		}
		d := Dim{Kind: []string{"tag", "star", "time", "bare"}[k]}
		switch d.Kind {
		case "time", "bare":
			hasTimeDim = true
			d.Every = genDur(t, "gbEvery", []string{"ms", "s", "s", "m", "h"})
			if d.Kind == "time" && wpick(t, "gbHasOff", 2, 1) == 1 {
				d.HasOff = true
				d.Off = genDur(t, "gbOff", []string{"ms", "s", "m"})
				if rapid.Bool().Draw(t, "gbOffNeg") {
					d.Off.K = -d.Off.K
				}
			}
		case "tag":
			d.Tag = rapid.SampledFrom(nameBases).Draw(t, "dimTag")
		}
		c.GroupBy = append(c.GroupBy, d)
	}
	c.AlignGroup = wpick(t, "alignGroup", 2, 1) == 1
	if excludeAlignGroupHistorical && c.AlignGroup && hasTimeDim {
		rec.Exclude("alignGroup() with a group-by-time dimension (Query.Clone detaches the literals)")
		c.AlignGroup = false
	}
	agg := hasTimeDim || rapid.Bool().Draw(t, "agg")
	fine := wpick(t, "fineField", 9, 1) == 1
	if fine && excludeFineFloats {
		rec.Exclude("float literal with more than 3 decimals (influxql NumberLiteral.String)")
		fine = false
	}
	switch {
	case agg && hasTimeDim && wpick(t, "timeAgg", 5, 1) == 1:
		c.Fields = rapid.SampledFrom(timeAggFields).Draw(t, "fields")
	case agg && fine:
		c.Fields = rapid.SampledFrom(fineAggFields).Draw(t, "fields")
	case agg:
		c.Fields = rapid.SampledFrom(aggFields).Draw(t, "fields")
	case fine:
		c.Fields = rapid.SampledFrom(fineRawFields).Draw(t, "fields")
	default:
		c.Fields = rapid.SampledFrom(rawFields).Draw(t, "fields")
	}
	if agg && wpick(t, "hasFill", 2, 1) == 1 {
		c.Fill = rapid.SampledFrom([]string{"'null'", "'none'", "'previous'", "'linear'", "0", "3", "-1", "1.5", "0.00025", "100.0"}).Draw(t, "fill")
	}
	c.Tail = rapid.SampledFrom(tails).Draw(t, "tail")
	nm := rapid.IntRange(0, 4).Draw(t, "nmasks")
	for i := 0; i < nm; i++ {
		c.Masks = append(c.Masks, rapid.Uint32().Draw(t, "mask"))
	}
	c.PropOrder = rapid.Permutation([]int{0, 1, 2, 3, 4, 5, 6}).Draw(t, "order")
}

// genSources draws the declared (db, rp) pairs and the FROM clause; onlyDeclared: every
// source is a fully qualified declared pair.
func genSources(t *rapid.T, c *Case, onlyDeclared bool) {
	ndecl := 1 + wpick(t, "ndecl", 2, 2, 1)
	for i := 0; i < ndecl; i++ {
		c.Declared = append(c.Declared, DBRP{rapid.SampledFrom(dbPool).Draw(t, "declDB"), rapid.SampledFrom(rpPool).Draw(t, "declRP")})
	}
	nsrc := 1 + wpick(t, "twoSources", 4, 1)
	for i := 0; i < nsrc; i++ {
		w := []int{16, 1, 1, 1}
		if onlyDeclared {
			w = []int{1}
		}
		c.Sources = append(c.Sources, genPlainSrc(t, c, onlyDeclared, w))
	}
	// a subquery in the place of one source (the other, if any, stays a plain one): its
	// measurements sit one or two levels down, declared or not
	if !onlyDeclared && wpick(t, "subquery", 11, 1) == 1 {
		i := rapid.IntRange(0, nsrc-1).Draw(t, "subAt")
		c.Sources[i] = Src{Form: "sub", Sub: genSubQ(t, c, 1+wpick(t, "subDepth", 1, 1))}
	}
}

// genPlainSrc draws a measurement source; w: weights of (declared pair | any pair from the
// pools | declared database, other retention policy | database and retention policy both
// declared, possibly not as a pair).
func genPlainSrc(t *rapid.T, c *Case, onlyDeclared bool, w []int) Src {
	var s Src
	ndecl := len(c.Declared)
	switch wpick(t, "srcKind", w...) {
	case 0:
		d := c.Declared[rapid.IntRange(0, ndecl-1).Draw(t, "srcDecl")]
		s.DB, s.RP = d.DB, d.RP
	case 1: // any pair from the pools: mostly undeclared
		s.DB, s.RP = rapid.SampledFrom(dbPool).Draw(t, "srcDB"), rapid.SampledFrom(rpPool).Draw(t, "srcRP")
	case 2: // declared database, other retention policy
		s.DB, s.RP = c.Declared[0].DB, rapid.SampledFrom(rpPool).Draw(t, "srcRP")
	case 3: // db and rp both declared, but possibly not as a pair
		s.DB = c.Declared[rapid.IntRange(0, ndecl-1).Draw(t, "srcDBi")].DB
		s.RP = c.Declared[rapid.IntRange(0, ndecl-1).Draw(t, "srcRPi")].RP
	}
	s.Form = "full"
	if !onlyDeclared {
		s.Form = []string{"full", "norp", "bare"}[wpick(t, "srcForm", 48, 1, 1)]
	}
	if wpick(t, "srcRegex", 5, 1) == 1 {
		s.Regex, s.Name = true, rapid.SampledFrom(measRegex).Draw(t, "measRe")
	} else {
		s.Name = rapid.SampledFrom(measPool).Draw(t, "meas")
	}
	return s
}

var (
	subFields  = []string{`max("value") AS "value"`, `"value"`, `mean("value") AS "value", count("b") AS "b"`, `*`}
	subWheres  = []string{"", "", ` WHERE "host" = 'serverA'`, ` WHERE "usage_idle" > 10 OR "cpu" = 'cpu-total'`}
	subGroupBy = []string{"", ` GROUP BY "host"`, ` GROUP BY *`}
)

// genSubQ draws a subquery of the given depth (1: measurements only; 2: one of its sources is
// a subquery again). Its measurements are declared pairs and undeclared ones in equal parts.
func genSubQ(t *rapid.T, c *Case, depth int) *SubQ {
	q := &SubQ{
		Fields:  rapid.SampledFrom(subFields).Draw(t, "subFields"),
		Where:   rapid.SampledFrom(subWheres).Draw(t, "subWhere"),
		GroupBy: rapid.SampledFrom(subGroupBy).Draw(t, "subGroupBy"),
	}
	n := 1 + wpick(t, "subTwoSources", 2, 1)
	for i := 0; i < n; i++ {
		q.Sources = append(q.Sources, genPlainSrc(t, c, false, []int{4, 2, 1, 1}))
	}
	if depth > 1 {
		q.Sources[rapid.IntRange(0, n-1).Draw(t, "subSubAt")] = Src{Form: "sub", Sub: genSubQ(t, c, depth-1)}
	}
	return q
}

func genWhere(t *rapid.T, rec *kit.Rec, c *Case, instant func() int64) {
	g := &treeGen{t: t, nowNs: c.NowNs, rec: rec, instant: instant}
	if wpick(t, "hasWhere", 9, 1) == 0 {
		c.Where = g.node(1+wpick(t, "depth", 1, 2, 3, 3), false)
	}
}

func gen(rec *kit.Rec) func(t *rapid.T) Case {
	return func(t *rapid.T) Case {
		var c Case
		// ---- schedule
		if wpick(t, "sched", 3, 1) == 1 {
			c.Cron = genCron(t)
			c.ZoneOff = rapid.SampledFrom([]int{0, 0, 19800, -12600, 3600, -28800, 45900}).Draw(t, "zone")
		} else {
			c.Every = genDur(t, "every", []string{"ms", "s", "s", "m", "h", "u"})
			c.Align = rapid.Bool().Draw(t, "align")
		}
		c.Sib = rapid.SampledFrom([]string{"", "", "", "flux-first", "flux-last", "ql-first", "ql-last"}).Draw(t, "sibling")
		c.Period = genDur(t, "period", []string{"ms", "s", "s", "m", "h", "d"})
		if wpick(t, "period0", 24, 1) == 1 {
			c.Period.K = 0
		}
		if rapid.Bool().Draw(t, "hasOffset") {
			c.Offset = genDur(t, "offset", []string{"ms", "s", "m", "h", "u"})
		} else {
			c.Offset = Dur{0, "s"}
		}
		step := c.Every.Ns()
		if c.Cron != nil {
			step = c.Cron.M * 1e9
		}
		anchor := rapid.SampledFrom(anchors).Draw(t, "anchor")
		grid := truncNs(anchor, step)
		var phase int64
		switch wpick(t, "phaseKind", 1, 1, 1, 1, 1, 1, 3) {
		case 0:
			phase = 0
		case 1:
			phase = step/2 - 1
		case 2:
			phase = step / 2
		case 3:
			phase = step/2 + 1
		case 4:
			phase = step - 1
		case 5:
			phase = 1
		default:
			phase = rapid.Int64Range(0, 2*step).Draw(t, "phase")
		}
		if excludeAlignLatePhase && c.Align && phase%step >= (step+1)/2 {
			rec.Exclude("align() with a start whose phase within every is >= every/2 (timeTicker.Next rounds)")
			phase = phase % step / 2
		}
		c.StartNs = grid + phase
		n := int64(wpick(t, "nTicks", 1, 2, 3, 3, 2, 1, 1, 1, 1))
		delta := rapid.SampledFrom([]int64{0, 0, -1, 1, step / 2, step - 1, -phase, step - phase%step}).Draw(t, "stopDelta")
		c.StopNs = c.StartNs + n*step + delta
		ticks := refTicks(c)

		genStatement(t, rec, &c)
		genSources(t, &c, false)

		// ---- WHERE
		c.NowNs = (c.StopNs/1e6)*1e6 + rapid.SampledFrom([]int64{0, 3600e9, 86400e9, -60e9}).Draw(t, "nowDelta")
		per, off := c.Period.Ns(), c.Offset.Ns()
		genWhere(t, rec, &c, func() int64 {
			base := c.StartNs
			if len(ticks) > 0 {
				base = ticks[rapid.IntRange(0, len(ticks)-1).Draw(t, "tlTick")] - off
			}
			switch wpick(t, "tlKind", 1, 1, 1, 1, 1, 1, 1, 2) {
			case 0:
				return base // the stop edge of a query
			case 1:
				return base - per // the start edge
			case 2:
				return base - per/2
			case 3:
				return base - per - 1
			case 4:
				return base - 1
			case 5:
				return c.StartNs - 10*per - 86400e9 // before everything
			case 6:
				return c.StopNs + 86400e9 // after everything
			}
			return base - rapid.Int64Range(0, per+1).Draw(t, "tlIn")
		})
		c.MutIdx = rapid.IntRange(0, 8).Draw(t, "mut")
		c.ReplayPath = rapid.Bool().Draw(t, "replayPath")
		return c
	}
}

func genCron(t *rapid.T) *Cron {
	div60 := []int64{1, 2, 3, 4, 5, 6, 10, 12, 15, 20, 30}
	switch rapid.IntRange(0, 7).Draw(t, "cronKind") {
	case 0:
		n := rapid.SampledFrom(div60).Draw(t, "n")
		return &Cron{Expr: fmt.Sprintf("*/%d * * * *", n), M: n * 60, Kind: "minute-step"}
	case 1:
		n := rapid.SampledFrom(div60).Draw(t, "n")
		return &Cron{Expr: fmt.Sprintf("*/%d * * * * * *", n), M: n, Kind: "second-step"}
	case 2:
		m := int64(rapid.IntRange(0, 59).Draw(t, "min"))
		return &Cron{Expr: fmt.Sprintf("%d * * * *", m), M: 3600, R: m * 60, Kind: "hourly-at"}
	case 3:
		m, h := int64(rapid.IntRange(0, 59).Draw(t, "min")), int64(rapid.IntRange(0, 23).Draw(t, "hour"))
		return &Cron{Expr: fmt.Sprintf("%d %d * * *", m, h), M: 86400, R: h*3600 + m*60, Kind: "daily-at"}
	case 4:
		h := rapid.SampledFrom([]int64{1, 2, 3, 4, 6, 8, 12}).Draw(t, "n")
		return &Cron{Expr: fmt.Sprintf("0 */%d * * *", h), M: h * 3600, Kind: "hour-step"}
	case 5:
		s := int64(rapid.IntRange(0, 59).Draw(t, "sec"))
		return &Cron{Expr: fmt.Sprintf("%d * * * * * *", s), M: 60, R: s, Kind: "minutely-at-second"}
	case 6:
		return &Cron{Expr: "@hourly", M: 3600, Kind: "alias"}
	default:
		return &Cron{Expr: "@daily", M: 86400, Kind: "alias"}
	}
}

// ------------------------------------------------------------------ rendering

func (s Src) text() string {
	name := quoteIdent(s.Name)
	if s.Regex {
		name = "/" + s.Name + "/"
	}
	switch s.Form {
	case "sub":
		var srcs []string
		for _, in := range s.Sub.Sources {
			srcs = append(srcs, in.text())
		}
		return "(SELECT " + s.Sub.Fields + " FROM " + strings.Join(srcs, ", ") + s.Sub.Where + s.Sub.GroupBy + ")"
	case "norp":
		return quoteIdent(s.DB) + ".." + name
	case "bare":
		return name
	}
	return quoteIdent(s.DB) + "." + quoteIdent(s.RP) + "." + name
}

// userQuery is the statement as the user wrote it.
func (c Case) userQuery() string {
	var srcs []string
	for _, s := range c.Sources {
		srcs = append(srcs, s.text())
	}
	q := "SELECT " + c.Fields + " FROM " + strings.Join(srcs, ", ")
	if c.Where != nil {
		q += " WHERE " + c.Where.Text(c.NowNs)
	}
	return q + c.Tail
}

func tickStr(s string) string { return "'" + strings.ReplaceAll(s, `'`, `\'`) + "'" }

func (c Case) script() string {
	props := make([]string, 7)
	props[0] = ".period(" + c.Period.String() + ")"
	if c.Cron != nil {
		props[1] = ".cron('" + c.Cron.Expr + "')"
	} else {
		props[1] = ".every(" + c.Every.String() + ")"
	}
	if c.Offset.K != 0 {
		props[2] = ".offset(" + c.Offset.String() + ")"
	}
	if c.Align {
		props[3] = ".align()"
	}
	if len(c.GroupBy) > 0 {
		var ds []string
		for _, d := range c.GroupBy {
			switch d.Kind {
			case "time":
				if d.HasOff {
					ds = append(ds, "time("+d.Every.String()+", "+d.Off.String()+")")
				} else {
					ds = append(ds, "time("+d.Every.String()+")")
				}
			case "bare":
				ds = append(ds, d.Every.String())
			case "tag":
				ds = append(ds, tickStr(d.Tag))
			case "star":
				ds = append(ds, "*")
			}
		}
		props[4] = ".groupBy(" + strings.Join(ds, ", ") + ")"
	}
	if c.Fill != "" {
		props[5] = ".fill(" + c.Fill + ")"
	}
	if c.AlignGroup {
		props[6] = ".alignGroup()"
	}
	// the query goes into a triple-quoted TICKscript string (no escaping inside); the trailing
	// blank keeps a closing quote of the statement away from the delimiter
	s := "batch\n    |query('''" + c.userQuery() + " ''')\n"
	if c.Sib != "" {
		s = "var b = batch\nb\n    |query('''" + c.userQuery() + " ''')\n"
	}
	for _, i := range c.PropOrder {
		if props[i] != "" {
			s += "        " + props[i] + "\n"
		}
	}
	s += "    |log().prefix('S')\n"
	// the sibling node is marked by its cluster name (BatchQueries carries it)
	sib := ""
	switch {
	case strings.HasPrefix(c.Sib, "flux"):
		sib = "b\n    |queryFlux('from(bucket: \"x\") |> range(start: -1m)')\n        .period(1h)\n        .every(1h)\n        .cluster('sibling')\n    |log().prefix('X')\n"
	case strings.HasPrefix(c.Sib, "ql") && len(c.Declared) > 0:
		d := c.Declared[0]
		sib = "b\n    |query('SELECT v FROM " + influxql.QuoteIdent(d.DB) + "." + influxql.QuoteIdent(d.RP) + ".sib')\n        .period(1h)\n        .every(1h)\n        .cluster('sibling')\n    |log().prefix('X')\n"
	}
	switch {
	case sib == "":
	case strings.HasSuffix(c.Sib, "first"):
		s = strings.Replace(s, "var b = batch\n", "var b = batch\n"+sib, 1)
	default:
		s += sib
	}
	return s
}

func (c Case) timeDim() *Dim {
	for i := range c.GroupBy {
		if c.GroupBy[i].Kind == "time" || c.GroupBy[i].Kind == "bare" {
			return &c.GroupBy[i]
		}
	}
	return nil
}

// ------------------------------------------------------------------ structural comparison of re-parsed statements

func exprEqual(a, b influxql.Expr) bool {
	if a == nil || b == nil {
		return a == nil && b == nil
	}
	switch x := a.(type) {
	case *influxql.BinaryExpr:
		y, ok := b.(*influxql.BinaryExpr)
		return ok && x.Op == y.Op && exprEqual(x.LHS, y.LHS) && exprEqual(x.RHS, y.RHS)
	case *influxql.ParenExpr:
		y, ok := b.(*influxql.ParenExpr)
		return ok && exprEqual(x.Expr, y.Expr)
	case *influxql.Call:
		y, ok := b.(*influxql.Call)
		if !ok || x.Name != y.Name || len(x.Args) != len(y.Args) {
			return false
		}
		for i := range x.Args {
			if !exprEqual(x.Args[i], y.Args[i]) {
				return false
			}
		}
		return true
	case *influxql.VarRef:
		y, ok := b.(*influxql.VarRef)
		return ok && *x == *y
	case *influxql.Wildcard:
		y, ok := b.(*influxql.Wildcard)
		return ok && *x == *y
	case *influxql.Distinct:
		y, ok := b.(*influxql.Distinct)
		return ok && *x == *y
	case *influxql.IntegerLiteral:
		y, ok := b.(*influxql.IntegerLiteral)
		return ok && *x == *y
	case *influxql.NumberLiteral:
		y, ok := b.(*influxql.NumberLiteral)
		return ok && *x == *y // bit-equal: the literal must come back unchanged
	case *influxql.StringLiteral:
		y, ok := b.(*influxql.StringLiteral)
		return ok && *x == *y
	case *influxql.BooleanLiteral:
		y, ok := b.(*influxql.BooleanLiteral)
		return ok && *x == *y
	case *influxql.DurationLiteral:
		y, ok := b.(*influxql.DurationLiteral)
		return ok && *x == *y
	case *influxql.RegexLiteral:
		y, ok := b.(*influxql.RegexLiteral)
		return ok && x.String() == y.String()
	}
	return false
}

func fieldsEqual(a, b influxql.Fields) bool {
	if len(a) != len(b) {
		return false
	}
	for i := range a {
		if a[i].Alias != b[i].Alias || !exprEqual(a[i].Expr, b[i].Expr) {
			return false
		}
	}
	return true
}

func tailOf(s *influxql.SelectStatement) string {
	loc := ""
	if s.Location != nil {
		loc = s.Location.String()
	}
	return fmt.Sprintf("order=%q limit=%d offset=%d slimit=%d soffset=%d tz=%q", s.SortFields.String(), s.Limit, s.Offset, s.SLimit, s.SOffset, loc)
}

func parseSelect(q string) (*influxql.SelectStatement, error) {
	st, err := influxql.ParseStatement(q)
	if err != nil {
		return nil, err
	}
	sel, ok := st.(*influxql.SelectStatement)
	if !ok {
		return nil, fmt.Errorf("not a select statement: %T", st)
	}
	return sel, nil
}

// durArg reads a duration argument of a re-parsed time(...) call.
func durArg(e influxql.Expr) (int64, bool) {
	switch x := e.(type) {
	case *influxql.DurationLiteral:
		return int64(x.Val), true
	case *influxql.ParenExpr:
		return durArg(x.Expr)
	case *influxql.BinaryExpr:
		// a negative literal may come back as (0 - d) or (-1 * d)
		a, ok1 := durArg(x.LHS)
		b, ok2 := durArg(x.RHS)
		if il, ok := x.LHS.(*influxql.IntegerLiteral); ok && ok2 && x.Op == influxql.MUL {
			return il.Val * b, true
		}
		if ok1 && ok2 && x.Op == influxql.SUB {
			return a - b, true
		}
	}
	return 0, false
}

func mod(a, m int64) int64 { return ((a % m) + m) % m }

// ------------------------------------------------------------------ rows

func (c Case) assignments(n int) []uint32 {
	all := uint32(1)<<uint(n) - 1
	if n >= 32 {
		all = ^uint32(0)
	}
	set := map[uint32]bool{}
	var out []uint32
	add := func(m uint32) {
		m &= all
		if !set[m] {
			set[m] = true
			out = append(out, m)
		}
	}
	add(0)
	add(all)
	for i := 0; i < n && i < 32; i++ {
		add(1 << uint(i))
		add(all &^ (1 << uint(i)))
	}
	for _, m := range c.Masks {
		add(m)
	}
	return out
}

func rowVals(leaves []*Leaf, mask uint32) map[string]any {
	vals := map[string]any{}
	i := 0
	for _, l := range leaves {
		if l.Kind == "time" {
			continue
		}
		y, n := l.vals()
		if mask&(1<<uint(i%32)) != 0 {
			vals[l.Name] = y
		} else {
			vals[l.Name] = n
		}
		i++
	}
	return vals
}

func fmtRow(r Row) string {
	ks := kit.SortedKeys(r.Vals)
	s := "time=" + time.Unix(0, r.T).UTC().Format(time.RFC3339Nano)
	for _, k := range ks {
		s += fmt.Sprintf(" %s=%#v", k, r.Vals[k])
	}
	return s
}

func iso(ns int64) string { return time.Unix(0, ns).UTC().Format(time.RFC3339Nano) }

// ------------------------------------------------------------------ the check

type fakeInflux struct{ client *fakeClient }

func (c Case) declared() []kapacitor.DBRP {
	var out []kapacitor.DBRP
	for _, d := range c.Declared {
		out = append(out, kapacitor.DBRP{Database: d.DB, RetentionPolicy: d.RP})
	}
	return out
}

// sourcesVerdict: +1 every source is a declared (db, rp) pair; -1 some source reads from a
// pair the task did not declare: a fully qualified source that is not declared ("undeclared"),
// or a source that names the database but omits the retention policy, "db"..m ("omitted-rp":
// InfluxDB answers it from the DEFAULT retention policy of db, which Kapacitor does not know
// and which in this harness is never a declared one - the fake InfluxDB knows no retention
// policies at all; the pair such a source stands for, (db, ""), is never declared by the
// generator); 0 an unqualified source (m: no database at all) decides - left open: accept both.
func (c Case) sourcesVerdict() (int, string) {
	decl := map[DBRP]bool{}
	for _, d := range c.Declared {
		decl[d] = true
	}
	v, why := 1, ""
	for _, s := range c.Sources {
		switch s.Form {
		case "sub": // judged on the emitted queries (see subqueryCase)
		case "bare":
			if v == 1 {
				v = 0
			}
		case "norp":
			if !decl[DBRP{s.DB, ""}] && why == "" {
				v, why = -1, "omitted-rp"
			}
		default:
			if !decl[DBRP{s.DB, s.RP}] {
				return -1, "undeclared"
			}
		}
	}
	return v, why
}

func (s Src) subDepth() int {
	if s.Form != "sub" {
		return 0
	}
	d := 0
	for _, in := range s.Sub.Sources {
		if x := in.subDepth(); x > d {
			d = x
		}
	}
	return d + 1
}

// undeclaredSources walks the sources of a (re-parsed) statement to any depth and returns the
// measurements that read from a (db, rp) pair the task did not declare; a measurement that
// omits the retention policy counts as undeclared, one without a database is skipped (both
// as for top-level sources, see sourcesVerdict). n: the measurements seen.
func undeclaredSources(srcs influxql.Sources, declared []kapacitor.DBRP) (bad []string, n int) {
	decl := kapacitor.CreateDBRPMap(declared)
	var walk func(influxql.Sources)
	walk = func(srcs influxql.Sources) {
		for _, s := range srcs {
			switch s := s.(type) {
			case *influxql.Measurement:
				n++
				if s.Database == "" && s.RetentionPolicy == "" {
					continue
				}
				if !decl[kapacitor.DBRP{Database: s.Database, RetentionPolicy: s.RetentionPolicy}] {
					bad = append(bad, s.String())
				}
			case *influxql.SubQuery:
				walk(s.Statement.Sources)
			}
		}
	}
	walk(srcs)
	return bad, n
}

// subqueryCase judges a statement one of whose sources is a subquery. Such a statement may
// be refused (as built every subquery source is: "unknown query source"). If BatchQueries
// hands out queries, every measurement at any depth of every one of them must be a declared
// (db, rp) pair; if StartBatching starts the task, the same holds for the statement it will
// send (the user's: sources are never rewritten), and otherwise nothing may reach InfluxDB.
// Nothing else is asserted about such queries (their time range is not judged here).
func (c Case) subqueryCase(cc *kit.Case, et *kapacitor.ExecutingTask, fake *fakeClient, userSel *influxql.SelectStatement, bqs []kapacitor.BatchQueries, qerr error) {
	userQ := c.userQuery()
	if qerr != nil {
		cc.Label("dbrp:subquery-source/refused-by-batch-queries")
	} else {
		cc.Label("dbrp:subquery-source/accepted-by-batch-queries")
		for _, bq := range bqs {
			for i, q := range bq.Queries {
				em, err := parseSelect(q.String())
				if err != nil {
					cc.Fail("query/unparsable", "%s\nBatchQueries query %d %q does not parse: %v", c.script(), i, q.String(), err)
					return
				}
				if bad, _ := undeclaredSources(em.Sources, c.declared()); len(bad) > 0 {
					cc.Fail("dbrp/undeclared-accepted/subquery/batch-queries", "declared %v, query %q: BatchQueries returned no error and query %d\n    %s\nreads, through a subquery, from %v, which the task did not declare",
						c.Declared, userQ, i, q.String(), bad)
					return
				}
			}
		}
	}
	if c.ReplayPath {
		return
	}
	bad, _ := undeclaredSources(userSel.Sources, c.declared())
	if err := et.StartBatching(); err != nil {
		cc.Label("dbrp:subquery-source/refused-by-start-batching")
		if n := fake.count(); n != 0 {
			cc.Fail("dbrp/undeclared-queried", "declared %v, query %q: StartBatching failed (%v) but %d queries reached InfluxDB", c.Declared, userQ, err, n)
		}
		return
	}
	cc.Label("dbrp:subquery-source/accepted-by-start-batching")
	if len(bad) > 0 {
		cc.Fail("dbrp/undeclared-accepted/subquery/start-batching", "declared %v, query %q reads, through a subquery, from %v, which the task did not declare: StartBatching returned no error", c.Declared, userQ, bad)
	}
}

// declaredDB: the task declared some retention policy of the database.
func (c Case) declaredDB(db string) bool {
	for _, d := range c.Declared {
		if d.DB == db {
			return true
		}
	}
	return false
}

func hasTopLevelOr(n *Node) bool { return n != nil && n.Op == "or" }

func depthOf(n *Node) int {
	if n == nil {
		return 0
	}
	if n.Op == "leaf" {
		return 1
	}
	if n.Op == "paren" {
		return depthOf(n.L)
	}
	d := depthOf(n.L)
	if r := depthOf(n.R); r > d {
		d = r
	}
	return d + 1
}

func run(c Case, cc *kit.Case) {
	if c.ZoneOff != 0 {
		// the process-wide local zone, as TZ sets it for the daemon (cases run one at a time)
		time.Local = time.FixedZone("local", c.ZoneOff)
		defer func() { time.Local = time.UTC }()
		cc.Label("local-zone-not-utc")
	}
	script := c.script()
	userQ := c.userQuery()
	userSel, err := parseSelect(userQ)
	if err != nil {
		cc.Fail("harness/user-query-unparsable", "generated query %q does not parse: %v", userQ, err)
		return
	}
	// the user's statement after a String()/Parse round trip through influxql alone: a
	// difference here is a property of the serialiser kapacitor sends the statement through
	rtSel, _ := parseSelect(userSel.String())
	ticks := refTicks(c)
	leaves := c.Where.leaves(nil)
	nTime := 0
	for _, l := range leaves {
		if l.Kind == "time" {
			nTime++
		}
	}
	per, off := c.Period.Ns(), c.Offset.Ns()

	// ---- labels
	switch {
	case c.Cron != nil:
		cc.Label("sched:cron/" + c.Cron.Kind)
	case c.Align:
		cc.Label("sched:every+align")
		ph := c.StartNs - truncNs(c.StartNs, c.Every.Ns())
		switch {
		case ph == 0:
			cc.Label("align:start-on-grid")
		case ph >= (c.Every.Ns()+1)/2:
			cc.Label("align:start-phase>=every/2")
		default:
			cc.Label("align:start-phase<every/2")
		}
	default:
		cc.Label("sched:every")
	}
	switch len(ticks) {
	case 0:
		cc.Label("ticks:0")
	case 1:
		cc.Label("ticks:1")
	default:
		cc.Label("ticks:2+")
	}
	if len(ticks) > 0 && ticks[len(ticks)-1] == c.StopNs {
		cc.Label("tick-exactly-on-stop")
	}
	if off > 0 {
		cc.Label("offset>0")
	}
	if per == 0 {
		cc.Label("period=0")
	}
	if c.Where == nil {
		cc.Label("where:none")
	} else {
		cc.Label(fmt.Sprintf("where:depth=%d", depthOf(c.Where)))
		if hasTopLevelOr(c.Where) {
			cc.Label("where:top-level-or")
		}
		if nTime > 0 {
			cc.Label("where:user-time-predicate")
		}
	}
	if td := c.timeDim(); td != nil {
		cc.Label("groupby:time")
		if c.AlignGroup {
			cc.Label("groupby:time+alignGroup")
		}
	} else if len(c.GroupBy) > 0 {
		cc.Label("groupby:tags-only")
	}
	if c.Fill != "" {
		cc.Label("fill")
	}
	if c.Tail != "" {
		cc.Label("tail")
	}
	verdict, why := c.sourcesVerdict()
	subDepth := 0
	for _, src := range c.Sources {
		if d := src.subDepth(); d > subDepth {
			subDepth = d
		}
	}
	switch {
	case subDepth > 0:
		cc.Label(fmt.Sprintf("dbrp:subquery-source/depth=%d", subDepth))
		if len(c.Sources) > 1 {
			cc.Label("dbrp:subquery-source/beside-a-measurement")
		}
		if bad, _ := undeclaredSources(userSel.Sources, c.declared()); len(bad) > 0 {
			cc.Label("dbrp:subquery-source/reads-undeclared")
		} else {
			cc.Label("dbrp:subquery-source/all-declared")
		}
	case verdict == 1:
		cc.Label("dbrp:declared")
	case verdict == -1 && why == "omitted-rp":
		// the class that matters: nothing but the missing retention policy stands between the
		// query and a database the task is allowed to read
		all := true
		for _, s := range c.Sources {
			if s.Form == "norp" && !c.declaredDB(s.DB) {
				all = false
			}
		}
		if all {
			cc.Label("dbrp:omitted-rp/database-declared-with-other-rp")
		} else {
			cc.Label("dbrp:omitted-rp/database-undeclared")
		}
	case verdict == -1:
		cc.Label("dbrp:undeclared")
	default:
		cc.Label("dbrp:unqualified-source")
	}
	if c.ReplayPath {
		cc.Label("path:NewExecutingTask(replay service)")
	} else {
		cc.Label("path:StartTask")
	}

	// ---- the task
	fake := &fakeClient{}
	env, err := kit.NewEnv(kit.EnvOpts{Influx: fakeInflux{fake}})
	if err != nil {
		cc.Fail("harness/env", "env: %v", err)
		return
	}
	id := "t" + kit.Unique()
	defer func() {
		// a batch task that never started batching only stops once its collectors are closed
		for _, col := range env.TM.BatchCollectors(id) {
			col.Close()
		}
		env.Close()
	}()
	task, err := env.TM.NewTask(id, script, kapacitor.BatchTask, c.declared(), 0, nil)
	if err != nil {
		cc.Fail("harness/script-rejected", "NewTask rejected the script: %v\n%s", err, script)
		return
	}
	var et *kapacitor.ExecutingTask
	if c.ReplayPath {
		et, err = kapacitor.NewExecutingTask(env.TM.New(""), task)
	} else {
		et, err = env.TM.StartTask(task)
	}
	if err != nil {
		cc.Fail("harness/task-rejected", "the task could not be created: %v\n%s", err, script)
		return
	}
	start, stop := time.Unix(0, c.StartNs).UTC(), time.Unix(0, c.StopNs).UTC()
	bqs, qerr := et.BatchQueries(start, stop)

	// ---- a task may only query what it declared
	if subDepth > 0 {
		c.subqueryCase(cc, et, fake, userSel, bqs, qerr)
		return
	}
	if verdict == -1 {
		sigBase, reason := "dbrp/undeclared-accepted", "names a (db, rp) pair the task did not declare"
		if why == "omitted-rp" {
			sigBase, reason = "dbrp/omitted-rp-accepted", "omits the retention policy of a source: InfluxDB reads the database's default retention policy, which the task did not declare (it declared no pair with an empty retention policy)"
		}
		if qerr == nil {
			cc.Fail(sigBase+"/batch-queries", "declared %v, query %q %s: BatchQueries returned %d query lists and no error", c.Declared, userQ, reason, len(bqs))
			return
		}
		if !c.ReplayPath {
			if err := et.StartBatching(); err == nil {
				cc.Fail(sigBase+"/start-batching", "declared %v, query %q %s: StartBatching returned no error", c.Declared, userQ, reason)
				return
			}
			if n := fake.count(); n != 0 {
				cc.Fail("dbrp/undeclared-queried", "declared %v, query %q %s: %d queries reached InfluxDB", c.Declared, userQ, reason, n)
			}
		}
		return
	}
	if qerr != nil {
		if verdict == 0 {
			cc.Label("dbrp:unqualified-source-rejected")
			return
		}
		cc.Fail("dbrp/declared-rejected", "declared %v, query %q: BatchQueries failed: %v", c.Declared, userQ, qerr)
		return
	}
	if c.Sib != "" && len(bqs) == 2 {
		// drop the sibling node's list (marked by its cluster name)
		cc.Label("sibling-query-node:" + c.Sib)
		var own []kapacitor.BatchQueries
		for _, bq := range bqs {
			if bq.Cluster != "sibling" {
				own = append(own, bq)
			}
		}
		bqs = own
	}
	if len(bqs) != 1 {
		cc.Fail("query/list-count", "one query node under test, %d query lists", len(bqs))
		return
	}
	qs := bqs[0].Queries
	strs := make([]string, len(qs))
	for i, q := range qs {
		strs[i] = q.String()
	}
	if (hasTopLevelOr(c.Where) || nTime > 0) && len(ticks) > 0 {
		cc.NonTrivial()
	}

	// ---- schedule: the historical list is the list the live ticks of the span would issue
	obsStops := make([]int64, len(qs))
	for i, q := range qs {
		obsStops[i] = q.StopTime().UnixNano()
	}
	expStops := make([]int64, len(ticks))
	for i, tk := range ticks {
		expStops[i] = tk - off
	}
	if !equalInt64s(obsStops, expStops) {
		sig := "query/schedule/tick-times"
		if c.Align && len(expStops) == len(obsStops)+1 && equalInt64s(obsStops, expStops[1:]) {
			sig = "query/schedule/align-first-tick-skipped"
		} else if len(obsStops) == len(expStops) && len(obsStops) > 0 && obsStops[0]-expStops[0] == 2*off {
			sig = "query/schedule/offset-sign"
		}
		cc.Fail(sig, "%s\nBatchQueries(%s, %s): query stop times %s\nreference (ticks in (start, stop] minus offset %s): %s",
			script, iso(c.StartNs), iso(c.StopNs), isoList(obsStops), c.Offset, isoList(expStops))
		return
	}
	for i, q := range qs {
		if got := q.StartTime().UnixNano(); got != expStops[i]-per {
			cc.Fail("query/schedule/period", "%s\nquery %d: start time %s, stop time %s, period %s", script, i, iso(got), iso(expStops[i]), c.Period)
			return
		}
	}

	// ---- every query string
	x, sig, msg := newQcheck(c, userSel, rtSel)
	if sig != "" {
		cc.Fail(sig, "%s", msg)
		return
	}
	for i, s := range strs {
		what := fmt.Sprintf("BatchQueries(%s, %s) query %d (tick %s)", iso(c.StartNs), iso(c.StopNs), i, iso(ticks[i]))
		if sig, msg := x.query(what, s, expStops[i]-per, expStops[i]); sig != "" {
			cc.Fail(sig, "%s", msg)
			return
		}
	}
	if x.strictVerdict(cc) {
		return
	}

	// ---- the queries of a list are independent objects
	if len(qs) > 0 {
		j := c.MutIdx % len(qs)
		oldStart, oldStop := qs[j].StartTime(), qs[j].StopTime()
		qs[j].SetStartTime(time.Unix(86400, 0).UTC())
		qs[j].SetStopTime(time.Unix(2*86400, 0).UTC())
		for i, q := range qs {
			if i != j && q.String() != strs[i] {
				cc.Fail("query/clone/shared-state", "%s\nafter rewriting the times of query %d, query %d changed from %q to %q", script, j, i, strs[i], q.String())
				return
			}
		}
		qs[j].SetStartTime(oldStart)
		qs[j].SetStopTime(oldStop)
		if got := qs[j].String(); got != strs[j] {
			cc.Fail("query/clone/not-restorable", "%s\nquery %d: %q after restoring its times, was %q", script, j, got, strs[j])
			return
		}
		// a second call yields the same list (the first call left nothing behind)
		again, err := et.BatchQueries(start, stop)
		if c.Sib != "" && err == nil && len(again) == 2 {
			var own []kapacitor.BatchQueries
			for _, bq := range again {
				if bq.Cluster != "sibling" {
					own = append(own, bq)
				}
			}
			again = own
		}
		if err != nil || len(again) != 1 || len(again[0].Queries) != len(qs) {
			cc.Fail("query/not-repeatable", "%s\nsecond BatchQueries call: err=%v", script, err)
			return
		}
		for i, q := range again[0].Queries {
			if q.String() != strs[i] {
				cc.Fail("query/not-repeatable", "%s\nsecond BatchQueries call: query %d is %q, was %q", script, i, q.String(), strs[i])
				return
			}
		}
	}
	if n := fake.count(); n != 0 {
		cc.Fail("query/unexpected-live-query", "%d queries reached InfluxDB although batching was never started", n)
	}
}

// qcheck holds what is needed to judge one emitted query string against the user's statement.
type qcheck struct {
	c              Case
	script, userQ  string
	userSel, rtSel *influxql.SelectStatement
	userRed        reduced
	ownCond        *Node
	ownRange       rng
	leaves         []*Leaf
	masks          []uint32
	strictDiverges string
}

func newQcheck(c Case, userSel, rtSel *influxql.SelectStatement) (*qcheck, string, string) {
	x := &qcheck{c: c, script: c.script(), userQ: c.userQuery(), userSel: userSel, rtSel: rtSel}
	var err error
	x.userRed, err = reduceCond(userSel.Condition, c.NowNs)
	if err != nil {
		return nil, "harness/user-condition-reduce", fmt.Sprintf("ConditionExpr on the user's condition of %q: %v", x.userQ, err)
	}
	x.ownCond, x.ownRange = c.Where.promote()
	x.leaves = c.Where.leaves(nil)
	nTime := 0
	for _, l := range x.leaves {
		if l.Kind == "time" {
			nTime++
		}
	}
	x.masks = c.assignments(len(x.leaves) - nTime)
	return x, "", ""
}

// query judges one emitted query string: the statement is the user's (fields, sources,
// group by, fill, tail) and it selects exactly the rows the user's condition selects
// whose time lies in [S, E).
func (x *qcheck) query(what, s string, S, E int64) (string, string) {
	c, userSel, rtSel, userQ, script := x.c, x.userSel, x.rtSel, x.userQ, x.script
	per := c.Period.Ns()
	em, err := parseSelect(s)
	if err != nil {
		return "query/unparsable", fmt.Sprintf("%s\n%s %q does not parse: %v", script, what, s, err)
	}
	// fields, sources, group by, fill, tail
	if !fieldsEqual(em.Fields, userSel.Fields) {
		sig := "query/fields-altered"
		if rtSel != nil && !fieldsEqual(rtSel.Fields, userSel.Fields) {
			sig = "query/reserialisation-alters-literal/fields"
		}
		return sig, fmt.Sprintf("user query %q\nemitted      %q\nfields %q became %q", userQ, s, userSel.Fields.String(), em.Fields.String())
	}
	if em.Sources.String() != userSel.Sources.String() {
		return "query/sources-altered", fmt.Sprintf("user query %q\nemitted      %q\nsources %q became %q", userQ, s, userSel.Sources.String(), em.Sources.String())
	}
	if tailOf(em) != tailOf(userSel) {
		return "query/tail-altered", fmt.Sprintf("user query %q\nemitted      %q\n%s became %s", userQ, s, tailOf(userSel), tailOf(em))
	}
	if sig, msg := c.checkDims(em, S); sig != "" {
		return sig, fmt.Sprintf("%s\n%s: %q\n%s", script, what, s, msg)
	}
	if sig, msg := c.checkFill(em); sig != "" {
		return sig, fmt.Sprintf("%s\n%s: %q\n%s", script, what, s, msg)
	}
	// condition on rows
	emRed, err := reduceCond(em.Condition, c.NowNs)
	if err != nil {
		return "query/condition-not-reducible", fmt.Sprintf("%s\n%s %q: ConditionExpr: %v", script, what, s, err)
	}
	times := []int64{S - 1, S, S + 1, S + (E-S)/2, E - 1, E, E + 1, S - per - 7, E + per + 7, 0, 4102444800e9}
	for _, l := range x.leaves {
		if l.Kind == "time" {
			times = append(times, l.TNs-1, l.TNs, l.TNs+1)
		}
	}
	for _, m := range x.masks {
		vals := rowVals(x.leaves, m)
		for _, tm := range times {
			r := Row{T: tm, Vals: vals}
			inRange := S <= tm && tm < E
			// the user's selection, from the generated tree
			userOwn := x.ownRange.has(tm) && (x.ownCond == nil || x.ownCond.strict(r))
			userLib, err := x.userRed.selects(r, c.NowNs)
			if err != nil {
				return "harness/evaluator", fmt.Sprintf("user query %q on row %s: %v", userQ, fmtRow(r), err)
			}
			if userOwn != userLib {
				return "harness/user-semantics-model", fmt.Sprintf("user query %q, row %s: the generated tree selects=%v, the parsed and reduced text selects=%v", userQ, fmtRow(r), userOwn, userLib)
			}
			got, err := emRed.selects(r, c.NowNs)
			if err != nil {
				return "query/condition-not-evaluable", fmt.Sprintf("%s\n%s %q on row %s: %v", script, what, s, fmtRow(r), err)
			}
			want := userOwn && inRange
			if got != want {
				sig := "query/user-condition-altered"
				switch {
				case !userOwn && got:
					sig = "query/user-condition-altered/selects-row-the-user-excluded"
				case got && tm == E:
					sig = "query/time-bound/stop-edge-selected"
				case got && !inRange:
					sig = "query/time-bound/out-of-range-selected"
				case !got && tm == S:
					sig = "query/time-bound/start-edge-dropped"
				case !got && inRange && !emRed.tr.has(tm):
					sig = "query/time-bound/in-range-dropped"
				}
				if rtSel != nil && emRed.tr.has(tm) == (x.ownRange.has(tm) && inRange) {
					if rtRed, err := reduceCond(rtSel.Condition, c.NowNs); err == nil {
						if v, err := rtRed.selects(r, c.NowNs); err == nil && v != userLib {
							sig = "query/reserialisation-alters-literal/condition"
						}
					}
				}
				return sig, fmt.Sprintf("%s\n%s: %s\nrow: %s\nthe user's condition selects it: %v; time in [%s, %s): %v; so it must be selected: %v\nthe emitted query (time range %s, condition %v) selects it: %v",
					script, what, s, fmtRow(r), userOwn, iso(S), iso(E), inRange, want, emRed.tr, emRed.cond, got)
			}
			// strict boolean reading (label, or failure with VERIF_C16_STRICT=1)
			if x.strictDiverges == "" {
				sgot, err := evalBool(em.Condition, r, c.NowNs)
				if err != nil {
					return "query/condition-not-evaluable", fmt.Sprintf("%s\n%s %q on row %s: %v", script, what, s, fmtRow(r), err)
				}
				swant := inRange && (c.Where == nil || c.Where.strict(r))
				if sgot != swant {
					x.strictDiverges = fmt.Sprintf("%s\n%s: %s\nrow: %s\nstrict boolean reading: user condition AND time in [%s, %s) = %v, emitted text = %v", script, what, s, fmtRow(r), iso(S), iso(E), swant, sgot)
				}
			}
		}
	}
	// the extracted time range, exactly
	wantR := x.ownRange.and(rng{S, E - 1})
	if !(wantR.empty() && emRed.tr.empty()) && wantR != emRed.tr {
		return "query/time-bound/range", fmt.Sprintf("%s\n%s: %s\ntime range %s, want %s (user range %s, tick range [%s, %s))", script, what, s, emRed.tr, wantR, x.ownRange, iso(S), iso(E))
	}
	return "", ""
}

// strictVerdict records the strict-reading divergence (label; failure only with VERIF_C16_STRICT=1).
func (x *qcheck) strictVerdict(cc *kit.Case) bool {
	if x.strictDiverges == "" {
		return false
	}
	cc.Label("strict-boolean-reading-diverges")
	if !strictEnv() {
		return false
	}
	shape := "other"
	if hasTopLevelOr(x.c.Where) {
		shape = "top-level-or"
	}
	cc.Fail("query/time-bound-not-conjoined/"+shape, "%s", x.strictDiverges)
	return true
}

// checkDims compares the emitted GROUP BY with what .groupBy() says (pipeline/batch.go:
// "This property adds a GROUP BY clause to the query"); under alignGroup() "the group by time
// intervals [are aligned] with the start time of the query".
func (c Case) checkDims(em *influxql.SelectStatement, startNs int64) (string, string) {
	if len(em.Dimensions) != len(c.GroupBy) {
		return "query/group-by-altered", fmt.Sprintf("%d dimensions emitted, .groupBy() has %d", len(em.Dimensions), len(c.GroupBy))
	}
	for i, d := range c.GroupBy {
		e := em.Dimensions[i].Expr
		switch d.Kind {
		case "tag":
			v, ok := e.(*influxql.VarRef)
			if !ok || v.Val != d.Tag {
				return "query/group-by-altered", fmt.Sprintf("dimension %d is %s, want tag %q", i, e, d.Tag)
			}
		case "star":
			if _, ok := e.(*influxql.Wildcard); !ok {
				return "query/group-by-altered", fmt.Sprintf("dimension %d is %s, want *", i, e)
			}
		default:
			call, ok := e.(*influxql.Call)
			if !ok || call.Name != "time" || len(call.Args) < 1 || len(call.Args) > 2 {
				return "query/group-by-altered", fmt.Sprintf("dimension %d is %s, want time(%s, ...)", i, e, d.Every)
			}
			iv, ok := durArg(call.Args[0])
			if !ok || iv != d.Every.Ns() {
				return "query/group-by-altered", fmt.Sprintf("dimension %d is %s, want interval %s", i, e, d.Every)
			}
			var o int64
			if len(call.Args) == 2 {
				if o, ok = durArg(call.Args[1]); !ok {
					return "harness/group-by-offset", fmt.Sprintf("cannot read the offset of %s", e)
				}
			}
			userOff := int64(0)
			if d.HasOff {
				userOff = d.Off.Ns()
			}
			if !c.AlignGroup {
				if o != userOff {
					return "query/group-by-altered", fmt.Sprintf("dimension %d is %s, want offset %dns", i, e, userOff)
				}
				continue
			}
			// aligned with the start time of the query; a user offset is documented to apply on
			// top of the alignment, the live path replaces it: both are accepted
			if mod(o-startNs, iv) != 0 && mod(o-startNs-userOff, iv) != 0 {
				return "query/group-by/align-group-ignored", fmt.Sprintf("alignGroup(): dimension %d is %s; the query starts at %s, which is %dns into a %s interval, so the offset must be congruent to that", i, e, iso(startNs), mod(startNs, iv), d.Every)
			}
		}
	}
	return "", ""
}

func (c Case) checkFill(em *influxql.SelectStatement) (string, string) {
	want, wantVal := influxql.NullFill, any(nil)
	switch c.Fill {
	case "", "'null'":
	case "'none'":
		want = influxql.NoFill
	case "'previous'":
		want = influxql.PreviousFill
	case "'linear'":
		want = influxql.LinearFill
	default:
		want = influxql.NumberFill
		f, _ := strconv.ParseFloat(c.Fill, 64)
		wantVal = f
	}
	if em.Fill != want {
		return "query/fill-altered", fmt.Sprintf("fill option %v, .fill(%s) asks for %v", em.Fill, c.Fill, want)
	}
	if want == influxql.NumberFill {
		var got float64
		switch v := em.FillValue.(type) {
		case int64:
			got = float64(v)
		case float64:
			got = v
		default:
			return "query/fill-altered", fmt.Sprintf("fill value %#v, .fill(%s)", em.FillValue, c.Fill)
		}
		if got != wantVal.(float64) {
			return "query/fill-altered", fmt.Sprintf("fill value %v, .fill(%s)", got, c.Fill)
		}
	}
	return "", ""
}

func equalInt64s(a, b []int64) bool {
	if len(a) != len(b) {
		return false
	}
	for i := range a {
		if a[i] != b[i] {
			return false
		}
	}
	return true
}

func isoList(ts []int64) string {
	var s []string
	for _, t := range ts {
		s = append(s, iso(t))
	}
	return "[" + strings.Join(s, " ") + "]"
}

var assumptions = []string{
	"a WHERE clause is read the way InfluxQL reads it (influxql.ConditionExpr, trusted base): time comparisons anywhere in the tree are promoted to one time range and removed from the condition; the strict boolean reading of the emitted text is reported as a label only",
	"ticks of a span are those in (start, stop]: the first tick of every() is start+every; under align() the ticks are the multiples of every (Go time.Truncate grid) after start, as a live task started at 'start' produces them",
	"cron schedules are limited to a family whose occurrences are (t + zone offset) % M == R in unix seconds; the process's local zone is UTC or a generated fixed-offset zone (time.Local is set per case; no daylight-saving transitions)",
	"GROUP BY is written in .groupBy() and fill in .fill() (pipeline/batch.go: the query text must not contain a GROUP BY clause); a GROUP BY inside a subquery source is the subquery's own",
	"alignGroup(): the emitted group-by offset must make the interval boundaries coincide with the query's start time; with a user offset both 'aligned' and 'aligned plus the user offset' are accepted",
	"a fully qualified source must be one of the declared (db, rp) pairs, compared exactly (client/API.md: dbrps is the 'list of database retention policy pairs the task is allowed to access')",
	"a source that names the database but omits the retention policy (\"db\"..m) must be rejected by BatchQueries and StartBatching whatever other retention policies of db the task declared: InfluxDB answers it from the database's default retention policy, which Kapacitor does not know (the fake InfluxDB of the harness reports no retention policies, so the default is never a declared one); the generator never declares a pair with an empty retention policy (the kapacitor CLI refuses one: 'dbrp must specify retention policy'); the emitted sources are asserted to be the user's unchanged, so the check is the only guard",
	"a statement with a subquery source, FROM (SELECT ...), may be refused (as built every one is: Query.DBRPs 'unknown query source'); if BatchQueries hands out queries, every measurement at any depth of every re-parsed query must be a declared (db, rp) pair, and if StartBatching starts the task the same must hold for the user's statement (sources are sent as written), otherwise no query may reach InfluxDB; nothing else (time range, group by) is judged for such statements",
	"a source without a database (m) may be accepted or rejected (QueryNode.doQuery sends the statement without a database parameter, so no database is read)",
	"every leaf of the generated WHERE tree has its own tag/field key, so every truth assignment of the leaves is realisable by a row",
	"spans lie in the past (the 'query stop is after now' cut-off of BatchQueries is not exercised) and stop is not the zero time",
}

func TestQueries(t *testing.T) {
	r := kit.NewRec("C16", "Queries", rule, assumptions...)
	kit.Check(t, r, gen(r), run)
}

func TestReplayQueries(t *testing.T) {
	r := kit.NewRec("C16", "Queries", rule, assumptions...)
	kit.Replay(t, r, run)
}
