package c16

// The condition model of C16: the generated WHERE tree, its two readings, and a small
// evaluator for re-parsed influxql expressions on concrete rows.
//
// Two readings of a WHERE clause are implemented:
//
//   * the InfluxQL reading (the verdict): time comparisons anywhere in the tree are
//     promoted to one time range (the intersection of all of them) and removed from the
//     condition; the rest is an ordinary boolean expression over tags and fields. This is
//     what influxql.ConditionExpr does (ast.go: "Always intersect the time range even if it
//     makes no sense. There is no such thing as using OR with a time range"), it is what
//     InfluxDB's query compiler calls, and it is the reduction the property names as its
//     observation point.
//   * the strict boolean reading (label only, see strictEnv): the text is read as a plain
//     boolean expression with SQL precedence, time comparisons being ordinary leaves.

import (
	"fmt"
	"math"
	"regexp"
	"strconv"
	"strings"
	"time"

	"github.com/influxdata/influxql"
)

// ------------------------------------------------------------------ generated tree

type Leaf struct {
	Kind string  `json:"kind"` // tag | str | int | float | bool | arith | time
	Name string  `json:"name,omitempty"`
	Op   string  `json:"op"`             // = != <> < <= > >= =~ !~ (as read with the variable on the left)
	Flip bool    `json:"flip,omitempty"` // written with the literal on the left (operator mirrored in the text)
	S    string  `json:"s,omitempty"`    // tag/str: string operand
	RI   int     `json:"ri,omitempty"`   // tag/str with =~ !~: index into regexTable
	I    int64   `json:"i,omitempty"`    // int, arith: integer operand
	F    float64 `json:"f,omitempty"`    // float operand
	B    bool    `json:"b,omitempty"`    // bool operand
	AOp  string  `json:"aop,omitempty"`  // arith: + - *
	AK   int64   `json:"ak,omitempty"`   // arith: constant
	AP   bool    `json:"ap,omitempty"`   // arith: parentheses around the arithmetic
	Form string  `json:"form,omitempty"` // time: rfc | datetime | date | epochns | epochs | epochms | now
	TNs  int64   `json:"tns,omitempty"`  // time: the boundary instant (unix ns)
}

type Node struct {
	Op   string `json:"op"` // and | or | paren | leaf
	L    *Node  `json:"l,omitempty"`
	R    *Node  `json:"r,omitempty"`
	Leaf *Leaf  `json:"leaf,omitempty"`
}

var regexTable = []struct{ re, yes, no string }{
	{`^ab.*`, "abc", "xab"},
	{`c$`, "abc", "abd"},
	{`^(a|b)x$`, "bx", "cx"},
	{`a\.b`, "a.b", "aXb"},
	{`east|west`, "us-west", "north"},
	{`a\/b`, "a/b", "ab"},
	{`^[0-9]+$`, "042", "4x2"},
}

// Row is one concrete data row: a timestamp and a value for every tag/field key.
type Row struct {
	T    int64
	Vals map[string]any // string | int64 | float64 | bool
}

func quoteIdent(s string) string {
	return `"` + strings.NewReplacer(`\`, `\\`, `"`, `\"`, "\n", `\n`).Replace(s) + `"`
}

func quoteStr(s string) string {
	return `'` + strings.NewReplacer(`\`, `\\`, `'`, `\'`, "\n", `\n`).Replace(s) + `'`
}

func fmtFloat(f float64) string {
	s := strconv.FormatFloat(f, 'f', -1, 64)
	if !strings.Contains(s, ".") {
		s += ".0"
	}
	return s
}

var mirror = map[string]string{"=": "=", "!=": "!=", "<>": "<>", "<": ">", "<=": ">=", ">": "<", ">=": "<="}

// timeText renders the right-hand side of a user time predicate.
func (l *Leaf) timeText(nowNs int64) string {
	t := time.Unix(0, l.TNs).UTC()
	switch l.Form {
	case "rfc":
		return "'" + t.Format(time.RFC3339Nano) + "'"
	case "datetime":
		return "'" + t.Format("2006-01-02 15:04:05.999999999") + "'"
	case "date":
		return "'" + t.Format("2006-01-02") + "'"
	case "epochns":
		return strconv.FormatInt(l.TNs, 10)
	case "epochs":
		return strconv.FormatInt(l.TNs/1e9, 10) + "s"
	case "epochms":
		return strconv.FormatInt(l.TNs/1e6, 10) + "ms"
	case "now":
		d := nowNs - l.TNs // multiple of 1ms by construction
		switch {
		case d == 0:
			return "now()"
		case d > 0:
			return "now() - " + strconv.FormatInt(d/1e6, 10) + "ms"
		default:
			return "now() + " + strconv.FormatInt(-d/1e6, 10) + "ms"
		}
	}
	panic("time form " + l.Form)
}

func (l *Leaf) text(nowNs int64) string {
	var lhs, rhs string
	switch l.Kind {
	case "tag", "str":
		lhs = quoteIdent(l.Name)
		if l.Op == "=~" || l.Op == "!~" {
			return lhs + " " + l.Op + " /" + regexTable[l.RI].re + "/"
		}
		rhs = quoteStr(l.S)
	case "int":
		lhs, rhs = quoteIdent(l.Name), strconv.FormatInt(l.I, 10)
	case "float":
		lhs, rhs = quoteIdent(l.Name), fmtFloat(l.F)
	case "bool":
		lhs, rhs = quoteIdent(l.Name), strconv.FormatBool(l.B)
	case "arith":
		lhs = quoteIdent(l.Name) + " " + l.AOp + " " + strconv.FormatInt(l.AK, 10)
		if l.AP {
			lhs = "(" + lhs + ")"
		}
		rhs = strconv.FormatInt(l.I, 10)
	case "time":
		lhs, rhs = "time", l.timeText(nowNs)
	default:
		panic("leaf kind " + l.Kind)
	}
	if l.Flip {
		return rhs + " " + mirror[l.Op] + " " + lhs
	}
	return lhs + " " + l.Op + " " + rhs
}

// Text renders the tree. Parentheses appear exactly where the tree has a paren node; the
// generator inserts one wherever precedence needs it (an OR under an AND).
func (n *Node) Text(nowNs int64) string {
	switch n.Op {
	case "leaf":
		return n.Leaf.text(nowNs)
	case "paren":
		return "(" + n.L.Text(nowNs) + ")"
	case "and":
		return n.L.Text(nowNs) + " AND " + n.R.Text(nowNs)
	case "or":
		return n.L.Text(nowNs) + " OR " + n.R.Text(nowNs)
	}
	panic("node op " + n.Op)
}

func (n *Node) leaves(out []*Leaf) []*Leaf {
	if n == nil {
		return out
	}
	if n.Op == "leaf" {
		return append(out, n.Leaf)
	}
	return n.R.leaves(n.L.leaves(out))
}

func cmpInt(a, b int64, op string) bool {
	switch op {
	case "=":
		return a == b
	case "!=", "<>":
		return a != b
	case "<":
		return a < b
	case "<=":
		return a <= b
	case ">":
		return a > b
	case ">=":
		return a >= b
	}
	panic("op " + op)
}

func cmpFloat(a, b float64, op string) bool {
	switch op {
	case "=":
		return a == b
	case "!=", "<>":
		return a != b
	case "<":
		return a < b
	case "<=":
		return a <= b
	case ">":
		return a > b
	case ">=":
		return a >= b
	}
	panic("op " + op)
}

// vals returns a value of the leaf's variable that makes the leaf true and one that makes
// it false (non-time leaves; every leaf has its own variable).
func (l *Leaf) vals() (yes, no any) {
	switch l.Kind {
	case "tag", "str":
		switch l.Op {
		case "=":
			return l.S, l.S + "~"
		case "!=", "<>":
			return l.S + "~", l.S
		case "=~":
			return regexTable[l.RI].yes, regexTable[l.RI].no
		case "!~":
			return regexTable[l.RI].no, regexTable[l.RI].yes
		}
	case "bool":
		if l.Op == "=" {
			return l.B, !l.B
		}
		return !l.B, l.B
	case "int":
		return pickInt(l.I, l.Op)
	case "float":
		d := math.Abs(l.F) / 2
		if d == 0 {
			d = 1
		}
		switch l.Op {
		case "=":
			return l.F, l.F + d
		case "!=", "<>":
			return l.F + d, l.F
		case "<":
			return l.F - d, l.F
		case "<=":
			return l.F, l.F + d
		case ">":
			return l.F + d, l.F
		case ">=":
			return l.F, l.F - d
		}
	case "arith":
		// name AOp AK  Op  I ; choose x with (x AOp AK) on either side of I
		y, n := pickInt(l.I, l.Op)
		inv := func(v int64) int64 {
			switch l.AOp {
			case "+":
				return v - l.AK
			case "-":
				return v + l.AK
			}
			return v / l.AK // "*": I and its neighbours are multiples of AK by construction
		}
		if l.AOp == "*" {
			// neighbours at distance AK keep divisibility
			yy, nn := pickIntStep(l.I, l.Op, abs64(l.AK))
			return inv(yy), inv(nn)
		}
		return inv(y.(int64)), inv(n.(int64))
	}
	panic("vals " + l.Kind + " " + l.Op)
}

func abs64(a int64) int64 {
	if a < 0 {
		return -a
	}
	return a
}

func pickInt(k int64, op string) (any, any) {
	y, n := pickIntStep(k, op, 1)
	return y, n
}

func pickIntStep(k int64, op string, d int64) (int64, int64) {
	switch op {
	case "=":
		return k, k + d
	case "!=", "<>":
		return k + d, k
	case "<":
		return k - d, k
	case "<=":
		return k, k + d
	case ">":
		return k + d, k
	case ">=":
		return k, k - d
	}
	panic("op " + op)
}

// eval evaluates a leaf of the generated tree on a row, directly from its meaning.
func (l *Leaf) eval(r Row) bool {
	if l.Kind == "time" {
		return cmpInt(r.T, l.TNs, l.Op)
	}
	v := r.Vals[l.Name]
	switch l.Kind {
	case "tag", "str":
		s := v.(string)
		switch l.Op {
		case "=":
			return s == l.S
		case "!=", "<>":
			return s != l.S
		case "=~":
			return regexp.MustCompile(regexTable[l.RI].re).MatchString(s)
		case "!~":
			return !regexp.MustCompile(regexTable[l.RI].re).MatchString(s)
		}
	case "bool":
		if l.Op == "=" {
			return v.(bool) == l.B
		}
		return v.(bool) != l.B
	case "int":
		return cmpInt(v.(int64), l.I, l.Op)
	case "float":
		return cmpFloat(v.(float64), l.F, l.Op)
	case "arith":
		x := v.(int64)
		switch l.AOp {
		case "+":
			x += l.AK
		case "-":
			x -= l.AK
		case "*":
			x *= l.AK
		}
		return cmpInt(x, l.I, l.Op)
	}
	panic("eval " + l.Kind + " " + l.Op)
}

// strict is the plain boolean reading of the generated tree.
func (n *Node) strict(r Row) bool {
	switch n.Op {
	case "leaf":
		return n.Leaf.eval(r)
	case "paren":
		return n.L.strict(r)
	case "and":
		return n.L.strict(r) && n.R.strict(r)
	case "or":
		return n.L.strict(r) || n.R.strict(r)
	}
	panic("node op " + n.Op)
}

// rng is an inclusive range of unix-nanosecond instants.
type rng struct{ lo, hi int64 }

var fullRange = rng{math.MinInt64, math.MaxInt64}

func (a rng) and(b rng) rng {
	if b.lo > a.lo {
		a.lo = b.lo
	}
	if b.hi < a.hi {
		a.hi = b.hi
	}
	return a
}
func (a rng) has(t int64) bool { return a.lo <= t && t <= a.hi }
func (a rng) empty() bool      { return a.lo > a.hi }
func (a rng) String() string {
	f := func(v int64) string {
		if v == math.MinInt64 {
			return "-inf"
		}
		if v == math.MaxInt64 {
			return "+inf"
		}
		return time.Unix(0, v).UTC().Format(time.RFC3339Nano)
	}
	return "[" + f(a.lo) + " .. " + f(a.hi) + "]"
}

func (l *Leaf) timeRange() rng {
	switch l.Op {
	case ">":
		return rng{l.TNs + 1, math.MaxInt64}
	case ">=":
		return rng{l.TNs, math.MaxInt64}
	case "<":
		return rng{math.MinInt64, l.TNs - 1}
	case "<=":
		return rng{math.MinInt64, l.TNs}
	}
	panic("time op " + l.Op)
}

// promote is the InfluxQL reading of the generated tree: the time range (intersection of
// every time comparison in the tree) and the condition without the time comparisons
// (nil: no condition left).
func (n *Node) promote() (*Node, rng) {
	if n == nil {
		return nil, fullRange
	}
	switch n.Op {
	case "leaf":
		if n.Leaf.Kind == "time" {
			return nil, n.Leaf.timeRange()
		}
		return n, fullRange
	case "paren":
		c, r := n.L.promote()
		if c == nil {
			return nil, r
		}
		return &Node{Op: "paren", L: c}, r
	}
	lc, lr := n.L.promote()
	rc, rr := n.R.promote()
	r := lr.and(rr)
	switch {
	case lc == nil:
		return rc, r
	case rc == nil:
		return lc, r
	}
	return &Node{Op: n.Op, L: lc, R: rc}, r
}

// ------------------------------------------------------------------ evaluator for influxql expressions

type tval int64 // an instant

var timeFormats = []string{time.RFC3339Nano, "2006-01-02 15:04:05.999999999", "2006-01-02"}

func toInstant(v any) (int64, error) {
	switch x := v.(type) {
	case tval:
		return int64(x), nil
	case int64:
		return x, nil
	case float64:
		return int64(x), nil
	case time.Duration:
		return int64(x), nil
	case string:
		for _, f := range timeFormats {
			if t, err := time.ParseInLocation(f, x, time.UTC); err == nil {
				return t.UnixNano(), nil
			}
		}
		return 0, fmt.Errorf("not a time string: %q", x)
	}
	return 0, fmt.Errorf("%T is not comparable with time", v)
}

// evalExpr evaluates a re-parsed InfluxQL expression on a row (plain expression semantics).
func evalExpr(e influxql.Expr, r Row, nowNs int64) (any, error) {
	switch e := e.(type) {
	case *influxql.ParenExpr:
		return evalExpr(e.Expr, r, nowNs)
	case *influxql.VarRef:
		if strings.EqualFold(e.Val, "time") {
			return tval(r.T), nil
		}
		v, ok := r.Vals[e.Val]
		if !ok {
			return nil, fmt.Errorf("unknown key %q", e.Val)
		}
		return v, nil
	case *influxql.IntegerLiteral:
		return e.Val, nil
	case *influxql.NumberLiteral:
		return e.Val, nil
	case *influxql.StringLiteral:
		return e.Val, nil
	case *influxql.BooleanLiteral:
		return e.Val, nil
	case *influxql.DurationLiteral:
		return e.Val, nil
	case *influxql.TimeLiteral:
		return tval(e.Val.UnixNano()), nil
	case *influxql.RegexLiteral:
		return e.Val, nil
	case *influxql.Call:
		if e.Name == "now" && len(e.Args) == 0 {
			return tval(nowNs), nil
		}
		return nil, fmt.Errorf("call %s", e.Name)
	case *influxql.BinaryExpr:
		a, err := evalExpr(e.LHS, r, nowNs)
		if err != nil {
			return nil, err
		}
		b, err := evalExpr(e.RHS, r, nowNs)
		if err != nil {
			return nil, err
		}
		return evalBinary(e.Op, a, b)
	}
	return nil, fmt.Errorf("expression %T", e)
}

var opText = map[influxql.Token]string{influxql.EQ: "=", influxql.NEQ: "!=", influxql.LT: "<", influxql.LTE: "<=", influxql.GT: ">", influxql.GTE: ">="}

func evalBinary(op influxql.Token, a, b any) (any, error) {
	switch op {
	case influxql.AND, influxql.OR:
		x, ok1 := a.(bool)
		y, ok2 := b.(bool)
		if !ok1 || !ok2 {
			return nil, fmt.Errorf("%s on %T, %T", op, a, b)
		}
		if op == influxql.AND {
			return x && y, nil
		}
		return x || y, nil
	case influxql.EQREGEX, influxql.NEQREGEX:
		s, ok1 := a.(string)
		re, ok2 := b.(*regexp.Regexp)
		if !ok1 || !ok2 {
			return nil, fmt.Errorf("%s on %T, %T", op, a, b)
		}
		return re.MatchString(s) == (op == influxql.EQREGEX), nil
	case influxql.ADD, influxql.SUB, influxql.MUL:
		if t, ok := a.(tval); ok {
			d, ok := b.(time.Duration)
			if !ok || op == influxql.MUL {
				return nil, fmt.Errorf("time %s %T", op, b)
			}
			if op == influxql.ADD {
				return t + tval(d), nil
			}
			return t - tval(d), nil
		}
		x, ok1 := a.(int64)
		y, ok2 := b.(int64)
		if ok1 && ok2 {
			switch op {
			case influxql.ADD:
				return x + y, nil
			case influxql.SUB:
				return x - y, nil
			}
			return x * y, nil
		}
		fx, ok1 := toFloat(a)
		fy, ok2 := toFloat(b)
		if !ok1 || !ok2 {
			return nil, fmt.Errorf("%s on %T, %T", op, a, b)
		}
		switch op {
		case influxql.ADD:
			return fx + fy, nil
		case influxql.SUB:
			return fx - fy, nil
		}
		return fx * fy, nil
	}
	ot, ok := opText[op]
	if !ok {
		return nil, fmt.Errorf("operator %s", op)
	}
	_, at := a.(tval)
	_, bt := b.(tval)
	if at || bt {
		x, err := toInstant(a)
		if err != nil {
			return nil, err
		}
		y, err := toInstant(b)
		if err != nil {
			return nil, err
		}
		return cmpInt(x, y, ot), nil
	}
	switch x := a.(type) {
	case string:
		y, ok := b.(string)
		if !ok || (ot != "=" && ot != "!=") {
			return nil, fmt.Errorf("%s on string, %T", op, b)
		}
		return (x == y) == (ot == "="), nil
	case bool:
		y, ok := b.(bool)
		if !ok || (ot != "=" && ot != "!=") {
			return nil, fmt.Errorf("%s on bool, %T", op, b)
		}
		return (x == y) == (ot == "="), nil
	case int64:
		if y, ok := b.(int64); ok {
			return cmpInt(x, y, ot), nil
		}
	}
	fx, ok1 := toFloat(a)
	fy, ok2 := toFloat(b)
	if !ok1 || !ok2 {
		return nil, fmt.Errorf("%s on %T, %T", op, a, b)
	}
	return cmpFloat(fx, fy, ot), nil
}

func toFloat(v any) (float64, bool) {
	switch x := v.(type) {
	case int64:
		return float64(x), true
	case float64:
		return x, true
	}
	return 0, false
}

func evalBool(e influxql.Expr, r Row, nowNs int64) (bool, error) {
	if e == nil {
		return true, nil
	}
	v, err := evalExpr(e, r, nowNs)
	if err != nil {
		return false, err
	}
	b, ok := v.(bool)
	if !ok {
		return false, fmt.Errorf("condition evaluates to %T", v)
	}
	return b, nil
}

// reduced is the InfluxQL reading of a parsed condition, obtained with the influxql
// package's own ConditionExpr (trusted base).
type reduced struct {
	cond influxql.Expr
	tr   rng
}

func reduceCond(cond influxql.Expr, nowNs int64) (reduced, error) {
	if cond == nil {
		return reduced{nil, fullRange}, nil
	}
	c, tr, err := influxql.ConditionExpr(influxql.CloneExpr(cond), &influxql.NowValuer{Now: time.Unix(0, nowNs).UTC()})
	if err != nil {
		return reduced{}, err
	}
	out := reduced{cond: c, tr: fullRange}
	if !tr.Min.IsZero() {
		out.tr.lo = tr.Min.UnixNano()
	}
	if !tr.Max.IsZero() {
		out.tr.hi = tr.Max.UnixNano()
	}
	return out, nil
}

func (d reduced) selects(r Row, nowNs int64) (bool, error) {
	if !d.tr.has(r.T) {
		return false, nil
	}
	return evalBool(d.cond, r, nowNs)
}
