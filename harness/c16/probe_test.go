package c16

import (
	"context"
	"sync"
	"testing"
	"time"

	"verifharness/kit"

	"github.com/influxdata/flux"
	"github.com/influxdata/influxql"
	"github.com/influxdata/kapacitor"
	"github.com/influxdata/kapacitor/influxdb"
)

type pfake struct {
	mu sync.Mutex
	qs []string
}

func (f *pfake) Ping(ctx context.Context) (time.Duration, string, error) { return 0, "", nil }
func (f *pfake) Write(bp influxdb.BatchPoints) error                     { return nil }
func (f *pfake) WriteV2(w influxdb.FluxWrite) error                      { return nil }
func (f *pfake) Query(q influxdb.Query) (*influxdb.Response, error) {
	f.mu.Lock()
	f.qs = append(f.qs, q.Command)
	f.mu.Unlock()
	return &influxdb.Response{}, nil
}
func (f *pfake) QueryFlux(q influxdb.FluxQuery) (flux.ResultIterator, error) { return nil, nil }
func (f *pfake) QueryFluxResponse(q influxdb.FluxQuery) (*influxdb.Response, error) {
	return &influxdb.Response{}, nil
}
func (f *pfake) CreateBucketV2(bucket string, org string, orgID string) error { return nil }
func (f *pfake) NewNamedClient(name string) (influxdb.Client, error)        { return f, nil }

func TestProbe(t *testing.T) {
	scripts := []string{
		`batch|query('SELECT v FROM "db"."rp"."m" WHERE a = 1 OR b = 2').period(10s).every(5s)|log().prefix('S')`,
		`batch|query('SELECT mean(v) FROM "db"."rp"."m" WHERE time > now() - 1h AND "host" =~ /^a.*/ ').period(10s).every(7s).align().offset(3s).groupBy(time(2s, -1s), 'host', *).fill(1.5)|log().prefix('S')`,
		`batch|query('SELECT mean(v) FROM "db"."rp"."m"').period(10s).every(4s).align().groupBy(time(3s)).alignGroup().fill('none')|log().prefix('S')`,
		`batch|query('SELECT mean(v) FROM "db"."rp"."m" WHERE time >= \'2020-01-01T00:00:00Z\' AND time < 1600000000s ORDER BY time DESC LIMIT 5 tz(\'Europe/Berlin\')').period(10s).cron('*/5 * * * * * *').groupBy(*).fill('null')|log().prefix('S')`,
		`batch|query('SELECT v FROM "db".."m", "db"."rp"./x.*/, m2').period(10s).every(5s)|log().prefix('S')`,
		`batch|query('SELECT v FROM "db2"."rp"."m"').period(10s).every(5s)|log().prefix('S')`,
		`batch|query('SELECT count(v) FROM "db"."rp"."m" GROUP BY time(10s)').period(10s).every(5s)|log().prefix('S')`,
		`batch|query('SELECT v FROM "db"."rp"."m"').period(10s).every(5s).fill(3)|log().prefix('S')`,
		`batch|query('SELECT v FROM "db"."rp"."m" WHERE "f" + 1 > 3 AND ("x y" = \'it\\\'s\' OR "b" = true)').period(0s).every(1500ms).offset(1u)|log().prefix('S')`,
	}
	for _, s := range scripts {
		f := &pfake{}
		env, err := kit.NewEnv(kit.EnvOpts{Influx: f})
		if err != nil {
			t.Fatal(err)
		}
		t.Log("SCRIPT", s)
		id := "t" + kit.Unique()
		closeAll := func() {
			for _, c := range env.TM.BatchCollectors(id) {
				c.Close()
			}
			env.Close()
		}
		et, err := env.StartTask(id, s, kapacitor.BatchTask, nil)
		if err != nil {
			t.Log("  start err:", err)
			env.Close()
			continue
		}
		start := time.Date(2020, 3, 1, 10, 0, 7, 500, time.UTC)
		bqs, err := et.BatchQueries(start, start.Add(16*time.Second))
		if err != nil {
			t.Log("  bq err:", err)
			closeAll()
			continue
		}
		for _, bq := range bqs {
			for _, q := range bq.Queries {
				t.Log("  Q", q.String(), q.StartTime().UTC(), q.StopTime().UTC())
				st, err := influxql.ParseStatement(q.String())
				if err != nil {
					t.Log("    reparse err:", err)
					continue
				}
				sel := st.(*influxql.SelectStatement)
				t.Logf("    cond=%T dims=%v fill=%v/%v", sel.Condition, sel.Dimensions, sel.Fill, sel.FillValue)
			}
		}
		closeAll()
	}
}
