package c16

// Unit Live: the live path (StartBatching -> QueryNode.doQuery) against the fake InfluxDB
// with every = 10-30 ms for a handful of ticks, compared with the historical path.
//
// Nothing is claimed about wall-clock spacing. Each observed query must be a well-formed
// query of the user's statement for its own tick (tick = stop + offset, stop - start =
// period), every tick lies between the instant batching was started and the instant the
// query arrived (causal order; one 'every' of slack for the rounding align() does), and - the property's last sentence
// about schedules - the historical list of a span ending at a live tick contains exactly
// that live query: BatchQueries(tick - every + phase, tick) returns one query whose text is
// the text that went to InfluxDB.
//
// Slow answers: the fake InfluxDB can hold the answer to one generated query (StallAt) for a
// generated time. While QueryNode.doQuery waits nobody takes ticks: the ones that pass are
// held (a bounded number) or dropped. Whatever happens to them, a query issued well after the
// slow answer came back is again issued on a tick of its own time: its tick is not older than
// the answer to the query three before it (lower causal bound, see liveAssumptions). Unit
// Live mixes in short stalls (a few ticks dropped, every other assertion must still hold);
// unit LiveStall (same case type, same run function) holds one answer for 2.5-3 s - longer
// than the slack of the causal bounds - so that a tick time that is counted, cached or
// otherwise detached from the clock shows as a time range that lags behind the schedule.
//
// Unit LiveCron (same case type, same run function): the schedule is a .cron() expression
// with a seconds field (the finest a cron schedule offers: one tick per 1-3 s), run live for
// 2-4 ticks. On top of the Live assertions the tick recovered from every live query
// (stop + offset) must be a time of the cron schedule - exactly, to the nanosecond: the tick
// IS the scheduled time, not the instant somebody woke up for it - because that is what makes
// the live query the query the historical list holds for that tick. After the per-tick
// comparison the historical list of the whole span covered by the live ticks is compared with
// the live queries as a list (units whose ticks lie on a grid: cron and align()).

import (
	"fmt"
	"testing"
	"time"

	"verifharness/kit"

	"github.com/influxdata/kapacitor"
	"pgregory.net/rapid"
)

type LiveCase struct {
	Case
	NTicks int     `json:"nticks"`
	Phases []int64 `json:"phases"` // per tick: where in [0, every) before the tick the historical span starts (align only; else 0)
	// the fake InfluxDB holds the answer to live query number StallAt (0-based) for StallNs; 0: no stall
	StallAt int   `json:"stall_at,omitempty"`
	StallNs int64 `json:"stall_ns,omitempty"`
}

const liveRule = "rapid: live StartBatching against a fake InfluxDB, every 10-30 ms (with/without align), period/offset/groupBy/alignGroup/fill/WHERE tree without time predicates, 4-8 ticks, one case in three with one answer held for 2-8 ticks, " +
	"each compared with BatchQueries over a span ending at that tick with a generated phase; non-trivial = align() or alignGroup() with a group-by-time dimension or a top-level OR; distinct by case hash"

const liveStallRule = "rapid: the Live case family (every 10-30 ms, align() in 3 of 4 cases) with the answer to one of the first three live queries held by the fake InfluxDB for 2.5-3 s (100-300 ticks pass unread), " +
	"then 3-5 more queries; all Live assertions plus the lower causal bound on every tick; non-trivial = align() (the ticker whose tick times are computed by kapacitor, not by the Go ticker); distinct by case hash"

const liveCronRule = "rapid: live StartBatching against a fake InfluxDB on a .cron() schedule with a seconds field (every second / every 2nd / every 3rd second, several spellings, residue 0 or 1), " +
	"period/offset/groupBy (intervals around 1 s)/alignGroup/fill/WHERE tree without time predicates, 2-4 ticks (1-3 s apart), one case in four with one answer held for 1.2-2.5 s (a tick waits or is skipped), " +
	"each live query compared with BatchQueries over a span ending at its tick with a generated phase within the cron step, then the whole span at once; non-trivial = every case that saw >= 2 live queries (a cron schedule executed against the wall clock); distinct by case hash"

// cronCausalSlack: how far a cron tick may lie before StartBatching or after the arrival of its
// own query (both never happen; the slack covers adjustments of the wall clock between two
// readings 1-3 s apart).
const cronCausalSlack = int64(500 * time.Millisecond)

// pendingTicks: how many ticks can be waiting for the query node while it is busy.
const pendingTicks = 2

var liveAssumptions = []string{
	"live ticks are wall-clock instants: only relations between a query and its own tick and causal bounds (tick not before StartBatching, not after the query's arrival, one 'every' of slack plus 2 s) are asserted; the order of ticks is not asserted (not robust on an oversubscribed machine: the Go ticker can deliver pending values out of order, align() can round two late ticks onto one boundary) - inversions and repeats are labels",
	"a live task whose first tick is T was started in [T-every, T); the historical span used for the comparison starts at T-every+phase with phase in [0, every) (0 without align)",
	"no user time predicates in the live unit (the tick is recovered from the query's own time range)",
	"lower causal bound (from the code, batch.go): QueryNode.doQuery handles one tick at a time (take a tick, send the query, wait for the answer); of the ticks that pass meanwhile at most two are kept - one value in the Go ticker's channel and, under align(), one in the goroutine that rounds it - the rest is dropped by time.Ticker; hence the tick of live query i happened after the answer to query i-3 was handed back: stop+offset >= returned(i-3) - every (align() rounds to the nearest boundary) - 2 s (the slack of the other causal bounds). The fake InfluxDB holds one generated answer (slow InfluxDB) to open a gap the bound can see; a query further behind was not issued on the tick it claims - its range is not [tick-offset-period, tick-offset) for the tick that triggered it",
	"whole-span comparison (schedules whose ticks lie on a grid: align() and cron): a task started at first-step+phase (phase in [0, step), the generated phase of the first tick) has the grid times first, first+step, ..., last as its ticks up to 'last'; BatchQueries over that span must return exactly that many queries and the live query of every observed tick must be the entry at its place. Live ticks may be missing (dropped while the node was busy) or repeated - a missing tick is not a failure, the historical list is what live ticks 'would have issued'",
}

var liveCronAssumptions = append(append([]string(nil), liveAssumptions...),
	"cron, live: 'ticks follow cron()' is read as: the tick time a live query is built from (stop + offset; pipeline/batch.go: 'If the cron specifies to run every Sunday at 1 AM and the Offset is 1 hour. Then at 1 AM on Sunday the data from 12 AM will be queried') is the scheduled time itself, to the nanosecond - the wake-up latency of the process is not part of it. This is what the property's last clause needs: the historical list (cronTicker.Next) holds the scheduled times, so a live query is 'the query of its tick' only if it carries the same instant",
	"cron expressions of the live unit have a seconds field (7 fields, gorhill/cronexpr) and step 1, 2 or 3 s (divisors of 60: the occurrences are the whole seconds t with t % M == R); the local zone is UTC (whole-minute zone offsets do not move such schedules); coarser schedules would need minutes per case",
	"cron, live: the cron ticker hands over one tick at a time (unbuffered channel, batch.go) and computes the next occurrence after the hand-over, so at most one tick waits for a busy node and occurrences that pass meanwhile are skipped; skipped and repeated ticks are labels, not failures",
	"cron, live, causal window (from the code, batch.go cronTicker.Start): the first tick is the first occurrence after the instant the ticker was started and a tick is handed over only after a timer set to its distance has fired (Go timers do not fire early); hence StartBatching < tick <= arrival of its query, on one wall clock. Asserted with 500 ms of slack (half the finest cron step) for adjustments of the wall clock between the two readings - a tick further in the future is the occurrence after the one that triggered the query",
)

// genLive: longStall false - unit Live (one case in three has a short stall of 2-8 ticks);
// true - unit LiveStall (every case has a stall of 2.5-3 s).
func genLive(rec *kit.Rec, longStall bool) func(t *rapid.T) LiveCase {
	return func(t *rapid.T) LiveCase {
		var c LiveCase
		c.Every = Dur{int64(10 + wpick(t, "everyMs", 3, 1, 1, 1, 1)*5), "ms"}
		if longStall {
			c.Align = wpick(t, "alignW", 1, 3) == 1
		} else {
			c.Align = rapid.Bool().Draw(t, "align")
		}
		c.Period = rapid.SampledFrom([]Dur{{10, "ms"}, {35, "ms"}, {1, "s"}, {3, "m"}, {1, "h"}, {0, "ms"}, {7, "ms"}}).Draw(t, "period")
		c.Offset = rapid.SampledFrom([]Dur{{0, "s"}, {0, "s"}, {3, "ms"}, {1, "s"}, {1, "h"}, {24, "h"}, {10, "ms"}}).Draw(t, "offset")
		genStatement(t, rec, &c.Case)
		// group-by-time intervals that interact with a 10-30 ms schedule
		for i := range c.GroupBy {
			if d := &c.GroupBy[i]; d.Kind == "time" || d.Kind == "bare" {
				d.Every = rapid.SampledFrom([]Dur{{7, "ms"}, {20, "ms"}, {1, "s"}, {1, "m"}, {3, "ms"}}).Draw(t, "gbEveryLive")
			}
		}
		genSources(t, &c.Case, true)
		genWhere(t, rec, &c.Case, nil)
		c.NTicks = 4 + wpick(t, "nticks", 1, 1, 1, 1, 1)
		// ---- one slow answer, pendingTicks queries the lower bound says nothing sharp about, then 1-3 on which it bites
		switch {
		case longStall:
			c.StallAt = wpick(t, "stallAt", 1, 1, 1)
			c.StallNs = rapid.SampledFrom([]int64{2500e6, 3000e6}).Draw(t, "stallNs")
			c.NTicks = c.StallAt + pendingTicks + 2 + wpick(t, "after", 1, 1, 1)
		case wpick(t, "stall", 2, 1) == 1:
			c.StallAt = wpick(t, "stallAt", 1, 1, 1)
			c.StallNs = rapid.SampledFrom([]int64{2, 3, 5, 8}).Draw(t, "stallTicks") * c.Every.Ns()
			if n := c.StallAt + pendingTicks + 2; c.NTicks < n {
				c.NTicks = n
			}
		}
		for i := 0; i < c.NTicks; i++ {
			var ph int64
			if c.Align {
				e := c.Every.Ns()
				switch wpick(t, "phaseKind", 1, 1, 1, 1, 1, 3) {
				case 0:
					ph = 0
				case 1:
					ph = e/2 - 1
				case 2:
					ph = e / 2
				case 3:
					ph = e - 1
				case 4:
					ph = 1
				default:
					ph = rapid.Int64Range(0, e-1).Draw(t, "phase")
				}
				if excludeAlignLatePhase && ph >= (e+1)/2 {
					rec.Exclude("align() with a start whose phase within every is >= every/2 (timeTicker.Next rounds)")
					ph /= 2
				}
			}
			c.Phases = append(c.Phases, ph)
		}
		return c
	}
}

// liveCrons: cron expressions with a seconds field whose occurrences are t % M == R (whole
// seconds, any zone with a whole-minute offset). Several spellings of the same schedule: the
// expression goes through gorhill/cronexpr, the reference is arithmetic.
var liveCrons = []Cron{
	{Expr: "* * * * * * *", M: 1, Kind: "live/every-second"},
	{Expr: "*/1 * * * * * *", M: 1, Kind: "live/every-second"},
	{Expr: "0-59 * * * * * *", M: 1, Kind: "live/every-second"},
	{Expr: "0-59/1 * * * * * *", M: 1, Kind: "live/every-second"},
	{Expr: "*/2 * * * * * *", M: 2, Kind: "live/second-step-2"},
	{Expr: "0-59/2 * * * * * *", M: 2, Kind: "live/second-step-2"},
	{Expr: "1-59/2 * * * * * *", M: 2, R: 1, Kind: "live/second-step-2+1"},
	{Expr: "*/3 * * * * * *", M: 3, Kind: "live/second-step-3"},
}

// genLiveCron: unit LiveCron. The case takes (first tick: up to M s) + (NTicks-1)*M s + stall.
func genLiveCron(rec *kit.Rec) func(t *rapid.T) LiveCase {
	return func(t *rapid.T) LiveCase {
		var c LiveCase
		cr := liveCrons[wpick(t, "cron", 3, 2, 1, 1, 2, 1, 2, 1)]
		c.Cron = &cr
		c.Period = rapid.SampledFrom([]Dur{{1, "s"}, {10, "s"}, {1500, "ms"}, {3, "m"}, {1, "h"}, {0, "ms"}, {7, "ms"}}).Draw(t, "period")
		c.Offset = rapid.SampledFrom([]Dur{{0, "s"}, {0, "s"}, {3, "ms"}, {2, "s"}, {500, "ms"}, {1, "h"}, {24, "h"}}).Draw(t, "offset")
		genStatement(t, rec, &c.Case)
		// group-by-time intervals that interact with a schedule of whole seconds
		for i := range c.GroupBy {
			if d := &c.GroupBy[i]; d.Kind == "time" || d.Kind == "bare" {
				d.Every = rapid.SampledFrom([]Dur{{1, "s"}, {2, "s"}, {3, "s"}, {700, "ms"}, {1, "m"}, {7, "ms"}}).Draw(t, "gbEveryLive")
			}
		}
		genSources(t, &c.Case, true)
		genWhere(t, rec, &c.Case, nil)
		m := cr.M * 1e9
		switch cr.M {
		case 1:
			c.NTicks = 2 + wpick(t, "nticks", 1, 2, 1)
		default:
			c.NTicks = 2
		}
		// one slow answer: the waiting tick is handed over late (1.2 s: none skipped at M = 1;
		// 2.5 s: one or two occurrences pass unused), the ticks after it are on the schedule again
		if cr.M == 1 && wpick(t, "stall", 3, 1) == 1 {
			c.StallAt = wpick(t, "stallAt", 1, 1)
			c.StallNs = rapid.SampledFrom([]int64{1200e6, 2500e6}).Draw(t, "stallNs")
			if n := c.StallAt + 3; c.NTicks < n {
				c.NTicks = n
			}
		}
		for i := 0; i < c.NTicks; i++ {
			var ph int64
			switch wpick(t, "phaseKind", 1, 1, 1, 1, 1, 3) {
			case 0:
				ph = 0
			case 1:
				ph = m/2 - 1
			case 2:
				ph = m / 2
			case 3:
				ph = m - 1
			case 4:
				ph = 1
			default:
				ph = rapid.Int64Range(0, m-1).Draw(t, "phase")
			}
			c.Phases = append(c.Phases, ph)
		}
		return c
	}
}

// onCronSchedule: t (ns) is an occurrence of the restricted cron family (local zone UTC).
func (c Cron) onSchedule(t int64) bool {
	m, r := c.M*1e9, c.R*1e9
	return ((t-r)%m+m)%m == 0
}

// liveHangBound: >= 1000 x the 0.04-0.25 s a case needs (plus the time the fake itself holds an
// answer). A cron case waits for the schedule itself - (NTicks+1) * step + stall <= 12 s of wall
// clock by construction, not work - and the bound then allows 288 s of latency on top of it
// (normally milliseconds).
const liveHangBound = 300 * time.Second

func runLive(lc LiveCase, cc *kit.Case) {
	c := lc.Case
	script := c.script()
	userQ := c.userQuery()
	userSel, err := parseSelect(userQ)
	if err != nil {
		cc.Fail("harness/user-query-unparsable", "generated query %q does not parse: %v", userQ, err)
		return
	}
	rtSel, _ := parseSelect(userSel.String())
	every, per, off := c.Every.Ns(), c.Period.Ns(), c.Offset.Ns()
	if c.Cron != nil {
		every = c.Cron.M * 1e9 // the step of the schedule
	}
	td := c.timeDim()

	switch {
	case c.Cron != nil:
		cc.Label("live:cron")
		cc.Label("sched:cron/" + c.Cron.Kind)
	case c.Align:
		cc.Label("live:align")
	default:
		cc.Label("live:every")
	}
	if td != nil {
		cc.Label("groupby:time")
		if c.AlignGroup {
			cc.Label("groupby:time+alignGroup")
		}
	}
	if off > 0 {
		cc.Label("offset>0")
	}
	if hasTopLevelOr(c.Where) {
		cc.Label("where:top-level-or")
	}
	long := lc.StallNs >= int64(2*time.Second)
	switch {
	case lc.StallNs == 0:
		cc.Label("live:no-stall")
	case long:
		cc.Label("live:stall>=2s")
	default:
		cc.Label(fmt.Sprintf("live:stall=%d-ticks", lc.StallNs/every))
	}
	if lc.StallNs > 0 && c.Align {
		cc.Label("live:align+stall")
	}
	if c.Cron != nil {
		// counted below, once two live queries were seen
	} else if long {
		if c.Align {
			cc.NonTrivial()
		}
	} else if c.Align || (td != nil && c.AlignGroup) || hasTopLevelOr(c.Where) {
		cc.NonTrivial()
	}

	// ---- live
	fake := &fakeClient{wake: make(chan struct{}, 1), stallAt: lc.StallAt, stall: time.Duration(lc.StallNs)}
	env, err := kit.NewEnv(kit.EnvOpts{Influx: fakeInflux{fake}})
	if err != nil {
		cc.Fail("harness/env", "env: %v", err)
		return
	}
	defer env.Close()
	id := "t" + kit.Unique()
	task, err := env.TM.NewTask(id, script, kapacitor.BatchTask, c.declared(), 0, nil)
	if err != nil {
		cc.Fail("harness/script-rejected", "NewTask rejected the script: %v\n%s", err, script)
		return
	}
	et, err := env.TM.StartTask(task)
	if err != nil {
		cc.Fail("harness/task-rejected", "StartTask: %v\n%s", err, script)
		return
	}
	t0 := time.Now()
	if err := et.StartBatching(); err != nil {
		cc.Fail("dbrp/declared-rejected", "declared %v, query %q: StartBatching failed: %v", c.Declared, userQ, err)
		return
	}
	deadline := time.NewTimer(liveHangBound + time.Duration(lc.StallNs))
	defer deadline.Stop()
	for fake.count() < lc.NTicks {
		select {
		case <-fake.wake:
		case <-deadline.C:
			cc.Fail("live/no-ticks", "%s\nonly %d queries reached InfluxDB within %s of StartBatching", script, fake.count(), liveHangBound)
			return
		}
	}
	if err := env.TM.StopTask(id); err != nil {
		cc.Label("live:stop-error")
	}
	obs, at, ret := fake.snapshot()

	// ---- the historical path: a second task of the same definition, never started
	task2, err := env.TM.NewTask("h"+id, script, kapacitor.BatchTask, c.declared(), 0, nil)
	if err != nil {
		cc.Fail("harness/script-rejected", "NewTask rejected the script: %v\n%s", err, script)
		return
	}
	hist, err := kapacitor.NewExecutingTask(env.TM.New(""), task2)
	if err != nil {
		cc.Fail("harness/task-rejected", "NewExecutingTask: %v\n%s", err, script)
		return
	}

	x, sig, msg := newQcheck(c, userSel, rtSel)
	if sig != "" {
		cc.Fail(sig, "%s", msg)
		return
	}
	slack := every + int64(2*time.Second)
	var prevTick int64
	var ticks []int64    // the ticks of the live queries, in order of arrival
	staleAfterStall := 0 // queries after the slow answer whose tick passed before it came back
	for i, s := range obs {
		em, err := parseSelect(s)
		if err != nil {
			cc.Fail("query/unparsable", "%s\nlive query %d %q does not parse: %v", script, i, s, err)
			return
		}
		red, err := reduceCond(em.Condition, 0)
		if err != nil || red.tr.lo == fullRange.lo || red.tr.hi == fullRange.hi {
			cc.Fail("query/time-bound/missing", "%s\nlive query %d %q: time range %s (err %v)", script, i, s, red.tr, err)
			return
		}
		S, E := red.tr.lo, red.tr.hi+1
		if E-S != per {
			cc.Fail("query/schedule/period", "%s\nlive query %d: %s\ncovers [%s, %s), period is %s", script, i, s, iso(S), iso(E), c.Period)
			return
		}
		tick := E + off
		what := fmt.Sprintf("live query %d (tick %s)", i, iso(tick))
		if sig, msg := x.query(what, s, S, E); sig != "" {
			cc.Fail(sig, "%s", msg)
			return
		}
		if c.Align && truncNs(tick, every) != tick {
			cc.Fail("live/tick-not-aligned", "%s\n%s: %s\nstop + offset = %s is not a multiple of %s", script, what, s, iso(tick), c.Every)
			return
		}
		// cron: the tick is a time of the schedule, exactly
		if c.Cron != nil && !c.Cron.onSchedule(tick) {
			cc.Fail("live/cron-tick-off-schedule", "%s\n%s: %s\nstop + offset = %s is not a time of the schedule cron('%s') (whole seconds t with t %% %d == %d); the query arrived at %s. "+
				"The range asked for is [%s, %s) instead of [T-offset-period, T-offset) for the scheduled T, and no historical list holds this query",
				script, what, s, iso(tick), c.Cron.Expr, c.Cron.M, c.Cron.R, iso(at[i].UnixNano()), iso(S), iso(E))
			return
		}
		ticks = append(ticks, tick)
		// The order of ticks is NOT asserted. It was, and it is not robust: with the machine
		// oversubscribed (load > 100 on 16 cores) the Go runtime delivered two pending ticker
		// values out of order (one sender was descheduled between reading the clock and
		// sending), 10 of 32000 cases: the query node then issues the older tick second. Under
		// align() the code also rounds two late ticks onto the same boundary. Both are labels.
		if i > 0 && tick < prevTick {
			cc.Label("live:tick-order-inversion")
		}
		// cron: no rounding and no ticker period between the clock and the tick - the tick is an
		// occurrence after StartBatching that has been reached when its query arrives
		cslack := slack
		if c.Cron != nil {
			cslack = cronCausalSlack
		}
		if tick < t0.UnixNano()-cslack || tick > at[i].UnixNano()+cslack {
			sig := "live/tick-outside-causal-window"
			if d := tick - at[i].UnixNano(); off > 0 && d > 2*off-slack && d < 2*off+slack {
				sig = "query/schedule/offset-sign"
			}
			cc.Fail(sig, "%s\n%s: %s\nbatching started at %s, the query arrived at %s, stop + offset = %s", script, what, s, iso(t0.UnixNano()), iso(at[i].UnixNano()), iso(tick))
			return
		}
		// lower causal bound: at most pendingTicks ticks wait for the node while it is busy, so
		// this tick happened after the answer to query i-pendingTicks-1 was handed back
		if j := i - pendingTicks - 1; j >= 0 && !ret[j].IsZero() && tick < ret[j].UnixNano()-slack {
			cc.Fail("live/tick-lags-behind-schedule", "%s\n%s: %s\nthe answer to live query %d was handed back at %s (the fake InfluxDB holds the answer to query %d for %s); this query arrived at %s, %d queries later, "+
				"and is labelled with a tick %s before that answer: at most %d ticks can have been waiting, so it was not issued on the tick whose range it asks for (its range lags behind the schedule)",
				script, what, s, j, iso(ret[j].UnixNano()), lc.StallAt, time.Duration(lc.StallNs), iso(at[i].UnixNano()), i-j, time.Duration(ret[j].UnixNano()-tick), pendingTicks)
			return
		}
		if lc.StallNs > 0 && i > lc.StallAt && lc.StallAt >= 0 && !ret[lc.StallAt].IsZero() && tick < ret[lc.StallAt].UnixNano()-every {
			staleAfterStall++
		}
		if i > 0 && tick == prevTick {
			cc.Label("live:repeated-tick")
		}
		if c.Cron != nil && i > 0 && tick > prevTick+every {
			cc.Label("live:cron-occurrence-skipped")
		}
		prevTick = tick

		// historical counterpart
		if i >= len(lc.Phases) {
			continue
		}
		for time.Now().UnixNano() <= tick { // BatchQueries cuts the list at "now"
			time.Sleep(time.Millisecond)
		}
		hs := tick - every + lc.Phases[i]
		bqs, err := hist.BatchQueries(time.Unix(0, hs).UTC(), time.Unix(0, tick).UTC())
		if err != nil || len(bqs) != 1 {
			cc.Fail("query/historical-failed", "%s\nBatchQueries(%s, %s): %d lists, err %v", script, iso(hs), iso(tick), len(bqs), err)
			return
		}
		var hstrs []string
		for _, q := range bqs[0].Queries {
			hstrs = append(hstrs, q.String())
		}
		if len(hstrs) == 1 && hstrs[0] == s {
			continue
		}
		sig = "query/live-vs-historical-differ"
		switch {
		case len(hstrs) == 0 && c.Align:
			sig = "query/schedule/align-first-tick-skipped"
		case len(hstrs) != 1:
			sig = "query/schedule/tick-times"
		default:
			if hm, err := parseSelect(hstrs[0]); err == nil {
				if hm.Dimensions.String() != em.Dimensions.String() && c.AlignGroup && td != nil {
					sig = "query/group-by/align-group-ignored"
				}
			}
		}
		cc.Fail(sig, "%s\nlive tick %s issued\n    %s\na task started at %s (phase %dns after the previous boundary/tick) has this as its first tick, but BatchQueries(%s, %s) returns %d queries\n    %v",
			script, iso(tick), s, iso(hs), lc.Phases[i], iso(hs), iso(tick), len(hstrs), hstrs)
		return
	}
	if long {
		cc.Label(fmt.Sprintf("live:ticks-kept-during-long-stall=%d", staleAfterStall))
	}
	if c.Cron != nil && len(ticks) >= 2 {
		cc.NonTrivial()
	}
	// ---- the whole span at once (ticks on a grid): the historical list of the span the live
	// ticks cover holds, at the place of every observed tick, the query that tick issued
	if (c.Cron != nil || c.Align) && len(ticks) > 0 && len(lc.Phases) > 0 {
		first, last := ticks[0], ticks[0]
		for _, tk := range ticks {
			if tk < first {
				first = tk
			}
			if tk > last {
				last = tk
			}
		}
		for time.Now().UnixNano() <= last { // BatchQueries cuts the list at "now"
			time.Sleep(time.Millisecond)
		}
		hs := first - every + lc.Phases[0]
		bqs, err := hist.BatchQueries(time.Unix(0, hs).UTC(), time.Unix(0, last).UTC())
		if err != nil || len(bqs) != 1 {
			cc.Fail("query/historical-failed", "%s\nBatchQueries(%s, %s): %d lists, err %v", script, iso(hs), iso(last), len(bqs), err)
			return
		}
		hq := bqs[0].Queries
		if want := (last-first)/every + 1; int64(len(hq)) != want {
			var hstrs []string
			for _, q := range hq {
				if len(hstrs) < 12 {
					hstrs = append(hstrs, q.String())
				}
			}
			cc.Fail("query/schedule/tick-times", "%s\nlive ticks from %s to %s (step %s): BatchQueries(%s, %s) returns %d queries, the schedule has %d ticks in that span\n    %v",
				script, iso(first), iso(last), time.Duration(every), iso(hs), iso(last), len(hq), want, hstrs)
			return
		}
		for i, tk := range ticks {
			if hstr := hq[(tk-first)/every].String(); hstr != obs[i] {
				cc.Fail("query/live-vs-historical-differ", "%s\nlive tick %s issued\n    %s\nentry %d of BatchQueries(%s, %s) - the query of that tick in the historical list of the whole live span (%d queries) - is\n    %s",
					script, iso(tk), obs[i], (tk-first)/every, iso(hs), iso(last), len(hq), hstr)
				return
			}
		}
		cc.Label("live:whole-span-compared")
	}
	x.strictVerdict(cc)
}

func TestLive(t *testing.T) {
	r := kit.NewRec("C16", "Live", liveRule, liveAssumptions...)
	kit.Check(t, r, genLive(r, false), runLive)
}

func TestLiveStall(t *testing.T) {
	r := kit.NewRec("C16", "LiveStall", liveStallRule, liveAssumptions...)
	kit.Check(t, r, genLive(r, true), runLive)
}

func TestReplayLiveStall(t *testing.T) {
	r := kit.NewRec("C16", "LiveStall", liveStallRule, liveAssumptions...)
	kit.Replay(t, r, runLive)
}

func TestLiveCron(t *testing.T) {
	r := kit.NewRec("C16", "LiveCron", liveCronRule, liveCronAssumptions...)
	kit.Check(t, r, genLiveCron(r), runLive)
}

func TestReplayLiveCron(t *testing.T) {
	r := kit.NewRec("C16", "LiveCron", liveCronRule, liveCronAssumptions...)
	kit.Replay(t, r, runLive)
}

func TestReplayLive(t *testing.T) {
	r := kit.NewRec("C16", "Live", liveRule, liveAssumptions...)
	kit.Replay(t, r, runLive)
}
