package c16

// Unit Live: the live path (StartBatching -> QueryNode.doQuery) against the fake InfluxDB
// with every = 10-30 ms for a handful of ticks, compared with the historical path.
//
// Nothing is claimed about wall-clock spacing. Each observed query must be a well-formed
// query of the user's statement for its own tick (tick = stop + offset, stop - start =
// period), every tick lies between the instant batching was started and the instant the
// query arrived (causal order; one 'every' of slack for the rounding align() does), and - the property's last sentence
// about schedules - the historical list of a span ending at a live tick contains exactly
// that live query: BatchQueries(tick - every + phase, tick) returns one query whose text is
// the text that went to InfluxDB.
//
// Slow answers: the fake InfluxDB can hold the answer to one generated query (StallAt) for a
// generated time. While QueryNode.doQuery waits nobody takes ticks: the ones that pass are
// held (a bounded number) or dropped. Whatever happens to them, a query issued well after the
// slow answer came back is again issued on a tick of its own time: its tick is not older than
// the answer to the query three before it (lower causal bound, see liveAssumptions). Unit
// Live mixes in short stalls (a few ticks dropped, every other assertion must still hold);
// unit LiveStall (same case type, same run function) holds one answer for 2.5-3 s - longer
// than the slack of the causal bounds - so that a tick time that is counted, cached or
// otherwise detached from the clock shows as a time range that lags behind the schedule.

import (
	"fmt"
	"testing"
	"time"

	"verifharness/kit"

	"github.com/influxdata/kapacitor"
	"pgregory.net/rapid"
)

type LiveCase struct {
	Case
	NTicks int     `json:"nticks"`
	Phases []int64 `json:"phases"` // per tick: where in [0, every) before the tick the historical span starts (align only; else 0)
	// the fake InfluxDB holds the answer to live query number StallAt (0-based) for StallNs; 0: no stall
	StallAt int   `json:"stall_at,omitempty"`
	StallNs int64 `json:"stall_ns,omitempty"`
}

const liveRule = "rapid: live StartBatching against a fake InfluxDB, every 10-30 ms (with/without align), period/offset/groupBy/alignGroup/fill/WHERE tree without time predicates, 4-8 ticks, one case in three with one answer held for 2-8 ticks, " +
	"each compared with BatchQueries over a span ending at that tick with a generated phase; non-trivial = align() or alignGroup() with a group-by-time dimension or a top-level OR; distinct by case hash"

const liveStallRule = "rapid: the Live case family (every 10-30 ms, align() in 3 of 4 cases) with the answer to one of the first three live queries held by the fake InfluxDB for 2.5-3 s (100-300 ticks pass unread), " +
	"then 3-5 more queries; all Live assertions plus the lower causal bound on every tick; non-trivial = align() (the ticker whose tick times are computed by kapacitor, not by the Go ticker); distinct by case hash"

// pendingTicks: how many ticks can be waiting for the query node while it is busy.
const pendingTicks = 2

var liveAssumptions = []string{
	"live ticks are wall-clock instants: only relations between a query and its own tick and causal bounds (tick not before StartBatching, not after the query's arrival, one 'every' of slack plus 2 s) are asserted; the order of ticks is not asserted (not robust on an oversubscribed machine: the Go ticker can deliver pending values out of order, align() can round two late ticks onto one boundary) - inversions and repeats are labels",
	"a live task whose first tick is T was started in [T-every, T); the historical span used for the comparison starts at T-every+phase with phase in [0, every) (0 without align)",
	"no user time predicates in the live unit (the tick is recovered from the query's own time range)",
	"lower causal bound (from the code, batch.go): QueryNode.doQuery handles one tick at a time (take a tick, send the query, wait for the answer); of the ticks that pass meanwhile at most two are kept - one value in the Go ticker's channel and, under align(), one in the goroutine that rounds it - the rest is dropped by time.Ticker; hence the tick of live query i happened after the answer to query i-3 was handed back: stop+offset >= returned(i-3) - every (align() rounds to the nearest boundary) - 2 s (the slack of the other causal bounds). The fake InfluxDB holds one generated answer (slow InfluxDB) to open a gap the bound can see; a query further behind was not issued on the tick it claims - its range is not [tick-offset-period, tick-offset) for the tick that triggered it",
}

// genLive: longStall false - unit Live (one case in three has a short stall of 2-8 ticks);
// true - unit LiveStall (every case has a stall of 2.5-3 s).
func genLive(rec *kit.Rec, longStall bool) func(t *rapid.T) LiveCase {
	return func(t *rapid.T) LiveCase {
		var c LiveCase
		c.Every = Dur{int64(10 + wpick(t, "everyMs", 3, 1, 1, 1, 1)*5), "ms"}
		if longStall {
			c.Align = wpick(t, "alignW", 1, 3) == 1
		} else {
			c.Align = rapid.Bool().Draw(t, "align")
		}
		c.Period = rapid.SampledFrom([]Dur{{10, "ms"}, {35, "ms"}, {1, "s"}, {3, "m"}, {1, "h"}, {0, "ms"}, {7, "ms"}}).Draw(t, "period")
		c.Offset = rapid.SampledFrom([]Dur{{0, "s"}, {0, "s"}, {3, "ms"}, {1, "s"}, {1, "h"}, {24, "h"}, {10, "ms"}}).Draw(t, "offset")
		genStatement(t, rec, &c.Case)
		// group-by-time intervals that interact with a 10-30 ms schedule
		for i := range c.GroupBy {
			if d := &c.GroupBy[i]; d.Kind == "time" || d.Kind == "bare" {
				d.Every = rapid.SampledFrom([]Dur{{7, "ms"}, {20, "ms"}, {1, "s"}, {1, "m"}, {3, "ms"}}).Draw(t, "gbEveryLive")
			}
		}
		genSources(t, &c.Case, true)
		genWhere(t, rec, &c.Case, nil)
		c.NTicks = 4 + wpick(t, "nticks", 1, 1, 1, 1, 1)
		// ---- one slow answer, pendingTicks queries the lower bound says nothing sharp about, then 1-3 on which it bites
		switch {
		case longStall:
			c.StallAt = wpick(t, "stallAt", 1, 1, 1)
			c.StallNs = rapid.SampledFrom([]int64{2500e6, 3000e6}).Draw(t, "stallNs")
			c.NTicks = c.StallAt + pendingTicks + 2 + wpick(t, "after", 1, 1, 1)
		case wpick(t, "stall", 2, 1) == 1:
			c.StallAt = wpick(t, "stallAt", 1, 1, 1)
			c.StallNs = rapid.SampledFrom([]int64{2, 3, 5, 8}).Draw(t, "stallTicks") * c.Every.Ns()
			if n := c.StallAt + pendingTicks + 2; c.NTicks < n {
				c.NTicks = n
			}
		}
		for i := 0; i < c.NTicks; i++ {
			var ph int64
			if c.Align {
				e := c.Every.Ns()
				switch wpick(t, "phaseKind", 1, 1, 1, 1, 1, 3) {
				case 0:
					ph = 0
				case 1:
					ph = e/2 - 1
				case 2:
					ph = e / 2
				case 3:
					ph = e - 1
				case 4:
					ph = 1
				default:
					ph = rapid.Int64Range(0, e-1).Draw(t, "phase")
				}
				if excludeAlignLatePhase && ph >= (e+1)/2 {
					rec.Exclude("align() with a start whose phase within every is >= every/2 (timeTicker.Next rounds)")
					ph /= 2
				}
			}
			c.Phases = append(c.Phases, ph)
		}
		return c
	}
}

const liveHangBound = 300 * time.Second // >= 1000 x the 0.04-0.25 s a case needs (plus the time the fake itself holds an answer)

func runLive(lc LiveCase, cc *kit.Case) {
	c := lc.Case
	script := c.script()
	userQ := c.userQuery()
	userSel, err := parseSelect(userQ)
	if err != nil {
		cc.Fail("harness/user-query-unparsable", "generated query %q does not parse: %v", userQ, err)
		return
	}
	rtSel, _ := parseSelect(userSel.String())
	every, per, off := c.Every.Ns(), c.Period.Ns(), c.Offset.Ns()
	td := c.timeDim()

	if c.Align {
		cc.Label("live:align")
	} else {
		cc.Label("live:every")
	}
	if td != nil {
		cc.Label("groupby:time")
		if c.AlignGroup {
			cc.Label("groupby:time+alignGroup")
		}
	}
	if off > 0 {
		cc.Label("offset>0")
	}
	if hasTopLevelOr(c.Where) {
		cc.Label("where:top-level-or")
	}
	long := lc.StallNs >= int64(2*time.Second)
	switch {
	case lc.StallNs == 0:
		cc.Label("live:no-stall")
	case long:
		cc.Label("live:stall>=2s")
	default:
		cc.Label(fmt.Sprintf("live:stall=%d-ticks", lc.StallNs/every))
	}
	if lc.StallNs > 0 && c.Align {
		cc.Label("live:align+stall")
	}
	if long {
		if c.Align {
			cc.NonTrivial()
		}
	} else if c.Align || (td != nil && c.AlignGroup) || hasTopLevelOr(c.Where) {
		cc.NonTrivial()
	}

	// ---- live
	fake := &fakeClient{wake: make(chan struct{}, 1), stallAt: lc.StallAt, stall: time.Duration(lc.StallNs)}
	env, err := kit.NewEnv(kit.EnvOpts{Influx: fakeInflux{fake}})
	if err != nil {
		cc.Fail("harness/env", "env: %v", err)
		return
	}
	defer env.Close()
	id := "t" + kit.Unique()
	task, err := env.TM.NewTask(id, script, kapacitor.BatchTask, c.declared(), 0, nil)
	if err != nil {
		cc.Fail("harness/script-rejected", "NewTask rejected the script: %v\n%s", err, script)
		return
	}
	et, err := env.TM.StartTask(task)
	if err != nil {
		cc.Fail("harness/task-rejected", "StartTask: %v\n%s", err, script)
		return
	}
	t0 := time.Now()
	if err := et.StartBatching(); err != nil {
		cc.Fail("dbrp/declared-rejected", "declared %v, query %q: StartBatching failed: %v", c.Declared, userQ, err)
		return
	}
	deadline := time.NewTimer(liveHangBound + time.Duration(lc.StallNs))
	defer deadline.Stop()
	for fake.count() < lc.NTicks {
		select {
		case <-fake.wake:
		case <-deadline.C:
			cc.Fail("live/no-ticks", "%s\nonly %d queries reached InfluxDB within %s of StartBatching", script, fake.count(), liveHangBound)
			return
		}
	}
	if err := env.TM.StopTask(id); err != nil {
		cc.Label("live:stop-error")
	}
	obs, at, ret := fake.snapshot()

	// ---- the historical path: a second task of the same definition, never started
	task2, err := env.TM.NewTask("h"+id, script, kapacitor.BatchTask, c.declared(), 0, nil)
	if err != nil {
		cc.Fail("harness/script-rejected", "NewTask rejected the script: %v\n%s", err, script)
		return
	}
	hist, err := kapacitor.NewExecutingTask(env.TM.New(""), task2)
	if err != nil {
		cc.Fail("harness/task-rejected", "NewExecutingTask: %v\n%s", err, script)
		return
	}

	x, sig, msg := newQcheck(c, userSel, rtSel)
	if sig != "" {
		cc.Fail(sig, "%s", msg)
		return
	}
	slack := every + int64(2*time.Second)
	var prevTick int64
	staleAfterStall := 0 // queries after the slow answer whose tick passed before it came back
	for i, s := range obs {
		em, err := parseSelect(s)
		if err != nil {
			cc.Fail("query/unparsable", "%s\nlive query %d %q does not parse: %v", script, i, s, err)
			return
		}
		red, err := reduceCond(em.Condition, 0)
		if err != nil || red.tr.lo == fullRange.lo || red.tr.hi == fullRange.hi {
			cc.Fail("query/time-bound/missing", "%s\nlive query %d %q: time range %s (err %v)", script, i, s, red.tr, err)
			return
		}
		S, E := red.tr.lo, red.tr.hi+1
		if E-S != per {
			cc.Fail("query/schedule/period", "%s\nlive query %d: %s\ncovers [%s, %s), period is %s", script, i, s, iso(S), iso(E), c.Period)
			return
		}
		tick := E + off
		what := fmt.Sprintf("live query %d (tick %s)", i, iso(tick))
		if sig, msg := x.query(what, s, S, E); sig != "" {
			cc.Fail(sig, "%s", msg)
			return
		}
		if c.Align && truncNs(tick, every) != tick {
			cc.Fail("live/tick-not-aligned", "%s\n%s: %s\nstop + offset = %s is not a multiple of %s", script, what, s, iso(tick), c.Every)
			return
		}
		// The order of ticks is NOT asserted. It was, and it is not robust: with the machine
		// oversubscribed (load > 100 on 16 cores) the Go runtime delivered two pending ticker
		// values out of order (one sender was descheduled between reading the clock and
		// sending), 10 of 32000 cases: the query node then issues the older tick second. Under
		// align() the code also rounds two late ticks onto the same boundary. Both are labels.
		if i > 0 && tick < prevTick {
			cc.Label("live:tick-order-inversion")
		}
		if tick < t0.UnixNano()-slack || tick > at[i].UnixNano()+slack {
			sig := "live/tick-outside-causal-window"
			if d := tick - at[i].UnixNano(); off > 0 && d > 2*off-slack && d < 2*off+slack {
				sig = "query/schedule/offset-sign"
			}
			cc.Fail(sig, "%s\n%s: %s\nbatching started at %s, the query arrived at %s, stop + offset = %s", script, what, s, iso(t0.UnixNano()), iso(at[i].UnixNano()), iso(tick))
			return
		}
		// lower causal bound: at most pendingTicks ticks wait for the node while it is busy, so
		// this tick happened after the answer to query i-pendingTicks-1 was handed back
		if j := i - pendingTicks - 1; j >= 0 && !ret[j].IsZero() && tick < ret[j].UnixNano()-slack {
			cc.Fail("live/tick-lags-behind-schedule", "%s\n%s: %s\nthe answer to live query %d was handed back at %s (the fake InfluxDB holds the answer to query %d for %s); this query arrived at %s, %d queries later, "+
				"and is labelled with a tick %s before that answer: at most %d ticks can have been waiting, so it was not issued on the tick whose range it asks for (its range lags behind the schedule)",
				script, what, s, j, iso(ret[j].UnixNano()), lc.StallAt, time.Duration(lc.StallNs), iso(at[i].UnixNano()), i-j, time.Duration(ret[j].UnixNano()-tick), pendingTicks)
			return
		}
		if lc.StallNs > 0 && i > lc.StallAt && lc.StallAt >= 0 && !ret[lc.StallAt].IsZero() && tick < ret[lc.StallAt].UnixNano()-every {
			staleAfterStall++
		}
		if i > 0 && tick == prevTick {
			cc.Label("live:repeated-tick")
		}
		prevTick = tick

		// historical counterpart
		if i >= len(lc.Phases) {
			continue
		}
		for time.Now().UnixNano() <= tick { // BatchQueries cuts the list at "now"
			time.Sleep(time.Millisecond)
		}
		hs := tick - every + lc.Phases[i]
		bqs, err := hist.BatchQueries(time.Unix(0, hs).UTC(), time.Unix(0, tick).UTC())
		if err != nil || len(bqs) != 1 {
			cc.Fail("query/historical-failed", "%s\nBatchQueries(%s, %s): %d lists, err %v", script, iso(hs), iso(tick), len(bqs), err)
			return
		}
		var hstrs []string
		for _, q := range bqs[0].Queries {
			hstrs = append(hstrs, q.String())
		}
		if len(hstrs) == 1 && hstrs[0] == s {
			continue
		}
		sig = "query/live-vs-historical-differ"
		switch {
		case len(hstrs) == 0 && c.Align:
			sig = "query/schedule/align-first-tick-skipped"
		case len(hstrs) != 1:
			sig = "query/schedule/tick-times"
		default:
			if hm, err := parseSelect(hstrs[0]); err == nil {
				if hm.Dimensions.String() != em.Dimensions.String() && c.AlignGroup && td != nil {
					sig = "query/group-by/align-group-ignored"
				}
			}
		}
		cc.Fail(sig, "%s\nlive tick %s issued\n    %s\na task started at %s (phase %dns after the previous boundary/tick) has this as its first tick, but BatchQueries(%s, %s) returns %d queries\n    %v",
			script, iso(tick), s, iso(hs), lc.Phases[i], iso(hs), iso(tick), len(hstrs), hstrs)
		return
	}
	if long {
		cc.Label(fmt.Sprintf("live:ticks-kept-during-long-stall=%d", staleAfterStall))
	}
	x.strictVerdict(cc)
}

func TestLive(t *testing.T) {
	r := kit.NewRec("C16", "Live", liveRule, liveAssumptions...)
	kit.Check(t, r, genLive(r, false), runLive)
}

func TestLiveStall(t *testing.T) {
	r := kit.NewRec("C16", "LiveStall", liveStallRule, liveAssumptions...)
	kit.Check(t, r, genLive(r, true), runLive)
}

func TestReplayLiveStall(t *testing.T) {
	r := kit.NewRec("C16", "LiveStall", liveStallRule, liveAssumptions...)
	kit.Replay(t, r, runLive)
}

func TestReplayLive(t *testing.T) {
	r := kit.NewRec("C16", "Live", liveRule, liveAssumptions...)
	kit.Replay(t, r, runLive)
}
