// C11, unit AggDelete — the aggregation's groups are deleted and created again between batches / runs.
//
// Pipeline:  source [.groupBy('host')] |barrier().idle(150ms).delete(TRUE) |log('B') [where|eval] |<aggregation> |log('A')
//
// Generator: the class of unit Agg without the count window (function x options x batches or
// equal-time runs per group x int/float), plus B.Del: after that batch / run the feeder waits until
// the barrier has deleted every group (edge.DeleteGroupMessage travels down the pipeline, every
// grouped node drops the group's state); later data creates the group again. At least one
// deletion per case; deletions also after the last batch.
//
// Oracle: the reference of unit Agg. A deletion between two batches changes nothing for batch
// edges (every batch is aggregated on its own: exactly one result per batch, nothing else). On a
// stream the group "will be created again if a new point is received" (pipeline/barrier.go), so a
// running transformation starts afresh, and the open equal-time run of a deleted group may be
// absent (like the last run of the stream).
//
// The idle barrier works on the system clock. Nothing is concluded from timing: every message is
// awaited at the log() directly below the barrier before the next one is fed, and a run in which
// more than a third of the idle time passed between handing in a message of a group and seeing
// the group's next message below the barrier is not compared (label barrier-timing-inconclusive).
package c11

import (
	"fmt"
	"strings"
	"sync/atomic"
	"testing"
	"time"

	"verifharness/kit"

	"github.com/influxdata/kapacitor"
	"pgregory.net/rapid"
)

const barrierIdle = 150 * time.Millisecond
const barrierBound = 5 * time.Second

const ruleDel = "rapid: the class of unit Agg without the count window (aggregation function x as()/usePointTimes/arguments x 1-6 batches or equal-time runs over 1-3 groups x int/float values, empty batches, points without the field, where/eval before the aggregation), below |barrier().idle(150ms).delete(TRUE): " +
	"after >=1 chosen batches / runs (also the last one) every group is deleted (DeleteGroupMessage) before the next data creates it again; stream transformations may meet another field type after a deletion; " +
	"non-trivial = some batch has >=2 points with >=2 distinct values and the deletions happened as planned; distinct by case hash"

func genDel(t *rapid.T) Case { return genWith(t, true) }

// feedWithDeletions runs the task, feeding message by message (points of a stream task, batches of a
// batch task) and waiting, after the message counts in pauses, until the barrier node holds no
// group any more. inconclusive != "": the wall clock did not cooperate, the run says nothing.
func feedWithDeletions(c Case, env *kit.Env, script string, pts []kit.Pt, bts []kit.Bt, pauses []int) (inconclusive string, defErr, runErr error) {
	var below int64 // messages seen by log('B')
	env.Sink.OnObs = func(prefix string) {
		if prefix == "B" {
			atomic.AddInt64(&below, 1)
		}
	}
	tt := kapacitor.BatchTask
	if c.Stream {
		tt = kapacitor.StreamTask
	}
	id := "t" + kit.Unique()
	et, err := env.StartTask(id, script, tt, nil)
	if err != nil {
		return "", err, nil
	}
	var cols []kapacitor.BatchCollector
	if !c.Stream {
		cols = env.TM.BatchCollectors(id)
		if len(cols) != 1 {
			return "", nil, fmt.Errorf("task has %d batch collectors, want 1", len(cols))
		}
	}
	note := func(format string, args ...any) {
		if inconclusive == "" {
			inconclusive = fmt.Sprintf(format, args...)
		}
	}
	barrierGroups := func() (int64, bool) {
		st, err := et.ExecutionStats()
		if err != nil {
			return 0, false
		}
		for name, ns := range st.NodeStats {
			if strings.HasPrefix(name, "barrier") {
				v, ok := ns["working_cardinality"].(int64)
				return v, ok
			}
		}
		return 0, false
	}
	pauseAt := map[int]bool{}
	for _, p := range pauses {
		pauseAt[p] = true
	}
	n := len(bts)
	if c.Stream {
		n = len(pts)
	}
	// timerSet[g]: a wall-clock instant not after the moment the idle timer of group g was last (re)set
	timerSet := map[string]time.Time{}
	for i := 0; i < n && inconclusive == ""; i++ {
		var g string
		hasPoint := true
		handIn := time.Now()
		if c.Stream {
			p := pts[i]
			if c.GroupBy {
				g = p.Tags["host"]
			}
			if p.DB == "" {
				p.DB, p.RP = "db", "rp"
			}
			if err := env.TM.WriteKapacitorPoint(p.Msg()); err != nil {
				return "", nil, fmt.Errorf("write: %w", err)
			}
		} else {
			b := bts[i]
			g = b.Tags["host"]
			hasPoint = len(b.Points) > 0
			if err := cols[0].CollectBatch(b.Msg()); err != nil {
				return "", nil, fmt.Errorf("collect batch: %w", err)
			}
		}
		// wait until the message has passed the barrier
		for atomic.LoadInt64(&below) < int64(i+1) {
			if time.Since(handIn) > barrierBound {
				note("not-seen: message %d was not seen below the barrier within %v", i, barrierBound)
				break
			}
			time.Sleep(50 * time.Microsecond)
		}
		since, known := timerSet[g]
		if !known {
			since = handIn // the message creates the group and its timer
		}
		if time.Since(since) > barrierIdle/3 {
			note("stall: a stall of %v before message %d: the idle barrier may have fired where no deletion is planned", time.Since(since), i)
		}
		if hasPoint || !known {
			timerSet[g] = handIn // only points reset the idle timer
		}
		if pauseAt[i+1] && inconclusive == "" {
			for {
				v, ok := barrierGroups()
				if ok && v == 0 {
					break
				}
				if time.Since(handIn) > barrierBound {
					note("not-deleted: the barrier did not delete every group within %v", barrierBound)
					break
				}
				time.Sleep(2 * time.Millisecond)
			}
			timerSet = map[string]time.Time{}
		}
	}
	if c.Stream {
		env.TM.Drain()
	} else {
		for _, col := range cols {
			col.Close()
		}
	}
	et.StopStats()
	return inconclusive, nil, et.Wait()
}

var assumptionsDel = append(append([]string{}, assumptions...),
	"pipeline/barrier.go: with delete(TRUE) 'the group should be deleted after processing each barrier ... The group will be created again if a new point is received for that group': the DeleteGroupMessage is forwarded down the pipeline (edge.GroupedConsumer drops the group's receiver in every grouped node). For batch edges the property fixes the outputs regardless: one result per batch over exactly that batch's values and nothing else, so a deletion between two batches must not add, repeat or drop a result. On a stream a deleted group starts afresh: elapsed/difference/cumulativeSum/movingAverage restart with the group's next point (which may have another field type), and the open equal-time run of a deleted group may be absent or correct, like the last run of the stream",
	"the idle barrier works on the system clock (lastPoint + idle, in data time; it drops data older than its last barrier): every message is awaited at a log() directly below the barrier before the next one is fed; where a deletion is planned the feeder waits (bounded, 5 s) until the barrier node's working_cardinality is 0; if more than a third of the idle time (150 ms) passed between handing in the last message that (re)set a group's idle timer and seeing the group's next message below the barrier, or a bound expired, the run is labelled barrier-timing-inconclusive and not compared; an unplanned barrier is never a failure. barrier().period() is not used: it stamps and filters with the system clock",
	"batches are handed to the barrier as whole buffered batches: a DeleteGroupMessage can only arrive between two batches of the edge, never inside one",
)

func runDel(c Case, cc *kit.Case) {
	if !c.Barrier || c.Win != nil {
		cc.Fail("harness/case", "unit AggDelete needs Barrier and no window")
		return
	}
	run(c, cc)
}

func TestAggDelete(t *testing.T) {
	r := kit.NewRec("C11", "AggDelete", ruleDel, assumptionsDel...)
	kit.Check(t, r, genDel, runDel)
}

func TestReplayAggDelete(t *testing.T) {
	r := kit.NewRec("C11", "AggDelete", ruleDel, assumptionsDel...)
	kit.Replay(t, r, runDel)
}
