// C11 — aggregations over a window equal their mathematical definition.
//
// Generator: aggregation function + options x sequences of batches (batch form) or runs of
// equal-time points (stream form) per group, int or float field, the type allowed to change
// between batches. Oracle: textbook reference implementations with typed results.
package c11

import (
	"fmt"
	"math"
	"reflect"
	"sort"
	"strings"
	"testing"
	"time"

	"verifharness/kit"

	"pgregory.net/rapid"
)

type B struct {
	G     int       `json:"g"`
	Float bool      `json:"float"`
	I     []int64   `json:"i,omitempty"`
	F     []float64 `json:"f,omitempty"`
	Gaps  []int64   `json:"gaps,omitempty"` // batch form: gaps between the points of the batch (ns)
	// Miss: 0 = every point carries the aggregated field, 1 = none does, 2 = every second one does not
	Miss int `json:"miss,omitempty"`
	// Back (stream form without window, not for the running transformations): the run arrives
	// late - its time lies before the time of the group's previous run
	Back bool `json:"back,omitempty"`
	// Del (unit AggDelete, Case.Barrier): after this batch / run has been fed the feeder waits until
	// the barrier node above the aggregation has deleted every group (edge.DeleteGroupMessage)
	Del bool `json:"del,omitempty"`
}

func (b B) n() int {
	if b.Float {
		return len(b.F)
	}
	return len(b.I)
}

type Case struct {
	Stream  bool    `json:"stream"`
	Fn      string  `json:"fn"`
	As      string  `json:"as,omitempty"`
	UsePT   bool    `json:"usept,omitempty"`
	Pct     float64 `json:"pct,omitempty"`
	N       int64   `json:"n,omitempty"`
	Unit    int64   `json:"unit,omitempty"`
	GroupBy bool    `json:"groupby"`
	Bs      []B     `json:"bs"`
	// Epoch: times start at the Unix epoch (the first point of the first batch may sit exactly on
	// 1970-01-01T00:00:00Z) instead of in 2017
	Epoch bool `json:"epoch,omitempty"`
	// Pre is a node between the source of the batches and the aggregation: "" | where-all (passes
	// everything) | where-half (drops the points with odd "w") | eval (adds a field)
	Pre string `json:"pre,omitempty"`
	// Win (stream only): the points go through window().periodCount(Win[0]).everyCount(Win[1])
	// first, so the aggregation sees (overlapping, for every < period) batches
	Win *[2]int `json:"win,omitempty"`
	// Barrier (unit AggDelete): |barrier().idle(150ms).delete(TRUE)|log().prefix('B') directly below
	// the source; the groups are deleted where B.Del says so
	Barrier bool `json:"barrier,omitempty"`
}

// batchEdges: the aggregation is fed batches (batch task, or stream task through a window).
func (c Case) batchEdges() bool { return !c.Stream || c.Win != nil }

// LB is one logical batch the aggregation works on: the field values of the points that carry the
// field (and passed the where node), and the batch's end time.
type LB struct {
	G     int
	Float bool
	Run   []pv
	TMax  int64
	N     int // points in the batch before the field/where filter
	Seg   int // number of group deletions (B.Del) before this batch
}

const rule = "rapid: aggregation function (count sum mean median mode min max first last spread stddev distinct percentile top bottom elapsed difference cumulativeSum movingAverage) x as()/usePointTimes/arguments x batches or equal-time runs of int/float values (duplicates, negatives, |v|>2^53, type changing between batches, empty batches); " +
	"optionally: a where (all / every second point passes) or eval node before the aggregation, points without the field (all / every second of a batch), a count window (period 1-6, every 1-6: overlapping when every < period) between the stream and the aggregation; " +
	"non-trivial = some batch has >=2 points with >=2 distinct values; distinct by case hash"

const sec = int64(1e9)
const t0 = int64(1_500_000_000) * sec

var reducers = []string{"count", "sum", "mean", "median", "mode", "min", "max", "first", "last", "spread", "stddev", "percentile"}
var selectors = map[string]bool{"min": true, "max": true, "first": true, "last": true, "percentile": true}
var batchOut = []string{"distinct", "top", "bottom"}
var transforms = []string{"elapsed", "difference", "cumulativeSum", "movingAverage"}

func isTransform(fn string) bool {
	for _, t := range transforms {
		if t == fn {
			return true
		}
	}
	return false
}
func isBatchOut(fn string) bool { return fn == "distinct" || fn == "top" || fn == "bottom" }

func gen(t *rapid.T) Case { return genWith(t, false) }

// genWith: del = the class of unit AggDelete (a deleting barrier above the aggregation, no window).
func genWith(t *rapid.T, del bool) Case {
	var c Case
	c.Barrier = del
	c.Stream = rapid.IntRange(0, 3).Draw(t, "stream") == 0
	if del {
		c.Stream = rapid.Bool().Draw(t, "stream-del")
	}
	all := append(append(append([]string{}, reducers...), batchOut...), transforms...)
	c.Fn = rapid.SampledFrom(all).Draw(t, "fn")
	if rapid.Bool().Draw(t, "hasas") {
		c.As = rapid.SampledFrom([]string{"out", "v", "x y"}).Draw(t, "as")
	}
	if selectors[c.Fn] || c.Fn == "top" || c.Fn == "bottom" {
		c.UsePT = rapid.Bool().Draw(t, "usept")
	}
	switch c.Fn {
	case "percentile":
		c.Pct = rapid.SampledFrom([]float64{0, 1, 10, 25, 50, 50.5, 75, 90, 99, 100}).Draw(t, "pct")
	case "top", "bottom":
		c.N = int64(rapid.IntRange(1, 4).Draw(t, "n"))
	case "movingAverage":
		c.N = int64(rapid.IntRange(1, 4).Draw(t, "n"))
	case "elapsed":
		c.Unit = rapid.SampledFrom([]int64{1, 1e6, sec, 7}).Draw(t, "unit")
	}
	c.GroupBy = rapid.Bool().Draw(t, "groupby")
	c.Epoch = rapid.IntRange(0, 7).Draw(t, "epoch") == 0
	c.Pre = rapid.SampledFrom([]string{"", "", "", "where-all", "where-half", "eval"}).Draw(t, "pre")
	if c.Stream && !del && rapid.Bool().Draw(t, "window") {
		c.Win = &[2]int{rapid.IntRange(1, 6).Draw(t, "periodCount"), rapid.IntRange(1, 6).Draw(t, "everyCount")}
	}
	groups := 1
	if c.GroupBy {
		groups = rapid.IntRange(1, 3).Draw(t, "groups")
	}
	nb := rapid.IntRange(1, 6).Draw(t, "nb")
	ints := []int64{-5, -4, -3, -2, -1, 0, 0, 1, 1, 2, 2, 3, 3, 4, 5, 7, 1 << 53, (1 << 53) + 1, -(1 << 53) - 1, 1000003}
	floats := []float64{-2.5, -1, -0.5, 0, 0, 0.5, 0.5, 1, 1, 1.5, 2, 2.5, 3, 1e-9, 1e15, 0.1, 0.2, 0.30000000000000004, -1e15}
	// stream transformations keep one reducer per group for the whole stream: one field type per group there
	groupFloat := map[int]bool{}
	for g := 0; g < groups; g++ {
		groupFloat[g] = rapid.Bool().Draw(t, "gfloat")
	}
	mustDel := -1
	if del {
		mustDel = rapid.IntRange(0, nb-1).Draw(t, "mustdel")
	}
	for i := 0; i < nb; i++ {
		b := B{G: rapid.IntRange(0, groups-1).Draw(t, "g")}
		b.Float = rapid.Bool().Draw(t, "float")
		if c.Stream && isTransform(c.Fn) || c.Win != nil {
			b.Float = groupFloat[b.G]
		}
		b.Miss = rapid.SampledFrom([]int{0, 0, 0, 0, 0, 1, 2}).Draw(t, "miss")
		if c.Stream && c.Win == nil && !isTransform(c.Fn) {
			b.Back = rapid.IntRange(0, 5).Draw(t, "back") == 0
		}
		lo := 0
		if c.Stream {
			lo = 1
		}
		n := rapid.IntRange(lo, 8).Draw(t, "npts")
		if rapid.IntRange(0, 9).Draw(t, "big") == 0 {
			n = rapid.IntRange(9, 30).Draw(t, "nbig")
		}
		for j := 0; j < n; j++ {
			if b.Float {
				b.F = append(b.F, rapid.SampledFrom(floats).Draw(t, "fv"))
			} else {
				b.I = append(b.I, rapid.SampledFrom(ints).Draw(t, "iv"))
			}
			b.Gaps = append(b.Gaps, rapid.SampledFrom([]int64{0, 1, 1e6, 1e6, 3e6, 7}).Draw(t, "gap"))
		}
		if del {
			b.Del = i == mustDel || rapid.IntRange(0, 3).Draw(t, "del") == 0
			if b.Del {
				// a deleted group starts afresh: its stream transformation may meet another field type
				for g := 0; g < groups; g++ {
					groupFloat[g] = rapid.Bool().Draw(t, "gfloat-after-delete")
				}
			}
		}
		c.Bs = append(c.Bs, b)
	}
	return c
}

func (c Case) as() string {
	if c.As != "" {
		return c.As
	}
	return c.Fn
}

func (c Case) script() string {
	var s strings.Builder
	if c.Stream {
		s.WriteString("stream|from().measurement('m')")
	} else {
		s.WriteString(`batch|query('SELECT * FROM "db"."rp"."m"').period(10s).every(10s)`)
	}
	if c.GroupBy {
		s.WriteString(".groupBy('host')")
	}
	if c.Win != nil {
		fmt.Fprintf(&s, "|window().periodCount(%d).everyCount(%d)", c.Win[0], c.Win[1])
	}
	if c.Barrier {
		fmt.Fprintf(&s, "|barrier().idle(%dms).delete(TRUE)|log().prefix('B')", barrierIdle/time.Millisecond)
	}
	switch c.Pre {
	case "where-all":
		s.WriteString(`|where(lambda: "w" >= 0)`)
	case "where-half":
		s.WriteString(`|where(lambda: "w" % 2 == 0)`)
	case "eval":
		s.WriteString(`|eval(lambda: "w" + 1).as('w2').keep()`)
	}
	switch c.Fn {
	case "percentile":
		pct := fmt.Sprintf("%g", c.Pct)
		if !strings.Contains(pct, ".") {
			pct += ".0"
		}
		fmt.Fprintf(&s, "|percentile('v', %s)", pct)
	case "top", "bottom":
		fmt.Fprintf(&s, "|%s(%d, 'v')", c.Fn, c.N)
	case "movingAverage":
		fmt.Fprintf(&s, "|movingAverage('v', %d)", c.N)
	case "elapsed":
		u := map[int64]string{1: "1ns", 1e6: "1ms", sec: "1s", 7: "7ns"}[c.Unit]
		if strings.HasSuffix(u, "ns") { // TICKscript has no ns unit literal
			u = map[int64]string{1: "1u", 7: "7u"}[c.Unit]
		}
		fmt.Fprintf(&s, "|elapsed('v', %s)", u)
	default:
		fmt.Fprintf(&s, "|%s('v')", c.Fn)
	}
	if c.As != "" {
		fmt.Fprintf(&s, ".as('%s')", c.As)
	}
	if c.UsePT {
		s.WriteString(".usePointTimes()")
	}
	s.WriteString("|log().prefix('A')")
	return s.String()
}

func (c Case) unit() int64 {
	if c.Fn != "elapsed" {
		return 0
	}
	if c.Unit == 1 || c.Unit == 7 { // rendered as microseconds
		return c.Unit * 1000
	}
	return c.Unit
}

type pv struct {
	t    int64
	v    kit.FV
	f    float64
	i    int64
	tags map[string]string // the point's own tags
}

// materialise builds the inputs: batches (batch form) or points (stream form) in feed order, and
// the logical batches the aggregation works on (per input batch / equal-time run / window) with
// the typed values of the points that carry the field and pass the where node.
// pauses (Case.Barrier): the numbers of fed messages (points / batches) after which every group is deleted.
func (c Case) materialise() (pts []kit.Pt, bts []kit.Bt, lbs []LB, pauses []int) {
	lastT := map[int]int64{}
	type wp struct {
		p    pv
		keep bool
	}
	received := map[int][]wp{} // window form: the group's points so far
	t0 := t0
	if c.Epoch {
		t0 = 0
	}
	tw := t0
	seg := 0
	for k, b := range c.Bs {
		if k > 0 && c.Barrier && c.Bs[k-1].Del {
			seg++
			if c.Stream {
				pauses = append(pauses, len(pts))
			} else {
				pauses = append(pauses, len(bts))
			}
		}
		host := fmt.Sprintf("h%d", b.G)
		start := t0 + int64(k)*10*sec
		if c.Stream && start <= lastT[b.G] {
			start = lastT[b.G] + sec
		}
		if b.Back && lastT[b.G] != 0 {
			// an out-of-order run: a run is a maximal sequence of consecutive points with equal
			// time, so an older point ends the current run like a newer one does
			start = lastT[b.G] - sec/2
		}
		bt := kit.Bt{Name: "m", Points: []kit.Pt{}}
		if c.GroupBy {
			bt.Tags = map[string]string{"host": host}
		}
		var run []pv
		t := start
		for j := 0; j < b.n(); j++ {
			if !c.Stream {
				t += b.Gaps[j]
			}
			if isTransform(c.Fn) && j > 0 && (c.Stream || b.Gaps[j] == 0) {
				// InfluxQL transformations are defined over series with unique timestamps
				t++
			}
			if c.Win != nil {
				tw += sec
				t = tw
			}
			var fv kit.FV
			p := pv{t: t}
			if b.Float {
				fv = kit.F(b.F[j])
				p.f = b.F[j]
			} else {
				fv = kit.I(b.I[j])
				p.i, p.f = b.I[j], float64(b.I[j])
			}
			p.v = fv
			// the points' own tags vary: some lack o, and without groupBy some have no tag at all
			tags := map[string]string{"host": host, "o": fmt.Sprintf("o%d", j%2)}
			if j%3 == 2 {
				delete(tags, "o")
				if !c.GroupBy && j%2 == 1 {
					delete(tags, "host")
				}
			}
			p.tags = tags
			fields := map[string]kit.FV{"v": fv, "w": kit.I(int64(j))}
			has := !(b.Miss == 1 || b.Miss == 2 && j%2 == 1)
			if !has {
				delete(fields, "v")
				fields["u"] = fv
			}
			keep := has && !(c.Pre == "where-half" && j%2 == 1)
			if keep {
				run = append(run, p)
			}
			if c.Stream {
				pts = append(pts, kit.Pt{Name: "m", Tags: tags, Fields: fields, Time: t})
			} else {
				bt.Points = append(bt.Points, kit.Pt{Tags: tags, Fields: fields, Time: t})
			}
			if c.Win != nil {
				// window().periodCount(P).everyCount(E): after every E-th point of the group, its last min(n, P) points
				received[b.G] = append(received[b.G], wp{p, keep})
				if n := len(received[b.G]); n%c.Win[1] == 0 {
					m := c.Win[0]
					if n < m {
						m = n
					}
					lb := LB{G: b.G, Float: b.Float, TMax: t, N: m}
					for _, x := range received[b.G][n-m:] {
						if x.keep {
							lb.Run = append(lb.Run, x.p)
						}
					}
					lbs = append(lbs, lb)
				}
			}
		}
		lastT[b.G] = t
		bt.TMax = t + 5
		if b.n() == 0 {
			bt.TMax = start
		}
		bts = append(bts, bt)
		if c.Win == nil {
			if c.Stream && len(run) == 0 {
				continue // stream form: no point with the field, no run
			}
			lb := LB{G: b.G, Float: b.Float, Run: run, TMax: bt.TMax, N: b.n(), Seg: seg}
			if c.Stream {
				lb.TMax = run[0].t
			}
			lbs = append(lbs, lb)
		}
	}
	if n := len(c.Bs); c.Barrier && n > 0 && c.Bs[n-1].Del {
		if c.Stream {
			pauses = append(pauses, len(pts))
		} else {
			pauses = append(pauses, len(bts))
		}
	}
	return
}

// ---------------------------------------------------------------- reference

// out is one expected output value; times lists the accepted timestamps.
type out struct {
	vals  []kit.FV // accepted values (ties / type leniency)
	times []int64
	tol   bool // compare floats with tolerance 1e-12 relative to the largest magnitude involved
	scale float64
	any   bool // value not pinned down by the definition (e.g. stddev of one value)
}

func sortedBy(run []pv, float bool) []pv {
	s := append([]pv(nil), run...)
	sort.SliceStable(s, func(a, b int) bool {
		if float {
			return s[a].f < s[b].f
		}
		return s[a].i < s[b].i
	})
	return s
}

// reduce computes the single-value aggregations. ok=false: nothing is emitted.
func (c Case) reduce(run []pv, float bool, tbatch int64) (o out, ok bool) {
	n := len(run)
	endT := []int64{tbatch}
	if n == 0 {
		switch c.Fn {
		case "count":
			return out{vals: []kit.FV{kit.I(0)}, times: endT}, true
		case "sum":
			// defined on empty input; there is no data to take a type from
			return out{vals: []kit.FV{kit.I(0), kit.F(0)}, times: endT}, true
		}
		return out{}, false
	}
	num := func(f float64, i int64) kit.FV {
		if float {
			return kit.F(f)
		}
		return kit.I(i)
	}
	// candidates: indexes whose value equals x (ties of selectors may pick any of them)
	pick := func(match func(p pv) bool) (ts []int64) {
		if !c.UsePT {
			return endT
		}
		for _, p := range run {
			if match(p) {
				ts = append(ts, p.t)
			}
		}
		return
	}
	eq := func(x pv) func(pv) bool {
		return func(p pv) bool { return p.v == x.v }
	}
	switch c.Fn {
	case "count":
		return out{vals: []kit.FV{kit.I(int64(n))}, times: endT}, true
	case "sum":
		var sf float64
		var si int64
		for _, p := range run {
			sf += p.f
			si += p.i
		}
		return out{vals: []kit.FV{num(sf, si)}, times: endT, tol: true}, true
	case "mean":
		var sf float64
		var si int64
		for _, p := range run {
			sf += p.f
			si += p.i
		}
		if !float {
			sf = float64(si)
		}
		return out{vals: []kit.FV{kit.F(sf / float64(n))}, times: endT, tol: true}, true
	case "median":
		s := sortedBy(run, float)
		if n%2 == 1 {
			return out{vals: []kit.FV{kit.F(s[n/2].f)}, times: endT, tol: true}, true
		}
		return out{vals: []kit.FV{kit.F((s[n/2-1].f + s[n/2].f) / 2)}, times: endT, tol: true}, true
	case "mode":
		freq := map[kit.FV]int{}
		best := 0
		for _, p := range run {
			freq[p.v]++
			if freq[p.v] > best {
				best = freq[p.v]
			}
		}
		var vals []kit.FV
		for v, k := range freq {
			if k == best {
				vals = append(vals, v)
			}
		}
		return out{vals: vals, times: endT}, true
	case "min", "max":
		s := sortedBy(run, float)
		x := s[0]
		if c.Fn == "max" {
			x = s[n-1]
		}
		return out{vals: []kit.FV{x.v}, times: pick(eq(x))}, true
	case "first", "last":
		// InfluxQL: the value with the oldest / most recent timestamp; ties in time accept any
		x := run[0]
		for _, p := range run {
			if (c.Fn == "first" && p.t < x.t) || (c.Fn == "last" && p.t >= x.t) {
				x = p
			}
		}
		var vals []kit.FV
		for _, p := range run {
			if p.t == x.t {
				vals = append(vals, p.v)
			}
		}
		ts := endT
		if c.UsePT {
			ts = []int64{x.t}
		}
		return out{vals: vals, times: ts}, true
	case "spread":
		s := sortedBy(run, float)
		return out{vals: []kit.FV{num(s[n-1].f-s[0].f, s[n-1].i-s[0].i)}, times: endT, tol: true}, true
	case "stddev":
		if n < 2 {
			return out{any: true, times: endT}, true
		}
		var m float64
		for _, p := range run {
			m += p.f
		}
		m /= float64(n)
		var ss float64
		for _, p := range run {
			ss += (p.f - m) * (p.f - m)
		}
		return out{vals: []kit.FV{kit.F(math.Sqrt(ss / float64(n-1)))}, times: endT, tol: true}, true
	case "percentile":
		// InfluxDB's documented nearest-rank rule
		idx := int(math.Floor(float64(n)*c.Pct/100.0+0.5)) - 1
		if idx < 0 || idx >= n {
			return out{}, false
		}
		s := sortedBy(run, float)
		return out{vals: []kit.FV{s[idx].v}, times: pick(eq(s[idx]))}, true
	}
	panic("fn " + c.Fn)
}

// transform computes the per-point transformations over the sequence seen so far.
func (c Case) transform(seq []pv, float bool) (res []struct {
	t int64
	o out
}) {
	add := func(t int64, v kit.FV, tol bool) {
		res = append(res, struct {
			t int64
			o out
		}{t, out{vals: []kit.FV{v}, times: []int64{t}, tol: tol}})
	}
	var cumF float64
	var cumI int64
	for k, p := range seq {
		switch c.Fn {
		case "elapsed":
			if k > 0 {
				add(p.t, kit.I((p.t-seq[k-1].t)/c.unit()), false)
			}
		case "difference":
			if k > 0 {
				if float {
					add(p.t, kit.F(p.f-seq[k-1].f), true)
				} else {
					add(p.t, kit.I(p.i-seq[k-1].i), false)
				}
			}
		case "cumulativeSum":
			cumF += p.f
			cumI += p.i
			if float {
				add(p.t, kit.F(cumF), true)
			} else {
				add(p.t, kit.I(cumI), false)
			}
		case "movingAverage":
			if int64(k+1) >= c.N {
				var s float64
				var si int64
				for _, q := range seq[k+1-int(c.N) : k+1] {
					s += q.f
					si += q.i
				}
				if !float {
					s = float64(si)
				}
				add(p.t, kit.F(s/float64(c.N)), true)
			}
		}
	}
	return
}

func closeEnough(a, b kit.FV, tol bool, scale float64) bool {
	if a == b {
		return true
	}
	if !tol || a.T != "f" || b.T != "f" {
		return false
	}
	x, y := a.Go().(float64), b.Go().(float64)
	d := math.Abs(x - y)
	return d <= 1e-12*math.Max(scale, math.Max(math.Abs(x), math.Abs(y)))
}

func (o out) accepts(v kit.FV, t int64) string {
	if !o.any {
		ok := false
		for _, w := range o.vals {
			ok = ok || closeEnough(v, w, o.tol, o.scale)
		}
		if !ok {
			return fmt.Sprintf("value %v, reference %v", v, o.vals)
		}
	}
	for _, x := range o.times {
		if x == t {
			return ""
		}
	}
	return fmt.Sprintf("time %d, reference %v", t, o.times)
}

// ---------------------------------------------------------------- run

func run(c Case, cc *kit.Case) {
	pts, bts, lbs, pauses := c.materialise()
	script := c.script()
	cc.Label("fn:" + c.Fn)
	if c.Stream {
		cc.Label("stream")
	} else {
		cc.Label("batch")
	}
	typeChange, empty, nt := false, false, false
	lastType := map[int]int{}
	for _, b := range lbs {
		ty := 1
		if b.Float {
			ty = 2
		}
		if lastType[b.G] != 0 && lastType[b.G] != ty {
			typeChange = true
		}
		lastType[b.G] = ty
		if len(b.Run) == 0 {
			empty = true
			if b.N > 0 {
				cc.Label("batch-without-field-values")
			}
		} else if len(b.Run) < b.N {
			cc.Label("batch-with-some-points-without-value")
		}
		d := map[kit.FV]bool{}
		for _, p := range b.Run {
			d[p.v] = true
		}
		if len(d) >= 2 {
			nt = true
		}
	}
	if c.Win != nil {
		if c.Win[1] < c.Win[0] {
			cc.Label("overlapping-windows")
		} else {
			cc.Label("window")
		}
	}
	if c.Pre != "" {
		cc.Label("pre:" + c.Pre)
	}
	if c.Barrier {
		// a deletion that hits a group whose last batch / run produced a result, followed by more data of the group
		after, again, end := map[int]bool{}, false, false
		for k, b := range c.Bs {
			if after[b.G] {
				again = true
			}
			if b.Del {
				for _, x := range c.Bs[:k+1] {
					after[x.G] = true
				}
				end = k == len(c.Bs)-1
			}
		}
		if again {
			cc.Label("group-deleted-and-created-again")
		}
		if end {
			cc.Label("groups-deleted-after-the-last-batch")
		}
	}
	if typeChange {
		cc.Label("type-change-between-batches")
	}
	if empty {
		cc.Label("empty-batch")
	}
	if nt && !c.Barrier {
		cc.NonTrivial()
	}

	env, err := kit.NewEnv(kit.EnvOpts{})
	if err != nil {
		cc.Fail("harness/env", "env: %v", err)
		return
	}
	defer env.Close()
	var defErr, runErr error
	if c.Barrier {
		var inconclusive string
		inconclusive, defErr, runErr = feedWithDeletions(c, env, script, pts, bts, pauses)
		if inconclusive != "" && defErr == nil && runErr == nil {
			// the wall clock did not cooperate: the run says nothing
			cc.Label("barrier-timing-inconclusive")
			cc.Label("barrier-timing-inconclusive:" + strings.SplitN(inconclusive, ":", 2)[0])
			return
		}
		cc.Label("groups-deleted-as-planned")
		if nt {
			cc.NonTrivial()
		}
	} else if c.Stream {
		defErr, runErr = env.RunStream(script, pts)
	} else {
		defErr, runErr = env.RunBatch(script, [][]kit.Bt{bts})
	}
	if defErr != nil {
		cc.Fail("harness/script-rejected", "script rejected: %v\n%s", defErr, script)
		return
	}
	if runErr != nil {
		cc.Fail("task-error", "task ended with error: %v\n%s", runErr, script)
		return
	}
	obs := env.Sink.By("A")
	as := c.as()
	groupTags := func(g int) map[string]string {
		if !c.GroupBy {
			return nil
		}
		return map[string]string{"host": fmt.Sprintf("h%d", g)}
	}
	groupID := func(g int) string {
		if !c.GroupBy {
			return ""
		}
		return fmt.Sprintf("host=h%d", g)
	}
	// observations per group, in order
	perG := map[string][]kit.Obs{}
	for _, o := range obs {
		g := ""
		if o.P != nil {
			g = o.P.Group
		} else {
			g = o.B.Group
		}
		perG[g] = append(perG[g], o)
	}
	ctx := func() string { return fmt.Sprintf("\nscript: %s", script) }
	// fail reports a difference; while the matcher below only tries an alignment it records nothing
	trial := false
	fail := func(sig, format string, args ...any) {
		if !trial {
			cc.Fail(sig, format, args...)
		}
	}

	// tagsFromInput: the tags of an emitted selector / top / bottom point are the group's tags, or the
	// group's tags plus the own tags of an input point that carries the emitted value (and time,
	// when point times are used) - never tags of another point
	tagsFromInput := func(tags map[string]string, v kit.FV, t int64, gt map[string]string, in []pv) bool {
		eq := func(a, b map[string]string) bool { return reflect.DeepEqual(a, b) || len(a) == 0 && len(b) == 0 }
		if eq(tags, gt) {
			return true
		}
		for _, q := range in {
			if q.v != v || c.UsePT && q.t != t {
				continue
			}
			m := map[string]string{}
			for k, x := range q.tags {
				m[k] = x
			}
			for k, x := range gt {
				m[k] = x
			}
			if eq(tags, m) {
				return true
			}
		}
		return false
	}
	checkPoint := func(p kit.Pt, g int, o out, selector bool, where string, in []pv) bool {
		v, okv := p.Fields[as]
		if !okv {
			fail("agg/field-name", "%s: output has fields %v, no field %q%s", where, p.Fields, as, ctx())
			return false
		}
		if d := o.accepts(v, p.Time); d != "" {
			fail("agg/value-or-time", "%s: %s%s", where, d, ctx())
			return false
		}
		gt := groupTags(g)
		if selector {
			// selectors may carry the selected point's own tags and fields; the group's tags must be there
			for k, v := range gt {
				if p.Tags[k] != v {
					fail("agg/tags", "%s: tags %v lack the group's tags %v%s", where, p.Tags, gt, ctx())
					return false
				}
			}
			if in != nil && !tagsFromInput(p.Tags, v, p.Time, gt, in) {
				fail("agg/tags-of-another-point", "%s: tags %v are neither the group's tags %v nor those plus the own tags of an input point with value %v%s", where, p.Tags, gt, v, ctx())
				return false
			}
		} else {
			if !(reflect.DeepEqual(p.Tags, gt) || len(p.Tags) == 0 && len(gt) == 0) {
				fail("agg/tags", "%s: tags %v, want the group's tags %v%s", where, p.Tags, gt, ctx())
				return false
			}
			if len(p.Fields) != 1 {
				fail("agg/fields", "%s: fields %v, want only %q%s", where, p.Fields, as, ctx())
				return false
			}
		}
		return true
	}

	// expected outputs per group
	type expItem struct {
		point *out   // a single output point
		batch []out  // an output batch (distinct/top/bottom/transform on batch edges)
		isB   bool
		tmax  int64
		g     int
		last  bool // stream form: the group's last run may be absent
		in    []pv
	}
	exp := map[string][]expItem{}
	streamSeq := map[int][]pv{} // stream transformations: the group's whole sequence (since it was last deleted)
	maxAbs := map[int]float64{}
	seg := 0
	// endSegment: every group has been deleted (or the data ends)
	endSegment := func() {
		if !c.batchEdges() && !isTransform(c.Fn) {
			// nothing marks the end of the last run of a group: it may be absent
			for gid := range exp {
				exp[gid][len(exp[gid])-1].last = true
			}
		}
		// a group that is created again starts afresh
		streamSeq = map[int][]pv{}
		maxAbs = map[int]float64{}
	}
	for _, b := range lbs {
		if b.Seg != seg {
			seg = b.Seg
			endSegment()
		}
		run := b.Run
		local := 0.0
		for _, p := range run {
			maxAbs[b.G] = math.Max(maxAbs[b.G], math.Abs(p.f))
			local = math.Max(local, math.Abs(p.f))
		}
		scale := local
		if !c.batchEdges() && isTransform(c.Fn) {
			scale = maxAbs[b.G]
		}
		gid := groupID(b.G)
		tb := b.TMax
		switch {
		case isTransform(c.Fn):
			if !c.batchEdges() {
				before := len(c.transform(streamSeq[b.G], b.Float))
				streamSeq[b.G] = append(streamSeq[b.G], run...)
				all := c.transform(streamSeq[b.G], b.Float)
				for _, r := range all[before:] {
					o := r.o
					o.scale = scale
					exp[gid] = append(exp[gid], expItem{point: &o, g: b.G})
				}
			} else {
				var outs []out
				for _, r := range c.transform(run, b.Float) {
					r.o.scale = scale
					outs = append(outs, r.o)
				}
				exp[gid] = append(exp[gid], expItem{batch: outs, isB: true, tmax: tb, g: b.G, in: run})
			}
		case isBatchOut(c.Fn):
			var outs []out
			s := sortedBy(run, b.Float)
			switch c.Fn {
			case "distinct":
				seen := map[kit.FV]bool{}
				for _, p := range s {
					if !seen[p.v] {
						seen[p.v] = true
						outs = append(outs, out{vals: []kit.FV{p.v}})
					}
				}
			case "top":
				for i := len(s) - 1; i >= 0 && int64(len(outs)) < c.N; i-- {
					outs = append(outs, out{vals: []kit.FV{s[i].v}})
				}
			case "bottom":
				for i := 0; i < len(s) && int64(len(outs)) < c.N; i++ {
					outs = append(outs, out{vals: []kit.FV{s[i].v}})
				}
			}
			if len(run) == 0 {
				continue // empty batches emit nothing
			}
			exp[gid] = append(exp[gid], expItem{batch: outs, isB: true, tmax: tb, g: b.G, in: run})
		default:
			o, ok := c.reduce(run, b.Float, tb)
			o.scale = scale
			if ok {
				exp[gid] = append(exp[gid], expItem{point: &o, g: b.G, in: run})
			}
		}
	}
	endSegment()

	// compare reports through fail whether observation o is what the reference item e describes
	compare := func(o kit.Obs, e expItem, gid, where string) bool {
		{
			if !e.isB {
				if o.P == nil {
					fail("agg/output-kind", "%s is a batch, want a point%s", where, ctx())
					return false
				}
				if o.P.Name != "m" || o.P.Group != gid {
					fail("agg/identity", "%s: name %q group %q, want m %q%s", where, o.P.Name, o.P.Group, gid, ctx())
					return false
				}
				if !checkPoint(*o.P, e.g, *e.point, selectors[c.Fn], where, e.in) {
					return false
				}
				return true
			}
			if o.B == nil {
				fail("agg/output-kind", "%s is a point, want a batch%s", where, ctx())
				return false
			}
			b := o.B
			gt := groupTags(e.g)
			if b.Name != "m" || !(reflect.DeepEqual(b.Tags, gt) || len(b.Tags) == 0 && len(gt) == 0) {
				fail("agg/identity", "%s: batch name %q tags %v, want m %v%s", where, b.Name, b.Tags, gt, ctx())
				return false
			}
			if len(b.Points) != len(e.batch) {
				fail("agg/batch-size", "%s: %d points, reference %d%s", where, len(b.Points), len(e.batch), ctx())
				return false
			}
			if isTransform(c.Fn) {
				if b.TMax != e.tmax {
					fail("agg/batch-time", "%s: batch time %d, reference %d%s", where, b.TMax, e.tmax, ctx())
					return false
				}
				for j, p := range b.Points {
					if !checkPoint(p, e.g, e.batch[j], false, fmt.Sprintf("%s point %d", where, j), nil) {
						return false
					}
				}
				return true
			}
			// distinct / top / bottom: compare values as multisets; times: the batch time, or with
			// usePointTimes the time of an input point that carries that value
			var got, want []string
			for _, p := range b.Points {
				v, ok := p.Fields[as]
				if !ok || len(p.Fields) != 1 {
					fail("agg/field-name", "%s: point fields %v, want only %q%s", where, p.Fields, as, ctx())
					return false
				}
				got = append(got, v.String())
				okT := false
				if c.UsePT {
					for _, q := range e.in {
						okT = okT || (q.v == v && q.t == p.Time)
					}
				} else {
					okT = p.Time == e.tmax
				}
				if !okT {
					fail("agg/value-or-time", "%s: point %v has time %d (batch time %d, usePointTimes=%v)%s", where, v, p.Time, e.tmax, c.UsePT, ctx())
					return false
				}
				for k, v := range gt {
					if p.Tags[k] != v {
						fail("agg/tags", "%s: point tags %v lack the group's tags%s", where, p.Tags, ctx())
						return false
					}
				}
				if c.Fn != "distinct" && !tagsFromInput(p.Tags, v, p.Time, gt, e.in) {
					fail("agg/tags-of-another-point", "%s: point %v carries tags %v: neither the group's tags %v nor those plus the own tags of an input point with that value%s", where, v, p.Tags, gt, ctx())
					return false
				}
			}
			for _, w := range e.batch {
				want = append(want, w.vals[0].String())
			}
			sort.Strings(got)
			sort.Strings(want)
			if !reflect.DeepEqual(got, want) {
				fail("agg/value-or-time", "%s: values %v, reference %v%s", where, got, want, ctx())
				return false
			}
		}
		return true
	}

	// The outputs of a group are matched in order against the reference items; an item marked last (the
	// open run of a group when the group is deleted or the data ends) may be absent. matches tries the
	// alignments without reporting; when there is none the first difference of the in-order
	// alignment (an optional item that does not fit is taken as absent) is reported.
	for gid, es := range exp {
		os := perG[gid]
		var matches func(i, j int) bool
		matches = func(i, j int) bool {
			if i == len(os) {
				for _, e := range es[j:] {
					if !e.last {
						return false
					}
				}
				return true
			}
			if j == len(es) {
				return false
			}
			if compare(os[i], es[j], gid, "") && matches(i+1, j+1) {
				return true
			}
			return es[j].last && matches(i, j+1)
		}
		trial = true
		ok := matches(0, 0)
		trial = false
		if ok {
			continue
		}
		optional := 0
		for _, e := range es {
			if e.last {
				optional++
			}
		}
		if len(os) > len(es) || len(os) < len(es)-optional {
			fail("agg/output-count", "group %q: %d outputs, reference %d (of which %d may be absent)%s", gid, len(os), len(es), optional, ctx())
			return
		}
		i, j := 0, 0
		for i < len(os) && j < len(es) {
			trial = true
			fits := compare(os[i], es[j], gid, "")
			trial = false
			if !fits && es[j].last {
				j++
				continue
			}
			if !fits {
				compare(os[i], es[j], gid, fmt.Sprintf("group %q output %d", gid, i))
				return
			}
			i++
			j++
		}
		fail("agg/output-count", "group %q: %d outputs do not align with the %d reference items (%d may be absent)%s", gid, len(os), len(es), optional, ctx())
		return
	}
	for gid, os := range perG {
		if len(exp[gid]) == 0 && len(os) > 0 {
			fail("agg/output-count", "group %q: %d outputs, reference none%s", gid, len(os), ctx())
			return
		}
	}
}

var assumptions = []string{
	"the arithmetic is done by InfluxDB's query reducers (external dependency); the reference pins values where InfluxQL's definition is unambiguous: ties of mode/selectors accept any tied candidate, stddev of fewer than two values is not compared, sum of an empty batch may be typed int or float",
	"float results of sum/mean/median/spread/stddev/difference/cumulativeSum/movingAverage are compared with tolerance 1e-12 relative to the largest input magnitude involved (the batch; the group's history for running transformations); integer inputs are summed exactly (summation order and running-sum implementations are unspecified); selector and integer results exactly",
	"percentile uses InfluxDB's nearest-rank index floor(n*p/100+0.5)-1 and emits nothing when that index is out of range",
	"a batch holds one field type; the type may change between batches (and between equal-time runs in stream form); stream transformations see one field type per group",
	"selectors (first last min max percentile) and top/bottom may carry the selected point's own tags and other fields - the group's tags, or the group's tags plus the own tags of an input point that carries the emitted value (and time, with usePointTimes), never another point's tags; all other functions emit exactly the field named by as() and the group's tags",
	"stream form: the output for the last equal-time run of a group may be absent (nothing marks its end); a run is a maximal sequence of consecutive points of a group with equal time - a point with an older time ends the current run like one with a newer time (late runs are generated for the single-value and batch-valued functions, not for the running transformations)",
	"a point that lacks the aggregated field contributes no value (it is reported and skipped); a batch none of whose points carries the field is an empty batch; window().periodCount(P).everyCount(E) emits after every E-th point of a group its last min(n, P) points, stamped with the last one's time (C03's subject)",
	"usePointTimes is generated for selectors and top/bottom only (what the property names)",
	"elapsed/difference/cumulativeSum/movingAverage see strictly increasing timestamps per group (an InfluxQL series has unique timestamps; the reducers skip a point that does not advance time)",
}

func TestAgg(t *testing.T) {
	r := kit.NewRec("C11", "Agg", rule, assumptions...)
	kit.Check(t, r, gen, run)
}

func TestReplayAgg(t *testing.T) {
	r := kit.NewRec("C11", "Agg", rule, assumptions...)
	kit.Replay(t, r, run)
}
