// C06, unit Rename — "two points belong to the same group exactly when they agree on the measurement
// (if grouping by measurement) and on every group-by tag value", for messages whose MEASUREMENT
// CHANGES BELOW THE GROUPING: 2-3 parents, each selecting one measurement and grouping (in the
// from()/query() node or in a groupBy node, by tags and optionally by measurement), merged by
// union(..)[.rename(..)] - the pipeline node that renames messages - on stream edges, on batch edges
// born from per-parent count windows and on the batch edges of a batch task; below the union an
// optional second groupBy and one node with per-group state.
//
// Oracle (direct, no second run, independent of the order in which the union hands the parents'
// messages on): the partition the property defines is computed from the input - the measurement a
// message carries below the union (the new name if renamed) when grouping by measurement, and the
// group-by tag values - and compared with what a per-group counter below the union counted:
//   - eval(lambda: count()) / stateCount(lambda: "v" >= 0): the values seen in group g are exactly
//     1..N(g) (each once);
//   - window().periodCount(k).everyCount(k)|count('v'): floor(N(g)/k) counts, each k.
// and identity, observed directly below the union (log 'U') and at the end (log 'S'): messages of
// the same group carry the same group id, messages of different groups different ids.
package c06

import (
	"fmt"
	"os"
	"sort"
	"strings"
	"testing"

	"verifharness/kit"

	"pgregory.net/rapid"
)

type RNPoint struct {
	Par int    `json:"par"` // parent: measurement m<par>
	A   string `json:"a"`
	B   string `json:"b"`
}

type RenameCase struct {
	Edge    string   `json:"edge"`    // stream | window (stream parents, each followed by a count window) | batch (batch task)
	NPar    int      `json:"npar"`    // 2-3 parents
	Dims    []string `json:"dims"`    // ["a"] ["a","b"] ["b"] ["*"]
	GroupAt string   `json:"groupat"` // from: from()/query() properties; node: a groupBy node below each parent
	ByMeas  string   `json:"bymeas"`  // "" | parents (where the parents group) | late (only the groupBy below the union)
	Rename  string   `json:"rename"`  // "" (only when not grouping by measurement) | x | m0 | m1
	Regroup bool     `json:"regroup"` // stream edge: groupBy(dims) below the union (.byMeasurement() iff grouping by measurement)
	Node    string   `json:"node"`    // evalCount | stateCount | postWindow
	K       int      `json:"k"`       // size of the count windows
	// Periods: stream/window edge: one sequence, in time order; batch edge: the points of each query period
	Periods [][]RNPoint `json:"periods"`
}

const ruleRename = "rapid: 2-3 parents (from().measurement(m<i>) / query of m<i>) grouping by a|a,b|b|* in the source node or a groupBy node, optionally by measurement, merged by union()[.rename(new name | name of a parent)] on stream edges, batch edges from per-parent count windows, and batch-task edges; " +
	"below it optionally a second groupBy (stream) and a per-group counter (eval count(), stateCount, count window + count) x 2-24 points over 1-4 tag tuples (hostile values); " +
	"oracle: per group of the property's partition (measurement below the union, group-by tag values) the counter values are exactly 1..N / floor(N/k) windows of k, and group ids observed below the union and at the end are equal exactly for equal groups; " +
	"non-trivial = grouping by measurement, renamed, and some group receives points of >= 2 parents while >= 2 groups exist; distinct by case hash"

// VERIF_C06_RENAME_NO_IDENTITY=1 switches the identity comparison off (sensitivity runs of the
// membership oracle alone).
var renameNoIdentity = os.Getenv("VERIF_C06_RENAME_NO_IDENTITY") != ""

func genRename(r *kit.Rec) func(t *rapid.T) RenameCase {
	return func(t *rapid.T) RenameCase {
		var c RenameCase
		c.Edge = rapid.SampledFrom([]string{"stream", "stream", "stream", "window", "batch"}).Draw(t, "edge")
		c.NPar = rapid.IntRange(2, 3).Draw(t, "npar")
		c.Dims = rapid.SampledFrom([][]string{{"a"}, {"a", "b"}, {"b"}, {"*"}}).Draw(t, "dims")
		c.GroupAt = rapid.SampledFrom([]string{"from", "node"}).Draw(t, "groupat")
		c.Node = "evalCount"
		c.K = rapid.IntRange(1, 3).Draw(t, "k")
		if c.Edge == "stream" {
			c.Regroup = rapid.Bool().Draw(t, "regroup")
			c.Node = rapid.SampledFrom([]string{"evalCount", "stateCount", "postWindow"}).Draw(t, "node")
		}
		bm := []string{"", "parents", "parents", "parents"}
		if c.Regroup {
			bm = append(bm, "late")
		}
		c.ByMeas = rapid.SampledFrom(bm).Draw(t, "bymeas")
		rn := []string{"x", "x", "m0", "m1"}
		if c.ByMeas == "" {
			// the un-renamed union is only generated where the measurement does not take part in the grouping
			rn = append(rn, "")
		}
		c.Rename = rapid.SampledFrom(rn).Draw(t, "rename")
		ng := rapid.IntRange(1, 4).Draw(t, "ngroups")
		type tup struct{ a, b string }
		var tuples []tup
		for i := 0; i < ng; i++ {
			tuples = append(tuples, tup{genTag(t, r, "a"), genTag(t, r, "b")})
		}
		np := 1
		if c.Edge == "batch" {
			np = rapid.IntRange(1, 3).Draw(t, "nperiods")
		}
		for i := 0; i < np; i++ {
			var ps []RNPoint
			lo := 2
			if np > 1 {
				lo = 0
			}
			for j, n := 0, rapid.IntRange(lo, 24/np).Draw(t, "n"); j < n; j++ {
				tp := tuples[rapid.IntRange(0, ng-1).Draw(t, "g")]
				ps = append(ps, RNPoint{Par: rapid.IntRange(0, c.NPar-1).Draw(t, "par"), A: tp.a, B: tp.b})
			}
			c.Periods = append(c.Periods, ps)
		}
		return c
	}
}

func (c RenameCase) quotedDims() string {
	if c.Dims[0] == "*" {
		return "*"
	}
	var q []string
	for _, d := range c.Dims {
		q = append(q, "'"+d+"'")
	}
	return strings.Join(q, ", ")
}

func (c RenameCase) script() string {
	var s strings.Builder
	for i := 0; i < c.NPar; i++ {
		if c.Edge == "batch" {
			fmt.Fprintf(&s, "var p%d = batch|query('SELECT * FROM \"db\".\"rp\".\"m%d\"').period(10s).every(10s)", i, i)
		} else {
			fmt.Fprintf(&s, "var p%d = stream|from().measurement('m%d')", i, i)
		}
		if c.GroupAt == "from" {
			fmt.Fprintf(&s, ".groupBy(%s)", c.quotedDims())
			if c.ByMeas == "parents" {
				s.WriteString(".groupByMeasurement()")
			}
		} else {
			fmt.Fprintf(&s, "|groupBy(%s)", c.quotedDims())
			if c.ByMeas == "parents" {
				s.WriteString(".byMeasurement()")
			}
		}
		if c.Edge == "window" {
			fmt.Fprintf(&s, "|window().periodCount(%d).everyCount(%d)", c.K, c.K)
		}
		s.WriteString("\n")
	}
	s.WriteString("p0|union(p1")
	if c.NPar == 3 {
		s.WriteString(", p2")
	}
	s.WriteString(")")
	if c.Rename != "" {
		fmt.Fprintf(&s, ".rename('%s')", c.Rename)
	}
	s.WriteString("|log().prefix('U')")
	if c.Regroup {
		fmt.Fprintf(&s, "|groupBy(%s)", c.quotedDims())
		if c.ByMeas != "" {
			s.WriteString(".byMeasurement()")
		}
	}
	switch c.Node {
	case "evalCount":
		s.WriteString("|eval(lambda: count()).as('c').keep()")
	case "stateCount":
		s.WriteString("|stateCount(lambda: \"v\" >= 0).as('c')")
	case "postWindow":
		fmt.Fprintf(&s, "|window().periodCount(%d).everyCount(%d)|count('v')", c.K, c.K)
	}
	s.WriteString("|log().prefix('S')")
	return s.String()
}

func (c RenameCase) dimNames() []string {
	if c.Dims[0] == "*" {
		return []string{"a", "b"}
	}
	d := append([]string(nil), c.Dims...)
	sort.Strings(d)
	return d
}

// groupTags: the group-by tags of a point.
func (c RenameCase) groupTags(p RNPoint) map[string]string {
	all := map[string]string{"a": p.A, "b": p.B}
	g := map[string]string{}
	for _, d := range c.dimNames() {
		g[d] = all[d]
	}
	return g
}

// nameBelowUnion: the measurement a message of parent par carries below the union.
func (c RenameCase) nameBelowUnion(par int) string {
	if c.Rename != "" {
		return c.Rename
	}
	return fmt.Sprintf("m%d", par)
}

// key of the group a message with this measurement and these tags belongs to (the property's definition).
func (c RenameCase) key(byMeas bool, name string, tags map[string]string) string {
	parts := []string{}
	if byMeas {
		parts = append(parts, "M:"+name)
	}
	for _, d := range c.dimNames() {
		parts = append(parts, tags[d])
	}
	return fmt.Sprintf("%q", parts)
}

func runRename(c RenameCase, cc *kit.Case) {
	script := c.script()
	cc.Label("edge:" + c.Edge)
	cc.Label("groupat:" + c.GroupAt)
	cc.Label("bymeas:" + c.ByMeas)
	cc.Label("node:" + c.Node)
	switch c.Rename {
	case "":
		cc.Label("rename:none")
	case "x":
		cc.Label("rename:new-name")
	default:
		cc.Label("rename:name-of-a-parent")
	}
	if c.Regroup {
		cc.Label("groupBy-below-union")
	}
	byMeasU := c.ByMeas == "parents" // directly below the union
	byMeasS := c.ByMeas != ""        // at the counter and below

	// the points that reach the union, per parent; N(g) of the property's partition
	type src struct {
		par int
		key string
	}
	want := map[string]int{}    // group at the counter -> points
	parents := map[string]map[int]bool{}
	passed := map[src]int{}
	for _, ps := range c.Periods {
		for _, p := range ps {
			passed[src{p.Par, c.key(false, "", c.groupTags(p))}]++
		}
	}
	for s, n := range passed {
		if c.Edge == "window" {
			n = n / c.K * c.K // tumbling count windows: only full windows are emitted
		}
		if n == 0 {
			continue
		}
		// the same tags, below the union
		var tags map[string]string
		for _, ps := range c.Periods {
			for _, p := range ps {
				if p.Par == s.par && c.key(false, "", c.groupTags(p)) == s.key {
					tags = c.groupTags(p)
				}
			}
		}
		k := c.key(byMeasS, c.nameBelowUnion(s.par), tags)
		want[k] += n
		if parents[k] == nil {
			parents[k] = map[int]bool{}
		}
		parents[k][s.par] = true
	}
	merged := false
	for _, ps := range parents {
		if len(ps) >= 2 {
			merged = true
		}
	}
	if merged {
		cc.Label("group-fed-by-several-parents")
	}
	if byMeasS && c.Rename != "" && merged && len(want) >= 2 {
		cc.NonTrivial()
	}

	env, err := kit.NewEnv(kit.EnvOpts{})
	if err != nil {
		cc.Fail("harness/env", "env: %v", err)
		return
	}
	defer env.Close()
	var defErr, runErr error
	if c.Edge == "batch" {
		perQuery := make([][]kit.Bt, c.NPar)
		serial := int64(0)
		for pi, ps := range c.Periods {
			tmax := t0 + int64(pi+1)*10*sec
			for par := 0; par < c.NPar; par++ {
				name := fmt.Sprintf("m%d", par)
				if c.GroupAt == "node" {
					// one ungrouped batch per query and period; the groupBy node below the query groups it
					bt := kit.Bt{Name: name, TMax: tmax, Points: []kit.Pt{}}
					for j, p := range ps {
						if p.Par == par {
							bt.Points = append(bt.Points, kit.Pt{Tags: map[string]string{"a": p.A, "b": p.B}, Fields: map[string]kit.FV{"v": kit.I(serial)}, Time: t0 + int64(pi)*10*sec + int64(j)*1e6})
							serial++
						}
					}
					perQuery[par] = append(perQuery[par], bt)
					continue
				}
				// the query groups: one batch per series (group) of the result, tagged with the group-by tags
				var order []string
				by := map[string]*kit.Bt{}
				for j, p := range ps {
					if p.Par != par {
						continue
					}
					g := c.groupTags(p)
					k := c.key(false, "", g)
					if by[k] == nil {
						by[k] = &kit.Bt{Name: name, Tags: g, ByName: c.ByMeas == "parents", TMax: tmax, Points: []kit.Pt{}}
						order = append(order, k)
					}
					by[k].Points = append(by[k].Points, kit.Pt{Tags: g, Fields: map[string]kit.FV{"v": kit.I(serial)}, Time: t0 + int64(pi)*10*sec + int64(j)*1e6})
					serial++
				}
				for _, k := range order {
					perQuery[par] = append(perQuery[par], *by[k])
				}
			}
		}
		if c.GroupAt == "node" {
			// the batch groupBy node hands a batch's groups on when the next batch begins
			for par := 0; par < c.NPar; par++ {
				perQuery[par] = append(perQuery[par], kit.Bt{Name: fmt.Sprintf("m%d", par), TMax: t0 + int64(len(c.Periods)+1)*10*sec, Points: []kit.Pt{}})
			}
		}
		defErr, runErr = env.RunBatch(script, perQuery)
	} else {
		var pts []kit.Pt
		for j, p := range c.Periods[0] {
			pts = append(pts, kit.Pt{Name: fmt.Sprintf("m%d", p.Par), Tags: map[string]string{"a": p.A, "b": p.B}, Fields: map[string]kit.FV{"v": kit.I(int64(j))}, Time: t0 + int64(j)*sec})
		}
		defErr, runErr = env.RunStream(script, pts)
	}
	if defErr != nil {
		cc.Fail("harness/script-rejected", "script rejected: %v\n%s", defErr, script)
		return
	}
	if runErr != nil {
		cc.Fail("task-error", "task ended with error: %v\n%s", runErr, script)
		return
	}

	// identity: same group <=> same group id, directly below the union and at the end
	for _, at := range []struct {
		prefix string
		byMeas bool
	}{{"U", byMeasU}, {"S", byMeasS}} {
		if renameNoIdentity {
			break
		}
		idOf := map[string]string{}
		keyOf := map[string]string{}
		for _, o := range env.Sink.By(at.prefix) {
			var k, gid string
			if o.P != nil {
				k, gid = c.key(at.byMeas, o.P.Name, o.P.Tags), o.P.Group
			} else {
				k, gid = c.key(at.byMeas, o.B.Name, o.B.Tags), o.B.Group
			}
			if prev, ok := idOf[k]; ok && prev != gid {
				cc.Fail("groupid/split", "log '%s': messages of one group (%s) carry two group ids %q and %q\n%s\npoints: %+v", at.prefix, k, prev, gid, script, c.Periods)
				return
			}
			idOf[k] = gid
			if prev, ok := keyOf[gid]; ok && prev != k {
				cc.Fail("groupid/collision", "log '%s': two different groups %s and %s share the group id %q\n%s\npoints: %+v", at.prefix, prev, k, gid, script, c.Periods)
				return
			}
			keyOf[gid] = k
		}
	}

	// membership: what the per-group counter counted
	got := map[string][]int64{}
	field := "c"
	if c.Node == "postWindow" {
		field = "count"
	}
	take := func(k string, f map[string]kit.FV) bool {
		var n int64
		switch v := f[field].Go().(type) {
		case int64:
			n = v
		case float64:
			n = int64(v)
		default:
			cc.Fail("rename/no-counter-field", "a message below the counter has no numeric field %q: %v\n%s", field, f, script)
			return false
		}
		got[k] = append(got[k], n)
		return true
	}
	for _, o := range env.Sink.By("S") {
		if o.P != nil {
			if !take(c.key(byMeasS, o.P.Name, o.P.Tags), o.P.Fields) {
				return
			}
			continue
		}
		k := c.key(byMeasS, o.B.Name, o.B.Tags)
		for _, bp := range o.B.Points {
			if !take(k, bp.Fields) {
				return
			}
		}
	}
	wantVals := map[string][]int64{}
	for k, n := range want {
		if c.Node == "postWindow" {
			for i := 0; i < n/c.K; i++ {
				wantVals[k] = append(wantVals[k], int64(c.K))
			}
			continue
		}
		for i := 1; i <= n; i++ {
			wantVals[k] = append(wantVals[k], int64(i))
		}
	}
	for k := range got {
		sort.Slice(got[k], func(i, j int) bool { return got[k][i] < got[k][j] })
	}
	keys := map[string]bool{}
	for k := range got {
		keys[k] = true
	}
	for k := range wantVals {
		keys[k] = true
	}
	for _, k := range kit.SortedKeys(keys) {
		if fmt.Sprint(got[k]) != fmt.Sprint(wantVals[k]) && !(len(got[k]) == 0 && len(wantVals[k]) == 0) {
			cc.Fail("rename/group-membership", "group %s: the per-group counter below the union produced %v, the property's partition (%d points in this group) gives %v\n%s\nall groups observed: %v\nexpected: %v\npoints: %+v",
				k, got[k], want[k], wantVals[k], script, got, wantVals, c.Periods)
			return
		}
	}
}

var assumptionsRename = []string{
	"the measurement that takes part in the grouping is the one the message carries where the grouped node receives it: below union().rename('n') every message is named n (pipeline/union.go: 'The new name of the stream'), so messages of different parents that agree on the group-by tags are one group when grouping by measurement (edge/messages.go SetName keeps the group id in step with the name)",
	"union without rename is generated only where the measurement does not take part in the grouping (the documentation 'If empty the name of the left node is used' and the code, which leaves every message its own name, disagree); a groupBy WITHOUT byMeasurement() below a grouping by measurement is not generated (pipeline/group_by.go says groupBy(*) removes the measurement from the group, the node keeps it): both are left open",
	"the union hands every message of every parent on exactly once (C12); nothing is assumed about the order: the counter values of a group are compared as a multiset",
	"count() / stateCount count the points of their group from 1 (Regroup's oracle); on batch edges the state of a stateful lambda function lives as long as the group (one receiver per group id in edge/grouped.go), it is not reset at batch boundaries - stateCount, which is reset per batch, is used on stream edges only",
	"window().periodCount(k).everyCount(k) emits the k most recent points of a group after every k-th point of that group (tumbling; C03), so floor(n/k)*k points of a parent's group reach the union through a per-parent window",
	"batch task: the batches are fed as the query result conversion builds them (edge.ResultToBufferedBatches: one batch per series, named after the measurement, tagged with the group-by tags, by-name flag from groupByMeasurement()); with a groupBy node below the query one ungrouped batch per period and a closing empty batch (the node hands groups on when the next batch begins)",
	"a missing tag and an empty tag value are the same value; tag values containing both ',' and '=' are excluded by construction (known finding groupid/collision/unescaped-comma-equals, counted)",
}

func TestRename(t *testing.T) {
	r := kit.NewRec("C06", "Rename", ruleRename, assumptionsRename...)
	kit.Check(t, r, genRename(r), runRename)
}

func TestReplayRename(t *testing.T) {
	r := kit.NewRec("C06", "Rename", ruleRename, assumptionsRename...)
	kit.Replay(t, r, runRename)
}
