// C06, unit Regroup — "two points belong to the same group exactly when they agree on the
// measurement (if grouping by measurement) and on every group-by tag value": the groupBy node
// itself, on stream and batch edges, with explicit dimensions, groupBy(*) and groupBy(*).exclude(),
// over points whose tag SETS differ from point to point (a tag present on one point and absent on
// the next, another tag in its place, the excluded tag present or not).
//
// Oracle (direct, no second run): per group the number of points counted below the groupBy node -
// batch form: count() per batch and group; stream form: a running count() per group.
package c06

import (
	"encoding/json"
	"fmt"
	"sort"
	"strings"
	"testing"

	"verifharness/kit"

	"pgregory.net/rapid"
)

type RP struct {
	M   int    `json:"m"`
	A   string `json:"a"`
	B   string `json:"b"`
	Src string `json:"src"`
	D   string `json:"d"`
}

type RegroupCase struct {
	Batch   bool   `json:"batch"`
	Dims    string `json:"dims"` // a | ab | star | starex (groupBy(*).exclude('src')) | starex2 (exclude src and d)
	ByMeas  bool   `json:"bymeas"`
	Batches [][]RP `json:"batches"` // stream form: one sequence
}

const ruleRegroup = "rapid: groupBy('a') / ('a','b') / (*) / (*).exclude('src') / (*).exclude('src','d') [.byMeasurement() on stream edges] on stream and batch edges over 1-4 batches of 1-12 points whose tag sets vary from point to point (each of a, b, src, d present or absent, 2 values each); " +
	"oracle: the points counted per group below the node (batch: count() per batch and group, stream: running count() per group) equal the partition the property defines; non-trivial = two consecutive points with the same number of tags but different tag names; distinct by case hash"

func genRegroup(t *rapid.T) RegroupCase {
	c := RegroupCase{Batch: rapid.Bool().Draw(t, "batch")}
	c.Dims = rapid.SampledFrom([]string{"a", "ab", "star", "star", "starex", "starex", "starex2"}).Draw(t, "dims")
	if !c.Batch {
		c.ByMeas = rapid.IntRange(0, 2).Draw(t, "bymeas") == 0
	}
	nb := 1
	if c.Batch {
		nb = rapid.IntRange(1, 4).Draw(t, "nb")
	}
	val := func(label string, vs ...string) string {
		return rapid.SampledFrom(append([]string{"", ""}, vs...)).Draw(t, label)
	}
	for i := 0; i < nb; i++ {
		var b []RP
		for j, n := 0, rapid.IntRange(1, 12).Draw(t, "n"); j < n; j++ {
			p := RP{A: val("a", "x", "y", "x"), B: val("b", "p", "q"), Src: val("src", "s1", "s2"), D: val("d", "e", "f")}
			if c.ByMeas {
				p.M = rapid.IntRange(0, 1).Draw(t, "m")
			}
			b = append(b, p)
		}
		c.Batches = append(c.Batches, b)
	}
	return c
}

func (c RegroupCase) script() string {
	var s strings.Builder
	if c.Batch {
		s.WriteString(`batch|query('SELECT * FROM "db"."rp"."m"').period(10s).every(10s)`)
	} else {
		s.WriteString("stream|from()")
	}
	switch c.Dims {
	case "a":
		s.WriteString("|groupBy('a')")
	case "ab":
		s.WriteString("|groupBy('a', 'b')")
	case "star":
		s.WriteString("|groupBy(*)")
	case "starex":
		s.WriteString("|groupBy(*).exclude('src')")
	case "starex2":
		s.WriteString("|groupBy(*).exclude('src', 'd')")
	}
	if c.ByMeas {
		s.WriteString(".byMeasurement()")
	}
	if c.Batch {
		s.WriteString("|count('v')")
	} else {
		s.WriteString("|eval(lambda: count()).as('c').keep()")
	}
	s.WriteString("|log().prefix('S')")
	return s.String()
}

func (p RP) tags() map[string]string {
	m := map[string]string{}
	for k, v := range map[string]string{"a": p.A, "b": p.B, "src": p.Src, "d": p.D} {
		if v != "" {
			m[k] = v
		}
	}
	return m
}

// groupOf: the group-by tags of a point (tag -> value, absent tags left out) and the key of its group.
func (c RegroupCase) groupOf(p RP) (map[string]string, string) {
	all := p.tags()
	g := map[string]string{}
	switch c.Dims {
	case "a":
		g["a"] = all["a"]
	case "ab":
		g["a"], g["b"] = all["a"], all["b"]
	default:
		for k, v := range all {
			if k == "src" && c.Dims != "star" || k == "d" && c.Dims == "starex2" {
				continue
			}
			g[k] = v
		}
	}
	for k, v := range g {
		if v == "" {
			delete(g, k)
		}
	}
	key := normTags(g)
	if c.ByMeas {
		key = fmt.Sprintf("m%d|", p.M) + key
	}
	return g, key
}

func normTags(m map[string]string) string {
	var ks []string
	for k, v := range m {
		if v != "" {
			ks = append(ks, k)
		}
	}
	sort.Strings(ks)
	var parts []string
	for _, k := range ks {
		parts = append(parts, k+"="+m[k])
	}
	b, _ := json.Marshal(parts)
	return string(b)
}

func runRegroup(c RegroupCase, cc *kit.Case) {
	script := c.script()
	cc.Label("dims:" + c.Dims)
	if c.Batch {
		cc.Label("batch")
	} else {
		cc.Label("stream")
	}
	swapped := false
	for _, b := range c.Batches {
		for j := 1; j < len(b); j++ {
			x, y := b[j-1].tags(), b[j].tags()
			if len(x) == len(y) && normKeys(x) != normKeys(y) {
				swapped = true
			}
		}
	}
	if swapped {
		cc.NonTrivial()
		cc.Label("same-tag-count-other-tag-names")
	}
	env, err := kit.NewEnv(kit.EnvOpts{})
	if err != nil {
		cc.Fail("harness/env", "env: %v", err)
		return
	}
	defer env.Close()
	serial := int64(0)
	if c.Batch {
		var bts []kit.Bt
		type bk struct {
			t   int64
			key string
		}
		want := map[bk]int64{}
		for i, b := range c.Batches {
			bt := kit.Bt{Name: "m", TMax: t0 + int64(i+1)*10*sec, Points: []kit.Pt{}}
			for j, p := range b {
				bt.Points = append(bt.Points, kit.Pt{Tags: p.tags(), Fields: map[string]kit.FV{"v": kit.I(serial)}, Time: t0 + int64(i)*10*sec + int64(j)})
				serial++
				_, key := c.groupOf(p)
				want[bk{bt.TMax, key}]++
			}
			bts = append(bts, bt)
		}
		// the batch groupBy node hands a batch's groups on when the next batch begins: a closing
		// empty batch
		bts = append(bts, kit.Bt{Name: "m", TMax: t0 + int64(len(c.Batches)+1)*10*sec, Points: []kit.Pt{}})
		defErr, runErr := env.RunBatch(script, [][]kit.Bt{bts})
		if defErr != nil {
			cc.Fail("harness/script-rejected", "script rejected: %v\n%s", defErr, script)
			return
		}
		if runErr != nil {
			cc.Fail("task-error", "task ended with error: %v\n%s", runErr, script)
			return
		}
		got := map[bk]int64{}
		for _, o := range env.Sink.By("S") {
			if o.P == nil {
				cc.Fail("regroup/not-a-point", "count() emitted a non-point\n%s", script)
				return
			}
			k := bk{o.P.Time, normTags(o.P.Tags)}
			n, _ := o.P.Fields["count"].Go().(int64)
			if _, dup := got[k]; dup {
				cc.Fail("regroup/group-split", "batch at %d: two groups with the same group-by tags %s (points that agree on every group-by tag were put into different groups)\n%s\nbatches: %+v", (k.t-t0)/sec, k.key, script, c.Batches)
				return
			}
			got[k] = n
		}
		for k, w := range want {
			if got[k] != w {
				cc.Fail("regroup/group-membership", "batch at %d: group %s counts %d points, the property's partition gives %d\n%s\nobserved %v\nexpected %v\nbatches: %+v", (k.t-t0)/sec, k.key, got[k], w, script, got, want, c.Batches)
				return
			}
		}
		for k, n := range got {
			if _, ok := want[k]; !ok && n != 0 {
				cc.Fail("regroup/group-membership", "batch at %d: a group %s with %d points that the property's partition does not have\n%s\nexpected %v\nbatches: %+v", (k.t-t0)/sec, k.key, n, script, want, c.Batches)
				return
			}
		}
		return
	}
	// stream form: the running count of each point within its group
	var pts []kit.Pt
	wantC := map[int64]int64{}
	wantG := map[int64]string{}
	seen := map[string]int64{}
	for j, p := range c.Batches[0] {
		pts = append(pts, kit.Pt{Name: fmt.Sprintf("m%d", p.M), Tags: p.tags(), Fields: map[string]kit.FV{"v": kit.I(serial)}, Time: t0 + int64(j)*sec})
		_, key := c.groupOf(p)
		seen[key]++
		wantC[serial] = seen[key]
		wantG[serial] = key
		serial++
	}
	defErr, runErr := env.RunStream(script, pts)
	if defErr != nil {
		cc.Fail("harness/script-rejected", "script rejected: %v\n%s", defErr, script)
		return
	}
	if runErr != nil {
		cc.Fail("task-error", "task ended with error: %v\n%s", runErr, script)
		return
	}
	obs := env.Sink.By("S")
	if len(obs) != len(pts) {
		cc.Fail("regroup/point-count", "%d points in, %d out\n%s", len(pts), len(obs), script)
		return
	}
	idOf := map[string]string{}
	for _, o := range obs {
		if o.P == nil {
			cc.Fail("regroup/not-a-point", "output is not a point\n%s", script)
			return
		}
		n, _ := o.P.Fields["v"].Go().(int64)
		cnt, _ := o.P.Fields["c"].Go().(int64)
		if cnt != wantC[n] {
			cc.Fail("regroup/group-membership", "point %d (tags %v) is number %d of its group (id %q), the property's partition makes it number %d of group %s\n%s\npoints: %+v", n, o.P.Tags, cnt, o.P.Group, wantC[n], wantG[n], script, c.Batches[0])
			return
		}
		if prev, ok := idOf[wantG[n]]; ok && prev != o.P.Group {
			cc.Fail("groupid/split", "points of one group (%s) carry two group ids %q and %q\n%s", wantG[n], prev, o.P.Group, script)
			return
		}
		idOf[wantG[n]] = o.P.Group
	}
}

func normKeys(m map[string]string) string {
	var ks []string
	for k := range m {
		ks = append(ks, k)
	}
	sort.Strings(ks)
	return strings.Join(ks, ",")
}

var assumptionsRegroup = []string{
	"groupBy(*) groups by every tag the point carries, minus the excluded ones; a tag the point does not carry does not take part (and equals an empty value for explicit dimensions)",
	"tag values are plain (the collision class of hostile values is the GroupID unit's subject)",
	"batch form: one query node, the batches are fed as the replay path does; count() emits one point per batch and group, stamped with the batch time; the groupBy node hands the groups of a batch on when the next batch begins, so a closing empty batch follows the generated ones",
}

func TestRegroup(t *testing.T) {
	r := kit.NewRec("C06", "Regroup", ruleRegroup, assumptionsRegroup...)
	kit.Check(t, r, genRegroup, runRegroup)
}

func TestReplayRegroup(t *testing.T) {
	r := kit.NewRec("C06", "Regroup", ruleRegroup, assumptionsRegroup...)
	kit.Replay(t, r, runRegroup)
}
