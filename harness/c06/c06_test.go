// C06 — groups are processed independently and identified by their tag values.
//
// Unit Isolation (metamorphic, no model): the sink output of a run over interleaved groups,
// filtered to group g, must equal the sink output of a run fed only g's points.
// Unit GroupID: injectivity of the group identity over generated (measurement, tag tuple) pairs.
package c06

import (
	"encoding/json"
	"fmt"
	"os"
	"reflect"
	"sort"
	"strings"
	"testing"
	"time"

	"verifharness/kit"

	"github.com/influxdata/kapacitor"

	"github.com/influxdata/kapacitor/models"
	"pgregory.net/rapid"
)

type P struct {
	M   int    `json:"m"` // measurement index
	A   string `json:"a"`
	B   string `json:"b"`
	V   int64  `json:"v"`
	Gap int64  `json:"gap"`
}

type Case struct {
	Dims   []string `json:"dims"` // ["a"], ["a","b"], ["*"]
	ByMeas bool     `json:"bymeas"`
	Vars   string   `json:"vars"`  // var declarations (nested lambda variables)
	Chain  []string `json:"chain"` // script fragments below groupBy
	Pts    []P      `json:"pts"`
	// FromGroup: the from() node already groups by the same tags (without the measurement); the
	// groupBy node then repeats the tag list
	FromGroup bool `json:"fromgroup,omitempty"`
	// PauseAt > 0: the pipeline starts with barrier().idle(150ms).delete(TRUE) below the groupBy;
	// before point PauseAt the feeder waits until every group has been deleted (every grouped
	// node reports cardinality 0). A group starts afresh after its deletion.
	PauseAt int `json:"pauseat,omitempty"`
}

const barrierIdle = 150 * time.Millisecond

const ruleIso = "rapid: groupBy(dims|*)[.byMeasurement()] + 1-3 grouping-aware stateful nodes x points of 2-4 groups with hostile tag values x interleaving; " +
	"optionally from() already grouped by the same tags, optionally barrier().idle().delete(TRUE) with a pause during which every group is deleted; " +
	"oracle: output filtered to group g == output of a run fed only g; non-trivial = >=2 groups whose points are interleaved (not concatenated) below >=1 stateful node; distinct by case hash"

const sec = int64(1e9)
const t0 = int64(1_500_000_000) * sec

// known finding C06/groupid-collision: ToGroupID joins k=v pairs with ',' without escaping, so a
// value containing ",<k>=" collides. The class "value contains both ',' and '='" is excluded by
// construction (counted); VERIF_C06_NO_EXCLUDE=1 generates it again.
var noExclude = os.Getenv("VERIF_C06_NO_EXCLUDE") != ""

// C06/nested-lambda-state (a stateful function reached through a lambda variable shared its state
// across groups) was repaired in /repo by a fix: commit; the class is generated.

var tagPool = []string{"x", "y", "", " ", "x y", "a,b", "k=v", "é", `x\`, `"q"`, ",", "=", "b=y", "x,", "x,b=y", "y,b="}

func collisionProne(s string) bool { return strings.Contains(s, ",") && strings.Contains(s, "=") }

func genTag(t *rapid.T, r *kit.Rec, label string) string {
	for {
		v := rapid.SampledFrom(tagPool).Draw(t, label)
		if !noExclude && collisionProne(v) {
			r.Exclude("tag-value-with-comma-and-equals")
			continue
		}
		return v
	}
}

func genChain(t *rapid.T, r *kit.Rec) (vars string, chain []string) {
	k := rapid.IntRange(1, 3).Draw(t, "nchain")
	thr := func() int { return rapid.IntRange(0, 6).Draw(t, "thr") }
	streamEdge := true
	for i := 0; i < k; i++ {
		var menu []string
		if streamEdge {
			menu = []string{"windowT", "windowC", "stateCount", "stateDuration", "derivative", "changeDetect", "sample", "evalCount", "evalSigma", "whereCount", "sum", "cumulativeSum", "movingAverage", "difference", "elapsed", "alert", "nested",
				"deleteDim", "deleteDim", "mixedWhere", "mixedEval", "mixedState", "defaultTag"}
		} else {
			menu = []string{"bcount", "bsum", "bmax"}
		}
		switch rapid.SampledFrom(menu).Draw(t, "node") {
		case "windowT":
			p := rapid.IntRange(1, 6).Draw(t, "period")
			e := rapid.IntRange(0, 6).Draw(t, "every")
			chain = append(chain, fmt.Sprintf("|window().period(%ds).every(%ds)", p, e))
			streamEdge = false
		case "windowC":
			chain = append(chain, fmt.Sprintf("|window().periodCount(%d).everyCount(%d)", rapid.IntRange(1, 4).Draw(t, "pc"), rapid.IntRange(1, 4).Draw(t, "ec")))
			streamEdge = false
		case "bcount":
			chain = append(chain, "|count('v')")
			streamEdge = true
			return // the field is now called count: keep the chain well-formed
		case "bsum":
			chain = append(chain, "|sum('v').as('v')")
			streamEdge = true
		case "bmax":
			chain = append(chain, "|max('v').as('v')")
			streamEdge = true
		case "stateCount":
			chain = append(chain, fmt.Sprintf("|stateCount(lambda: \"v\" > %d).as('sc%d')", thr(), i))
		case "stateDuration":
			chain = append(chain, fmt.Sprintf("|stateDuration(lambda: \"v\" > %d).as('sd%d')", thr(), i))
		case "derivative":
			chain = append(chain, fmt.Sprintf("|derivative('v').as('d%d')", i))
		case "changeDetect":
			chain = append(chain, "|changeDetect('v')")
		case "sample":
			chain = append(chain, fmt.Sprintf("|sample(%d)", rapid.IntRange(2, 3).Draw(t, "sn")))
		case "evalCount":
			chain = append(chain, fmt.Sprintf("|eval(lambda: count()).as('c%d').keep()", i))
		case "evalSigma":
			chain = append(chain, fmt.Sprintf("|eval(lambda: sigma(\"v\"), lambda: spread(\"v\")).as('sg%d', 'sp%d').keep()", i, i))
		case "whereCount":
			chain = append(chain, "|where(lambda: count() % 2 == 1)")
		case "sum":
			chain = append(chain, "|sum('v').as('v')")
		case "cumulativeSum":
			chain = append(chain, "|cumulativeSum('v').as('v')")
		case "movingAverage":
			chain = append(chain, "|movingAverage('v', 2).as('ma')")
			return
		case "difference":
			chain = append(chain, "|difference('v').as('v')")
		case "elapsed":
			chain = append(chain, "|elapsed('v', 1s).as('v')")
		case "alert":
			chain = append(chain, fmt.Sprintf("|alert().warn(lambda: \"v\" > %d).crit(lambda: \"v\" > %d).critReset(lambda: \"v\" < %d).stateChangesOnly().levelField('lvl%d').durationField('dur%d').idField('id%d')", thr(), thr()+2, thr(), i, i, i))
		case "deleteDim":
			if len(chain) > 0 {
				// nodes above may drop the field that identifies the group at the sink
				chain = append(chain, fmt.Sprintf("|stateCount(lambda: \"v\" > %d).as('sc%d')", thr(), i))
				continue
			}
			// deleting a group-by tag below a stateful node must not disturb the grouping above it
			chain = append(chain, fmt.Sprintf("|stateCount(lambda: \"v\" > %d).as('dsc%d')", thr(), i), fmt.Sprintf("|delete().tag('%s')", rapid.SampledFrom([]string{"a", "b"}).Draw(t, "deltag")))
			return
		case "defaultTag":
			chain = append(chain, "|default().tag('zz', 'dflt').field('q', 1)")
		case "mixedWhere":
			// the right operand's type (field thr: int in some groups, float in others) differs between groups
			chain = append(chain, "|where(lambda: count() > \"thr\")")
		case "mixedEval":
			chain = append(chain, fmt.Sprintf("|eval(lambda: count() >= \"thr\", lambda: \"thr\" * \"thr\").as('me%d', 'mq%d').keep()", i, i))
		case "mixedState":
			chain = append(chain, fmt.Sprintf("|stateCount(lambda: count() > \"thr\").as('ms%d')", i))
		case "nested":
			vars += fmt.Sprintf("var nl%d = lambda: count()\n", i)
			chain = append(chain, fmt.Sprintf("|eval(lambda: nl%d + 0).as('n%d').keep()", i, i))
		}
	}
	return
}

func genIso(r *kit.Rec) func(t *rapid.T) Case {
	return func(t *rapid.T) Case {
		var c Case
		c.Dims = rapid.SampledFrom([][]string{{"a"}, {"a", "b"}, {"*"}, {"b"}}).Draw(t, "dims")
		c.ByMeas = rapid.IntRange(0, 3).Draw(t, "bymeas") == 0
		c.Vars, c.Chain = genChain(t, r)
		c.FromGroup = c.Dims[0] != "*" && rapid.IntRange(0, 4).Draw(t, "fromgroup") == 0
		barrier := rapid.IntRange(0, 19).Draw(t, "barrier") == 0
		if barrier {
			// only nodes whose output does not depend on the barrier's own (wall-clock) time
			c.Vars, c.Chain = "", nil
			for i, k := 0, rapid.IntRange(1, 2).Draw(t, "bchain"); i < k; i++ {
				c.Chain = append(c.Chain, []string{
					fmt.Sprintf("|stateCount(lambda: \"v\" > %d).as('sc%d')", rapid.IntRange(0, 6).Draw(t, "bthr"), i),
					fmt.Sprintf("|eval(lambda: count()).as('c%d').keep()", i),
					"|where(lambda: count() % 2 == 1)",
					"|changeDetect('v')",
					"|sample(2)",
					fmt.Sprintf("|derivative('v').as('d%d')", i),
					"|cumulativeSum('v').as('v')",
				}[rapid.IntRange(0, 6).Draw(t, "bnode")])
			}
		}
		// 2-4 group tuples
		ng := rapid.IntRange(2, 4).Draw(t, "ngroups")
		type tup struct {
			m    int
			a, b string
		}
		var tuples []tup
		for i := 0; i < ng; i++ {
			tp := tup{a: genTag(t, r, "a"), b: genTag(t, r, "b")}
			if c.ByMeas {
				tp.m = rapid.IntRange(0, 1).Draw(t, "m")
			}
			tuples = append(tuples, tp)
		}
		n := rapid.IntRange(2, 40).Draw(t, "n")
		for i := 0; i < n; i++ {
			tp := tuples[rapid.IntRange(0, ng-1).Draw(t, "g")]
			c.Pts = append(c.Pts, P{M: tp.m, A: tp.a, B: tp.b, V: int64(rapid.IntRange(0, 8).Draw(t, "v")),
				Gap: rapid.SampledFrom([]int64{0, 1, sec, sec, sec, 2 * sec, 5 * sec}).Draw(t, "gap")})
		}
		if barrier {
			c.PauseAt = rapid.IntRange(1, n-1).Draw(t, "pauseat")
		}
		return c
	}
}

func (c Case) script() string {
	var s strings.Builder
	s.WriteString(c.Vars)
	s.WriteString("stream|from()")
	if c.FromGroup {
		var q []string
		for _, d := range c.Dims {
			q = append(q, "'"+d+"'")
		}
		fmt.Fprintf(&s, ".groupBy(%s)", strings.Join(q, ", "))
	}
	if c.Dims[0] == "*" {
		s.WriteString("|groupBy(*)")
	} else {
		var q []string
		for _, d := range c.Dims {
			q = append(q, "'"+d+"'")
		}
		fmt.Fprintf(&s, "|groupBy(%s)", strings.Join(q, ", "))
	}
	if c.ByMeas {
		s.WriteString(".byMeasurement()")
	}
	if c.PauseAt > 0 {
		fmt.Fprintf(&s, "|barrier().idle(%dms).delete(TRUE)", barrierIdle/time.Millisecond)
	}
	for _, f := range c.Chain {
		s.WriteString(f)
	}
	s.WriteString("|log().prefix('S')")
	return s.String()
}

func (c Case) dimNames() []string {
	if c.Dims[0] == "*" {
		return []string{"a", "b"}
	}
	d := append([]string(nil), c.Dims...)
	sort.Strings(d)
	return d
}

// key is the group a point belongs to according to the property: the measurement (if grouping
// by measurement) and every group-by tag value.
func (c Case) key(name string, tags map[string]string) string {
	parts := []string{}
	if c.ByMeas {
		parts = append(parts, name)
	}
	for _, d := range c.dimNames() {
		parts = append(parts, tags[d])
	}
	b, _ := json.Marshal(parts)
	return string(b)
}

func (c Case) points() []kit.Pt {
	t := t0
	var pts []kit.Pt
	for i, p := range c.Pts {
		t += p.Gap
		pt := kit.Pt{Name: fmt.Sprintf("m%d", p.M), Tags: map[string]string{"a": p.A, "b": p.B},
			Fields: map[string]kit.FV{"v": kit.I(p.V), "n": kit.I(int64(i)), "thr": thrOf(p)}, Time: t}
		// the group the point belongs to, carried as a field so that a sink below a node that deletes a
		// group-by tag can still tell the groups apart
		pt.Fields["gk"] = kit.S(c.key(pt.Name, pt.Tags))
		pts = append(pts, pt)
	}
	return pts
}

// thrOf: a threshold field whose TYPE depends on the point's tag tuple (int in some groups, float in others).
func thrOf(p P) kit.FV {
	h := 0
	for _, ch := range p.A + "|" + p.B {
		h = h*31 + int(ch)
	}
	if h%2 == 0 {
		return kit.I(2)
	}
	return kit.F(2)
}

func obsKey(c Case, o kit.Obs) (key, gid string) {
	if o.P != nil {
		if gk, ok := o.P.Fields["gk"]; ok && gk.T == "s" {
			return gk.V, o.P.Group
		}
		return c.key(o.P.Name, o.P.Tags), o.P.Group
	}
	return c.key(o.B.Name, o.B.Tags), o.B.Group
}

func runOnce(c Case, pts []kit.Pt, needAlert bool) ([]kit.Obs, error, error) {
	obs, _, defErr, runErr := runPaused(c, pts, -1, needAlert)
	return obs, defErr, runErr
}

// runPaused feeds pts; before the point whose field n is >= pauseN (if pauseN >= 0) it waits until
// the barrier has deleted every group. timing=false: the wall clock did not cooperate (a stall
// while feeding let the idle barrier fire where none is planned, or the deletion was not seen
// within the bound): the run says nothing.
func runPaused(c Case, pts []kit.Pt, pauseN int64, needAlert bool) (obs []kit.Obs, timing bool, defErr, runErr error) {
	env, err := kit.NewEnv(kit.EnvOpts{Alerts: needAlert})
	if err != nil {
		return nil, false, err, nil
	}
	defer env.Close()
	if pauseN < 0 {
		defErr, runErr = env.RunStream(c.script(), pts)
		return env.Sink.By("S"), true, defErr, runErr
	}
	et, err := env.StartTask("t"+kit.Unique(), c.script(), kapacitor.StreamTask, nil)
	if err != nil {
		return nil, false, err, nil
	}
	timing = true
	paused := false
	fed := 0
	last := time.Now()
	for _, p := range pts {
		if !paused && p.Fields["n"].Go().(int64) >= pauseN {
			paused = true
			// wait until the points fed so far have arrived (some node holds a group), then until
			// no grouped node holds a group any more
			deadline := time.Now().Add(5 * time.Second)
			seen := fed == 0
			for {
				st, serr := et.ExecutionStats()
				groups := int64(0)
				if serr == nil {
					for _, ns := range st.NodeStats {
						if v, ok := ns["working_cardinality"].(int64); ok {
							groups += v
						}
					}
				}
				if serr == nil && groups > 0 {
					seen = true
				}
				if serr == nil && groups == 0 && seen {
					break
				}
				if time.Now().After(deadline) {
					timing = false
					break
				}
				time.Sleep(2 * time.Millisecond)
			}
			last = time.Now()
		}
		if time.Since(last) > barrierIdle/3 {
			timing = false // a stall: the idle barrier may have fired in the middle of the data
		}
		if p.DB == "" {
			p.DB, p.RP = "db", "rp"
		}
		if err := env.TM.WriteKapacitorPoint(p.Msg()); err != nil {
			return nil, false, nil, err
		}
		fed++
		last = time.Now()
	}
	env.TM.Drain()
	et.StopStats()
	runErr = et.Wait()
	return env.Sink.By("S"), timing, nil, runErr
}

func fmtObs(os []kit.Obs) string {
	var s []string
	for _, o := range os {
		b, _ := json.Marshal(o)
		s = append(s, string(b))
	}
	return strings.Join(s, "\n    ")
}

func runIso(c Case, cc *kit.Case) {
	pts := c.points()
	script := c.script()
	needAlert := strings.Contains(script, "|alert()")
	pauseN := int64(-1)
	if c.PauseAt > 0 {
		pauseN = int64(c.PauseAt)
		cc.Label("barrier-delete")
	}
	if c.FromGroup {
		cc.Label("from-groups-by-the-same-tags")
	}
	full, timing, defErr, runErr := runPaused(c, pts, pauseN, needAlert)
	if !timing {
		cc.Label("barrier-timing-inconclusive")
		return
	}
	if defErr != nil {
		cc.Fail("harness/script-rejected", "script rejected: %v\n%s", defErr, script)
		return
	}
	if runErr != nil {
		cc.Fail("task-error", "task ended with error: %v\n%s", runErr, script)
		return
	}
	// groups by the property's definition, and their interleaving
	var order []string
	byKey := map[string][]kit.Pt{}
	switches := 0
	last := ""
	for _, p := range pts {
		k := c.key(p.Name, p.Tags)
		if _, ok := byKey[k]; !ok {
			order = append(order, k)
		}
		byKey[k] = append(byKey[k], p)
		if last != "" && last != k {
			switches++
		}
		last = k
	}
	for _, f := range c.Chain {
		cc.Label("node:" + strings.SplitN(strings.TrimPrefix(f, "|"), "(", 2)[0])
	}
	hostile := false
	for _, p := range c.Pts {
		for _, v := range []string{p.A, p.B} {
			if v == "" || strings.ContainsAny(v, ", =") {
				hostile = true
			}
		}
	}
	if hostile {
		cc.Label("hostile-tag-value")
	}
	if len(order) >= 2 && switches >= len(order) {
		cc.NonTrivial()
		cc.Label("interleaved")
	}

	// identity, as observed at the sink: same tuple <=> same group id
	idOf := map[string]string{}
	keyOf := map[string]string{}
	fullBy := map[string][]kit.Obs{}
	regrouped := strings.Contains(script, "|delete().tag(") // the sink sees the grouping after a group-by tag was deleted
	for _, o := range full {
		k, gid := obsKey(c, o)
		if regrouped {
			fullBy[k] = append(fullBy[k], o)
			continue
		}
		if prev, ok := idOf[k]; ok && prev != gid {
			cc.Fail("groupid/split", "points of one group (%s) carry two group ids %q and %q\n%s", k, prev, gid, script)
			return
		}
		idOf[k] = gid
		if prev, ok := keyOf[gid]; ok && prev != k {
			sig := "groupid/collision"
			if collisionProne(k) {
				sig = "groupid/collision/unescaped-comma-equals"
			}
			cc.Fail(sig, "two different groups %s and %s share the group id %q\n%s", prev, k, gid, script)
			return
		}
		keyOf[gid] = k
		fullBy[k] = append(fullBy[k], o)
	}

	// isolation
	for _, k := range order {
		solo, timing, dErr, rErr := runPaused(c, byKey[k], pauseN, needAlert)
		if !timing {
			cc.Label("barrier-timing-inconclusive")
			return
		}
		if dErr != nil || rErr != nil {
			cc.Fail("task-error", "single-group run failed: %v %v\n%s", dErr, rErr, script)
			return
		}
		if !reflect.DeepEqual(solo, fullBy[k]) && !(len(solo) == 0 && len(fullBy[k]) == 0) {
			sig := "isolation/output-differs"
			if strings.Contains(c.Vars, "lambda: count()") {
				sig = "isolation/nested-lambda-state-shared"
			}
			for _, p := range c.Pts {
				if collisionProne(p.A) || collisionProne(p.B) {
					sig = "groupid/collision/unescaped-comma-equals"
				}
			}
			cc.Fail(sig, "group %s: output of the interleaved run differs from the run fed only this group\nscript: %s\ninterleaved run, filtered:\n    %s\nsingle-group run:\n    %s", k, script, fmtObs(fullBy[k]), fmtObs(solo))
			return
		}
	}
}

// ---------------------------------------------------------------- GroupID unit

type IDCase struct {
	ByName bool     `json:"byname"`
	Dims   []string `json:"dims"`
	N1, N2 string
	T1, T2 map[string]string
}

const ruleID = "rapid: pairs of (measurement, tag map) under generated dimensions; oracle: models.ToGroupID equal <=> same measurement (when grouping by measurement) and same value for every dimension; " +
	"non-trivial = the two tuples differ in exactly one position or contain a ',', '=' or empty value; distinct by case hash"

func genID(r *kit.Rec) func(t *rapid.T) IDCase {
	return func(t *rapid.T) IDCase {
		var c IDCase
		c.ByName = rapid.Bool().Draw(t, "byname")
		c.Dims = rapid.SampledFrom([][]string{{"a"}, {"a", "b"}, {"a", "b", "c"}, {}}).Draw(t, "dims")
		names := []string{"m", "m2", "", "a=x"}
		c.N1 = rapid.SampledFrom(names).Draw(t, "n1")
		c.N2 = rapid.SampledFrom(names).Draw(t, "n2")
		c.T1, c.T2 = map[string]string{}, map[string]string{}
		for _, d := range []string{"a", "b", "c"} {
			c.T1[d] = genTag(t, r, "t1"+d)
			if rapid.Bool().Draw(t, "same"+d) {
				c.T2[d] = c.T1[d]
			} else {
				c.T2[d] = genTag(t, r, "t2"+d)
			}
		}
		return c
	}
}

func runID(c IDCase, cc *kit.Case) {
	dims := models.Dimensions{ByName: c.ByName, TagNames: c.Dims}
	g1 := models.ToGroupID(c.N1, c.T1, dims)
	g2 := models.ToGroupID(c.N2, c.T2, dims)
	same := !c.ByName || c.N1 == c.N2
	diffs := 0
	hostile := false
	for _, d := range c.Dims {
		if c.T1[d] != c.T2[d] {
			same = false
			diffs++
		}
		for _, v := range []string{c.T1[d], c.T2[d]} {
			if v == "" || strings.ContainsAny(v, ",=") {
				hostile = true
			}
		}
	}
	if diffs == 1 || hostile {
		cc.NonTrivial()
	}
	if same && g1 != g2 {
		cc.Fail("groupid/split", "equal tuples get different ids %q %q", g1, g2)
	}
	if !same && g1 == g2 {
		sig := "groupid/collision"
		for _, d := range c.Dims {
			if collisionProne(c.T1[d]) || collisionProne(c.T2[d]) {
				sig = "groupid/collision/unescaped-comma-equals"
			}
		}
		cc.Fail(sig, "different tuples (%q %v) and (%q %v) under dims %v byName=%v share the id %q", c.N1, c.T1, c.N2, c.T2, c.Dims, c.ByName, g1)
	}
}

var assumptions = []string{
	"group membership is decided from the measurement (when grouping by measurement) and the group-by tag values carried by each observed message (the property's own definition), not from the group id string",
	"a missing tag and an empty tag value are the same value",
	"known finding groupid/collision/unescaped-comma-equals: tag values containing both ',' and '=' are excluded by construction (counted); the witness is replayed on every run",
	"measurement names do not contain a newline (line protocol cannot produce one)",
	"barrier cases: the barrier works on the system clock; the feeder waits at the planned position until every grouped node reports cardinality 0 (bounded, 5 s) and checks that no stall longer than a third of the idle time occurred while feeding - otherwise the case is labelled inconclusive and not compared; only nodes whose output does not depend on the barrier's own time stamp follow the barrier; a group that was deleted starts afresh",
}

func TestIsolation(t *testing.T) {
	r := kit.NewRec("C06", "Isolation", ruleIso, assumptions...)
	kit.Check(t, r, genIso(r), runIso)
}
func TestReplayIsolation(t *testing.T) {
	r := kit.NewRec("C06", "Isolation", ruleIso, assumptions...)
	kit.Replay(t, r, runIso)
}
func TestGroupID(t *testing.T) {
	r := kit.NewRec("C06", "GroupID", ruleID, assumptions...)
	kit.Check(t, r, genID(r), runID)
}
func TestReplayGroupID(t *testing.T) {
	r := kit.NewRec("C06", "GroupID", ruleID, assumptions...)
	kit.Replay(t, r, runID)
}
