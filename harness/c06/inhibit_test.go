// C06, unit Inhibit — "per-group state (... alert levels ...) is never shared between groups", for
// the one documented channel through which the alert level of a group reaches OTHER alert nodes:
// alert().inhibit(category, equalTags...). pipeline/alert.go (Inhibit): "The equal tags provides a
// list of tags that must be equal in order for an alert event to be inhibited" - the level of a
// group of the inhibiting alert may therefore only touch events that agree with that group on every
// equal tag.
//
// Pipelines: an inhibiting alert (category 'sys', measurement sys, grouped by tags that include the
// equal tags, .inhibit('app', equal tags), levels warn/crit, optionally stateChangesOnly) and an
// alert of the inhibited category (category 'app', measurement app, grouped by tags that include the
// equal tags) - as two branches of one task or as two tasks of one TaskMaster (the inhibitors live
// in the alert service). Points: 2-16 points of the two measurements over 2-4 tag tuples drawn from a
// small hostile pool (empty value, tag missing, space, ',', '=', shared values between tuples).
//
// Class of a point / event = its values of the equal tags (a missing tag is the empty value). All
// groups of both alerts lie inside one class (the group-by tags include the equal tags), so the
// statement's relation applies to classes: what the task(s) produce for class K - the events handed to
// the handlers of both topics and the data forwarded below both alert nodes - is the same whether or
// not points of other classes are interleaved.
//
// Order between the two alert nodes: they run concurrently, so the harness fixes the order in which
// they see the data itself. After every point it writes a MARKER point of the same measurement (own
// tag values, never generated otherwise; its value alternates above / below every threshold so that
// the alert node forwards it whatever stateChangesOnly says) and waits until the marker shows up at the
// log() below that alert node: the node has then handled everything written before. A marker that does
// not show up within 10 s makes the case inconclusive (label), never a failure. The markers are
// present in the full run and in every single-class run; their class is not compared.
package c06

import (
	"encoding/json"
	"fmt"
	"reflect"
	"strings"
	"sync"
	"testing"
	"time"

	"verifharness/kit"

	"github.com/influxdata/kapacitor"
	"github.com/influxdata/kapacitor/alert"
	"pgregory.net/rapid"
)

type IP struct {
	Br  int    `json:"br"` // 0: measurement of the inhibiting alert (sys), 1: of the inhibited category (app)
	A   string `json:"a"`
	B   string `json:"b"`
	NoA bool   `json:"noa,omitempty"` // the point has no tag a at all (only with A == "")
	NoB bool   `json:"nob,omitempty"`
	V   int64  `json:"v"`
	Gap int64  `json:"gap"`
}

type InhCase struct {
	DimsS       []string `json:"dimss"` // group-by tags of the inhibiting alert
	DimsA       []string `json:"dimsa"` // group-by tags of the alert of the inhibited category
	Equal       []string `json:"equal"` // equal tags of .inhibit(); subset of both
	TwoTasks    bool     `json:"twotasks,omitempty"`
	GroupByNode bool     `json:"groupbynode,omitempty"` // |groupBy() node instead of from().groupBy()
	SCOs        bool     `json:"scos,omitempty"`        // stateChangesOnly on the inhibiting alert
	SCOa        bool     `json:"scoa,omitempty"`        // ... on the inhibited alert
	Warn        bool     `json:"warn,omitempty"`        // the inhibiting alert has a warn level below crit
	ThrS        int      `json:"thrs"`
	ThrA        int      `json:"thra"`
	Pts         []IP     `json:"pts"`
}

const ruleInhibit = "rapid: alert().category('sys').inhibit('app', equal tags) grouped by a|b|a,b (including the equal tags; from().groupBy or groupBy node; warn/crit, optionally stateChangesOnly) + alert().category('app') grouped by tags including the equal tags, as two branches of one task or two tasks; " +
	"2-16 points of the two measurements over 2-4 tag tuples (empty / missing / hostile values, tuples sharing values), fed in a harness-fixed order (a marker point awaited below the alert node after every point); " +
	"oracle: events handed to the handlers of both topics and data forwarded below both alerts, filtered to one class (= values of the equal tags), == those of a run fed only that class; " +
	"non-trivial = a point above the inhibiting alert's lowest threshold of one class is followed by a point above the inhibited alert's threshold of ANOTHER class; distinct by case hash"

const (
	markS = "~marker-sys~"
	markA = "~marker-app~"
)

var inhSyncBound = 10 * time.Second

// small pools: tuples share values (partial agreement on two equal tags), the empty value is frequent
var inhPoolA = []string{"", "", "x", "y", " ", "a,b", "k=v"}
var inhPoolB = []string{"", "x", "y", ",", "="}

func genInhibit(r *kit.Rec) func(t *rapid.T) InhCase {
	return func(t *rapid.T) InhCase {
		var c InhCase
		c.Equal = rapid.SampledFrom([][]string{{"a"}, {"a"}, {"b"}, {"a", "b"}}).Draw(t, "equal")
		super := func(label string) []string {
			if len(c.Equal) == 2 || !rapid.Bool().Draw(t, label) {
				return append([]string(nil), c.Equal...)
			}
			return []string{"a", "b"}
		}
		c.DimsS = super("dimss-finer")
		c.DimsA = super("dimsa-finer")
		c.TwoTasks = rapid.IntRange(0, 3).Draw(t, "twotasks") == 3
		c.GroupByNode = rapid.IntRange(0, 3).Draw(t, "groupbynode") == 3
		c.SCOs = rapid.Bool().Draw(t, "scos")
		c.SCOa = rapid.IntRange(0, 2).Draw(t, "scoa") == 2
		c.Warn = rapid.Bool().Draw(t, "warn")
		c.ThrS = rapid.IntRange(0, 5).Draw(t, "thrs")
		c.ThrA = rapid.IntRange(0, 5).Draw(t, "thra")
		ng := rapid.IntRange(2, 4).Draw(t, "ntuples")
		type tup struct {
			a, b     string
			noA, noB bool
		}
		var tuples []tup
		for i := 0; i < ng; i++ {
			tp := tup{a: rapid.SampledFrom(inhPoolA).Draw(t, "a"), b: rapid.SampledFrom(inhPoolB).Draw(t, "b")}
			if tp.a == "" {
				tp.noA = rapid.Bool().Draw(t, "noa")
			}
			if tp.b == "" {
				tp.noB = rapid.Bool().Draw(t, "nob")
			}
			tuples = append(tuples, tp)
		}
		n := rapid.IntRange(2, 16).Draw(t, "n")
		for i := 0; i < n; i++ {
			tp := tuples[rapid.IntRange(0, ng-1).Draw(t, "g")]
			c.Pts = append(c.Pts, IP{Br: rapid.IntRange(0, 1).Draw(t, "br"), A: tp.a, B: tp.b, NoA: tp.noA, NoB: tp.noB,
				V:   int64(rapid.IntRange(0, 8).Draw(t, "v")),
				Gap: rapid.SampledFrom([]int64{0, 1, sec, sec, 2 * sec}).Draw(t, "gap")})
		}
		return c
	}
}

func quoteList(d []string) string {
	var q []string
	for _, x := range d {
		q = append(q, "'"+x+"'")
	}
	return strings.Join(q, ", ")
}

// scripts: one script with both branches, or one script per task.
func (c InhCase) scripts() []string {
	br := func(meas string, dims []string) string {
		if c.GroupByNode {
			return fmt.Sprintf("stream|from().measurement('%s')|groupBy(%s)", meas, quoteList(dims))
		}
		return fmt.Sprintf("stream|from().measurement('%s').groupBy(%s)", meas, quoteList(dims))
	}
	var s strings.Builder
	s.WriteString(br("sys", c.DimsS))
	s.WriteString("|alert().category('sys').topic('TS')")
	if c.Warn {
		fmt.Fprintf(&s, ".warn(lambda: \"v\" > %d).crit(lambda: \"v\" > %d)", c.ThrS, c.ThrS+2)
	} else {
		fmt.Fprintf(&s, ".crit(lambda: \"v\" > %d)", c.ThrS)
	}
	if c.SCOs {
		s.WriteString(".stateChangesOnly()")
	}
	fmt.Fprintf(&s, ".inhibit('app', %s)|log().prefix('IS')", quoteList(c.Equal))
	var a strings.Builder
	a.WriteString(br("app", c.DimsA))
	fmt.Fprintf(&a, "|alert().category('app').topic('TA').warn(lambda: \"v\" > %d)", c.ThrA)
	if c.SCOa {
		a.WriteString(".stateChangesOnly()")
	}
	a.WriteString("|log().prefix('IA')")
	if c.TwoTasks {
		return []string{s.String(), a.String()}
	}
	return []string{s.String() + "\n" + a.String()}
}

func (c InhCase) classOf(tags map[string]string) string {
	var parts []string
	for _, e := range c.Equal {
		parts = append(parts, tags[e]) // a missing tag is the empty value
	}
	b, _ := json.Marshal(parts)
	return string(b)
}

func isMarker(tags map[string]string) bool { return tags["a"] == markS || tags["a"] == markA }

var inhMeas = [2]string{"sys", "app"}
var inhPrefix = [2]string{"IS", "IA"}
var inhMark = [2]string{markS, markA}

func (c InhCase) points() []kit.Pt {
	t := t0
	var pts []kit.Pt
	for i, p := range c.Pts {
		t += p.Gap
		tags := map[string]string{}
		if !p.NoA {
			tags["a"] = p.A
		}
		if !p.NoB {
			tags["b"] = p.B
		}
		pts = append(pts, kit.Pt{Name: inhMeas[p.Br], Tags: tags, Fields: map[string]kit.FV{"v": kit.I(p.V), "n": kit.I(int64(i))}, Time: t})
	}
	return pts
}

type inhEvent struct {
	ID    string            `json:"id"`
	Level string            `json:"level"`
	Time  int64             `json:"time"`
	Dur   int64             `json:"dur"`
	Name  string            `json:"name"`
	Group string            `json:"group"`
	Tags  map[string]string `json:"tags"`
	Msg   string            `json:"msg"`
	V     any               `json:"v"`
}

type inhHandler struct {
	mu  sync.Mutex
	evs []inhEvent
}

func (h *inhHandler) Handle(e alert.Event) {
	tags := map[string]string{}
	for k, v := range e.Data.Tags {
		tags[k] = v
	}
	h.mu.Lock()
	h.evs = append(h.evs, inhEvent{ID: e.State.ID, Level: e.State.Level.String(), Time: e.State.Time.UnixNano(), Dur: int64(e.State.Duration),
		Name: e.Data.Name, Group: e.Data.Group, Tags: tags, Msg: e.State.Message, V: e.Data.Fields["v"]})
	h.mu.Unlock()
}

type inhResult struct {
	events    [2][]inhEvent // handed to the handlers of topic TS / TA, markers removed
	sink      [2][]kit.Obs  // forwarded below the two alert nodes, markers removed
	inhibited int64         // alerts_inhibited summed over the alert nodes (markers included; label only)
}

func countMarkers(env *kit.Env, br int) int {
	n := 0
	for _, o := range env.Sink.By(inhPrefix[br]) {
		if o.P != nil && o.P.Tags["a"] == inhMark[br] {
			n++
		}
	}
	return n
}

// runInhOnce feeds pts in order; after every point a marker of the same measurement is written and
// awaited below that measurement's alert node. conclusive=false: a marker did not arrive in time.
func runInhOnce(c InhCase, pts []kit.Pt) (res inhResult, conclusive bool, defErr, runErr error) {
	hs := [2]*inhHandler{{}, {}}
	env, err := kit.NewEnv(kit.EnvOpts{Alerts: true, Prepare: func(e *kit.Env) {
		e.Alert.RegisterAnonHandler("TS", hs[0])
		e.Alert.RegisterAnonHandler("TA", hs[1])
	}})
	if err != nil {
		return res, false, err, nil
	}
	defer env.Close()
	var ets []*kapacitor.ExecutingTask
	for _, s := range c.scripts() {
		et, err := env.StartTask("t"+kit.Unique(), s, kapacitor.StreamTask, nil)
		if err != nil {
			return res, false, err, nil
		}
		ets = append(ets, et)
	}
	write := func(p kit.Pt) error {
		p.DB, p.RP = "db", "rp"
		return env.TM.WriteKapacitorPoint(p.Msg())
	}
	conclusive = true
	var marks [2]int
	seen := make(chan struct{}, 1) // a log() node has observed something: look at the marker count again
	env.Sink.OnObs = func(string) {
		select {
		case seen <- struct{}{}:
		default:
		}
	}
feed:
	for _, p := range pts {
		if err := write(p); err != nil {
			return res, false, nil, err
		}
		br := 0
		if p.Name == inhMeas[1] {
			br = 1
		}
		marks[br]++
		mv := int64(-1) // below every threshold: OK (a recovery: forwarded)
		if marks[br]%2 == 1 {
			mv = 99 // above every threshold
		}
		m := kit.Pt{Name: inhMeas[br], Tags: map[string]string{"a": inhMark[br], "b": inhMark[br]}, Fields: map[string]kit.FV{"v": kit.I(mv), "n": kit.I(-1)}, Time: p.Time}
		if err := write(m); err != nil {
			return res, false, nil, err
		}
		deadline := time.NewTimer(inhSyncBound)
		for countMarkers(env, br) < marks[br] {
			select {
			case <-seen:
			case <-deadline.C:
				conclusive = false
				break feed
			}
		}
		deadline.Stop()
	}
	if conclusive {
		for _, et := range ets {
			if st, err := et.ExecutionStats(); err == nil {
				for _, ns := range st.NodeStats {
					if v, ok := ns["alerts_inhibited"].(int64); ok {
						res.inhibited += v
					}
				}
			}
		}
	}
	env.TM.Drain()
	for _, et := range ets {
		et.StopStats()
		if err := et.Wait(); err != nil && runErr == nil {
			runErr = err
		}
	}
	env.Close() // closes the topics: every event has been handed to the handlers
	for i := 0; i < 2; i++ {
		hs[i].mu.Lock()
		for _, e := range hs[i].evs {
			if !isMarker(e.Tags) {
				res.events[i] = append(res.events[i], e)
			}
		}
		hs[i].mu.Unlock()
		for _, o := range env.Sink.By(inhPrefix[i]) {
			if o.P != nil && isMarker(o.P.Tags) {
				continue
			}
			res.sink[i] = append(res.sink[i], o)
		}
	}
	return res, conclusive, nil, runErr
}

func fmtEvents(es []inhEvent) string {
	var s []string
	for _, e := range es {
		b, _ := json.Marshal(e)
		s = append(s, string(b))
	}
	return strings.Join(s, "\n    ")
}

func runInhibit(c InhCase, cc *kit.Case) {
	pts := c.points()
	scripts := strings.Join(c.scripts(), "\n---- second task:\n")

	// classes, in order of appearance
	var order []string
	byClass := map[string][]kit.Pt{}
	for _, p := range pts {
		k := c.classOf(p.Tags)
		if _, ok := byClass[k]; !ok {
			order = append(order, k)
		}
		byClass[k] = append(byClass[k], p)
	}
	// classification (from the input only)
	lowS := int64(c.ThrS)
	nt := false
	for i, p := range c.Pts {
		if p.Br != 0 || p.V <= lowS {
			continue
		}
		for j := i + 1; j < len(c.Pts); j++ {
			q := c.Pts[j]
			if q.Br == 1 && q.V > int64(c.ThrA) && c.classOf(pts[j].Tags) != c.classOf(pts[i].Tags) {
				nt = true
			}
		}
	}
	if nt {
		cc.NonTrivial()
		cc.Label("alarm-then-event-of-another-class")
	}
	emptyEq, missing := false, false
	for _, p := range pts {
		for _, e := range c.Equal {
			v, ok := p.Tags[e]
			if v == "" {
				emptyEq = true
			}
			if !ok {
				missing = true
			}
		}
	}
	if emptyEq {
		cc.Label("equal-tag-empty")
	}
	if missing {
		cc.Label("equal-tag-missing")
	}
	if c.TwoTasks {
		cc.Label("two-tasks")
	}
	if len(c.Equal) < len(c.DimsS) || len(c.Equal) < len(c.DimsA) {
		cc.Label("grouped-finer-than-equal-tags")
	}
	cc.Label(fmt.Sprintf("equal:%s", strings.Join(c.Equal, ",")))
	cc.Label(fmt.Sprintf("classes:%d", len(order)))

	full, ok, defErr, runErr := runInhOnce(c, pts)
	if defErr != nil {
		cc.Fail("harness/script-rejected", "script rejected: %v\n%s", defErr, scripts)
		return
	}
	if runErr != nil {
		cc.Fail("task-error", "task ended with error: %v\n%s", runErr, scripts)
		return
	}
	if !ok {
		cc.Label("inhibit-sync-inconclusive")
		return
	}
	if full.inhibited > 0 {
		cc.Label("some-event-inhibited")
	}
	if len(order) < 2 {
		return
	}
	names := [2]string{"topic TS (inhibiting alert, category sys)", "topic TA (alert of the inhibited category app)"}
	for _, k := range order {
		solo, ok, dErr, rErr := runInhOnce(c, byClass[k])
		if dErr != nil || rErr != nil {
			cc.Fail("task-error", "single-class run failed: %v %v\n%s", dErr, rErr, scripts)
			return
		}
		if !ok {
			cc.Label("inhibit-sync-inconclusive")
			return
		}
		for i := 0; i < 2; i++ {
			var fe []inhEvent
			for _, e := range full.events[i] {
				if c.classOf(e.Tags) == k {
					fe = append(fe, e)
				}
			}
			if !(len(fe) == 0 && len(solo.events[i]) == 0) && !reflect.DeepEqual(fe, solo.events[i]) {
				sig := "isolation/inhibit/events-differ"
				if i == 0 {
					sig = "isolation/alert-events-differ"
				}
				cc.Fail(sig, "class %s (values of the equal tags %v): the events handed to the handler of %s in the run over all classes differ from the run fed only this class\nscript: %s\nall classes, filtered:\n    %s\nonly this class:\n    %s\ninput: %s",
					k, c.Equal, names[i], scripts, fmtEvents(fe), fmtEvents(solo.events[i]), fmtPts(pts))
				return
			}
			var fo []kit.Obs
			for _, o := range full.sink[i] {
				if o.P != nil && c.classOf(o.P.Tags) == k {
					fo = append(fo, o)
				}
			}
			if !(len(fo) == 0 && len(solo.sink[i]) == 0) && !reflect.DeepEqual(fo, solo.sink[i]) {
				cc.Fail("isolation/output-differs", "class %s: the data forwarded below the alert node of measurement %s in the run over all classes differs from the run fed only this class\nscript: %s\nall classes, filtered:\n    %s\nonly this class:\n    %s",
					k, inhMeas[i], scripts, fmtObs(fo), fmtObs(solo.sink[i]))
				return
			}
		}
	}
}

func fmtPts(pts []kit.Pt) string {
	var s []string
	for _, p := range pts {
		b, _ := json.Marshal(map[string]any{"m": p.Name, "tags": p.Tags, "v": p.Fields["v"].V})
		s = append(s, string(b))
	}
	return strings.Join(s, " ")
}

var assumptionsInhibit = []string{
	"pipeline/alert.go Inhibit: 'The equal tags provides a list of tags that must be equal in order for an alert event to be inhibited' - the level of a group of the inhibiting alert reaches only events that agree with that group on every equal tag; classes (= values of the equal tags) are therefore independent when both alerts group by tags that include the equal tags (every group lies inside one class)",
	"a missing tag and an empty tag value are the same value (class of a point that lacks an equal tag = class of the empty value)",
	"inhibitors are looked up in the alert service (alert.go handleEvent -> AlertService.IsInhibited), so the relation is also generated across two tasks of one TaskMaster",
	"the two alert nodes run concurrently: the harness fixes the order in which they see the data by writing a marker point (tag values of its own, value alternating above/below every threshold so that it is forwarded with and without stateChangesOnly) after every point and awaiting it at the log() below that alert node (edges are FIFO and a node handles one message at a time, taken from code); a marker not seen within 10 s makes the case inconclusive (label), never a failure; markers are fed in the full and in every single-class run and their class is not compared",
	"events are observed by alert.Handlers registered on the alerts' named topics, read after the alert service was closed (as C01 does); an inhibited event is not handed to any topic (alert.go handleEvent), the data point is forwarded regardless",
	"the inhibitor's equal tags are a subset of the group-by tags of both alerts (the doc example groups both by the equal tag); equal tags outside the grouping are not generated",
}

func TestInhibit(t *testing.T) {
	r := kit.NewRec("C06", "Inhibit", ruleInhibit, assumptionsInhibit...)
	kit.Check(t, r, genInhibit(r), runInhibit)
}
func TestReplayInhibit(t *testing.T) {
	r := kit.NewRec("C06", "Inhibit", ruleInhibit, assumptionsInhibit...)
	kit.Replay(t, r, runInhibit)
}
