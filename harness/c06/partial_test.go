// C06, unit PartialDelete - "per-group state is never shared between groups", for the part of a
// group's life the other units do not reach: ONE group is deleted while other groups live on.
//
// Pipeline:  stream|from()|groupBy(..)|barrier().idle(150ms).delete(TRUE)|log('B') <0-2 stateful
// nodes> [|window().periodCount().everyCount()] |log('S')|httpOut('ep')
//
// Schedule (all of it data of the case): 2-3 steps; a step feeds points of some groups and then lets
// a chosen subset of the living groups go idle until the barrier has deleted exactly them, while
// every other living group keeps reporting (keep-alive points, fed by the harness at a tenth of the
// idle time). Later steps feed the survivors again and may create the deleted groups anew.
//
// Observations: what the log() above the httpOut node saw, and the document the httpOut node serves
// through the route it registered with the HTTPD service (kit.HTTPDRecorder), requested once the
// task has worked off its backlog (TaskMaster.Drain + ExecutingTask.Wait; the route stays
// registered until the task is stopped - the way the repository's integration tests read httpOut).
//
// Oracles:
//   - metamorphic (the property's own observation): for every group g, the log output filtered to g
//     and the rows of g in the httpOut document equal those of a run fed only g's points (the very
//     points the full run fed, keep-alives included, with g's deletions at the same places).
//   - direct (pipeline/http_out.go: "caches the most recent data for each group it has received"):
//     a group that is alive at the end has exactly one row, the row form of the last message the
//     log() above the node saw for it.
//
// The idle barrier works on the system clock. Nothing is concluded from timing: every fed point is
// awaited below the barrier before the next one is fed; a run in which a group that is meant to
// live might have been idle for more than a third of the idle time, or in which a planned deletion
// was not seen within 5 s, is not compared (the case is executed again, at most twice, then labelled
// inconclusive); a difference is reported only if it shows again in two further conclusive
// executions of the same case.
package c06

import (
	"bytes"
	"encoding/json"
	"fmt"
	"path"
	"reflect"
	"sort"
	"strings"
	"sync"
	"testing"
	"time"

	"verifharness/kit"

	"github.com/influxdata/kapacitor"
	"pgregory.net/rapid"
)

type PDGroup struct {
	M int    `json:"m"`
	A string `json:"a"`
	B string `json:"b"`
}

type PDPoint struct {
	G   int   `json:"g"`
	V   int64 `json:"v"`
	Gap int64 `json:"gap"`
}

type PDStep struct {
	Pts []PDPoint `json:"pts"`
	// Idle: indices of groups that stop reporting after Pts until the barrier has deleted them; every
	// other living group is kept alive meanwhile
	Idle []int `json:"idle,omitempty"`
}

type PDCase struct {
	Dims   []string  `json:"dims"`
	ByMeas bool      `json:"bymeas"`
	Chain  []string  `json:"chain"`
	Groups []PDGroup `json:"groups"`
	Steps  []PDStep  `json:"steps"`
}

const rulePD = "rapid: groupBy(dims|*)[.byMeasurement()] |barrier().idle().delete(TRUE) + 0-2 stateful nodes [+ count window] |log |httpOut x 2-4 groups with hostile tag values x 2-3 steps, each feeding 1-8 points and then letting a chosen proper subset of the living groups go idle until exactly they are deleted while the others keep reporting; " +
	"oracle: per group, log output and httpOut rows (read through the route the node registers) == those of a run fed only that group's points; a living group's httpOut row == row form of its most recent message; " +
	"non-trivial = a step deletes a group whose current life began before that of a group that survives the step, and a survivor receives a generated point afterwards; distinct by case hash"

func genPD(r *kit.Rec) func(t *rapid.T) PDCase {
	return func(t *rapid.T) PDCase {
		var c PDCase
		c.Dims = rapid.SampledFrom([][]string{{"a"}, {"a", "b"}, {"*"}, {"b"}}).Draw(t, "dims")
		c.ByMeas = rapid.IntRange(0, 3).Draw(t, "bymeas") == 0
		for i, k := 0, rapid.IntRange(0, 2).Draw(t, "nchain"); i < k; i++ {
			// only nodes whose output does not depend on the barrier's own time stamp (as in unit Isolation)
			c.Chain = append(c.Chain, []string{
				fmt.Sprintf("|stateCount(lambda: \"v\" > %d).as('sc%d')", rapid.IntRange(0, 6).Draw(t, "thr"), i),
				fmt.Sprintf("|eval(lambda: count()).as('c%d').keep()", i),
				"|where(lambda: count() % 2 == 1)",
				"|changeDetect('v')",
				"|sample(2)",
				fmt.Sprintf("|derivative('v').as('d%d')", i),
				"|cumulativeSum('v').as('v')",
			}[rapid.IntRange(0, 6).Draw(t, "node")])
		}
		if rapid.IntRange(0, 3).Draw(t, "window") == 0 {
			c.Chain = append(c.Chain, fmt.Sprintf("|window().periodCount(%d).everyCount(%d)", rapid.IntRange(1, 3).Draw(t, "pc"), rapid.IntRange(1, 2).Draw(t, "ec")))
		}
		// 2-4 groups, different by construction: the value of the first group-by tag is drawn without replacement
		ng := rapid.IntRange(2, 4).Draw(t, "ngroups")
		primary := "a"
		if c.Dims[0] == "b" {
			primary = "b"
		}
		var pool []string
		for _, v := range tagPool {
			if !noExclude && collisionProne(v) {
				continue
			}
			pool = append(pool, v)
		}
		for i := 0; i < ng; i++ {
			j := rapid.IntRange(0, len(pool)-1).Draw(t, "primary")
			pv := pool[j]
			pool = append(append([]string(nil), pool[:j]...), pool[j+1:]...)
			g := PDGroup{A: pv, B: genTag(t, r, "other")}
			if primary == "b" {
				g.A, g.B = g.B, g.A
			}
			if c.ByMeas {
				g.M = rapid.IntRange(0, 1).Draw(t, "m")
			}
			c.Groups = append(c.Groups, g)
		}
		pt := func(g int) PDPoint {
			return PDPoint{G: g, V: int64(rapid.IntRange(0, 8).Draw(t, "v")), Gap: rapid.SampledFrom([]int64{1, sec, sec, 2 * sec}).Draw(t, "gap")}
		}
		// living groups in the order in which their current life began
		var alive []int
		touch := func(g int) {
			for _, a := range alive {
				if a == g {
					return
				}
			}
			alive = append(alive, g)
		}
		var survivors []int
		ns := rapid.IntRange(2, 3).Draw(t, "nsteps")
		for s := 0; s < ns; s++ {
			var st PDStep
			if s == 0 {
				// every group starts in the first step, in a drawn order
				for _, g := range rapid.Permutation(seq(ng)).Draw(t, "order") {
					st.Pts = append(st.Pts, pt(g))
				}
			} else if len(survivors) > 0 {
				// a group that lived through the last deletion reports again
				st.Pts = append(st.Pts, pt(survivors[rapid.IntRange(0, len(survivors)-1).Draw(t, "survivor")]))
			}
			for i, k := 0, rapid.IntRange(0, 4).Draw(t, "extra"); i < k || len(st.Pts) == 0; i++ {
				st.Pts = append(st.Pts, pt(rapid.IntRange(0, ng-1).Draw(t, "g")))
			}
			for _, p := range st.Pts {
				touch(p.G)
			}
			if s < ns-1 || rapid.IntRange(0, 2).Draw(t, "lastidle") == 0 {
				// a non-empty subset of the living groups, proper whenever two or more live
				pick := make([]bool, len(alive))
				n := 0
				for i := range alive {
					if pick[i] = rapid.Bool().Draw(t, "idle"); pick[i] {
						n++
					}
				}
				if n == 0 {
					pick[rapid.IntRange(0, len(alive)-1).Draw(t, "idle1")] = true
					n = 1
				}
				if n == len(alive) && len(alive) >= 2 {
					pick[rapid.IntRange(0, len(alive)-1).Draw(t, "keep1")] = false
				}
				var next []int
				for i, g := range alive {
					if pick[i] {
						st.Idle = append(st.Idle, g)
					} else {
						next = append(next, g)
					}
				}
				alive = next
				survivors = append([]int(nil), next...)
			}
			c.Steps = append(c.Steps, st)
		}
		return c
	}
}

func seq(n int) []int {
	s := make([]int, n)
	for i := range s {
		s[i] = i
	}
	return s
}

func (c PDCase) iso() Case { return Case{Dims: c.Dims, ByMeas: c.ByMeas} }

func (c PDCase) script() string {
	var s strings.Builder
	s.WriteString("stream|from()")
	if c.Dims[0] == "*" {
		s.WriteString("|groupBy(*)")
	} else {
		var q []string
		for _, d := range c.Dims {
			q = append(q, "'"+d+"'")
		}
		fmt.Fprintf(&s, "|groupBy(%s)", strings.Join(q, ", "))
	}
	if c.ByMeas {
		s.WriteString(".byMeasurement()")
	}
	fmt.Fprintf(&s, "|barrier().idle(%dms).delete(TRUE)|log().prefix('B')", barrierIdle/time.Millisecond)
	for _, f := range c.Chain {
		s.WriteString(f)
	}
	s.WriteString("|log().prefix('S')|httpOut('ep')")
	return s.String()
}

func (c PDCase) groupKey(g int) string {
	gr := c.Groups[g]
	return c.iso().key(fmt.Sprintf("m%d", gr.M), map[string]string{"a": gr.A, "b": gr.B})
}

// pdItem is one thing that happened to a group in a run: a point was fed, or (Del) the group was
// left idle until the barrier had deleted it.
type pdItem struct {
	Del bool
	Pt  kit.Pt
}

// pdRun is what one execution showed.
type pdRun struct {
	ok     bool   // conclusive: the clock cooperated
	why    string // if not
	defErr error
	runErr error
	logS   []kit.Obs
	status int
	doc    string
	rows   []map[string]any // the series of the httpOut document (nil entries kept)
	fed    map[int][]pdItem // full run: what was fed, per group index
	errs   []kit.NodeErr
}

// pdSession feeds one task point by point.
type pdSession struct {
	env      *kit.Env
	et       *kapacitor.ExecutingTask
	rec      *kit.HTTPDRecorder
	id       string
	barrier  string // stats name of the barrier node
	seenB    chan struct{}
	lastFeed map[string]time.Time // living groups that must not go idle: when their latest point was handed in
	res      *pdRun
}

const pdBound = 5 * time.Second

func pdStart(c PDCase) (*pdSession, *pdRun) {
	res := &pdRun{ok: true, fed: map[int][]pdItem{}}
	rec := kit.NewHTTPDRecorder()
	env, err := kit.NewEnv(kit.EnvOpts{Prepare: func(e *kit.Env) { e.TM.HTTPDService = rec }})
	if err != nil {
		res.defErr = err
		return nil, res
	}
	s := &pdSession{env: env, rec: rec, id: "t" + kit.Unique(), seenB: make(chan struct{}, 4096), lastFeed: map[string]time.Time{}, res: res}
	env.Sink.OnObs = func(prefix string) {
		if prefix == "B" {
			select {
			case s.seenB <- struct{}{}:
			default:
			}
		}
	}
	et, err := env.StartTask(s.id, c.script(), kapacitor.StreamTask, nil)
	if err != nil {
		env.Close()
		res.defErr = err
		return nil, res
	}
	s.et = et
	if st, err := et.ExecutionStats(); err == nil {
		for name := range st.NodeStats {
			if strings.HasPrefix(name, "barrier") {
				s.barrier = name
			}
		}
	}
	if s.barrier == "" {
		s.inconclusive("no barrier node in the execution statistics")
	}
	return s, res
}

func (s *pdSession) inconclusive(format string, args ...any) {
	if s.res.ok {
		s.res.ok = false
		s.res.why = fmt.Sprintf(format, args...)
	}
}

// feed hands one point in and waits until the log() below the barrier has seen it.
func (s *pdSession) feed(key string, p kit.Pt) bool {
	if !s.res.ok {
		return false
	}
	t := time.Now()
	p.DB, p.RP = "db", "rp"
	if err := s.env.TM.WriteKapacitorPoint(p.Msg()); err != nil {
		s.res.runErr = fmt.Errorf("write: %w", err)
		s.inconclusive("write failed")
		return false
	}
	select {
	case <-s.seenB:
	case <-time.After(pdBound):
		s.inconclusive("a fed point was not seen below the barrier within %v", pdBound)
		return false
	}
	if lf, ok := s.lastFeed[key]; ok && time.Since(lf) > barrierIdle/3 {
		// the group's idle timer was started no earlier than lf and re-armed no later than now
		s.inconclusive("group %s may have been idle for %v", key, time.Since(lf))
		return false
	}
	s.lastFeed[key] = t
	return true
}

func (s *pdSession) cardinality() (int64, bool) {
	st, err := s.et.ExecutionStats()
	if err != nil {
		return 0, false
	}
	v, ok := st.NodeStats[s.barrier]["working_cardinality"].(int64)
	return v, ok
}

// awaitDeletion waits until the barrier node holds exactly want groups, calling keepAlive every
// tenth of the idle time.
func (s *pdSession) awaitDeletion(want int, keepAlive func() bool) bool {
	deadline := time.Now().Add(pdBound)
	lastKA := time.Now()
	for s.res.ok {
		if n, ok := s.cardinality(); ok && n == int64(want) {
			return true
		}
		if time.Now().After(deadline) {
			s.inconclusive("the planned deletion was not seen within %v", pdBound)
			return false
		}
		if time.Since(lastKA) >= barrierIdle/10 {
			if !keepAlive() {
				return false
			}
			lastKA = time.Now()
		}
		time.Sleep(2 * time.Millisecond)
	}
	return false
}

// finish lets the task work off its backlog and requests the httpOut document.
func (s *pdSession) finish() {
	defer s.env.Close()
	s.env.TM.Drain()
	s.et.StopStats()
	err := s.et.Wait()
	done := time.Now()
	if s.res.runErr == nil {
		s.res.runErr = err
	}
	for key, lf := range s.lastFeed {
		// the barrier node has ended (its timers with it) no later than done
		if done.Sub(lf) > barrierIdle/3 {
			s.inconclusive("group %s may have been idle for %v at the end", key, done.Sub(lf))
		}
	}
	s.res.logS = s.env.Sink.By("S")
	s.res.errs = s.env.Sink.Errors()
	status, body, ok := s.rec.Do("GET", path.Join("/tasks/", s.id, "ep"))
	if !ok {
		s.res.status = -1
		return
	}
	s.res.status, s.res.doc = status, string(body)
	var doc struct {
		Series []map[string]any `json:"series"`
	}
	dec := json.NewDecoder(bytes.NewReader(body))
	dec.UseNumber()
	if err := dec.Decode(&doc); err != nil {
		s.res.status = -2
		return
	}
	for _, r := range doc.Series {
		s.res.rows = append(s.res.rows, normRow(r))
	}
}

// normRow: time stamps as instants (unix nanoseconds).
func normRow(r map[string]any) map[string]any {
	if r == nil {
		return nil
	}
	cols, _ := r["columns"].([]any)
	vals, _ := r["values"].([]any)
	for _, v := range vals {
		row, _ := v.([]any)
		for i := range row {
			if i < len(cols) && cols[i] == "time" {
				if s, ok := row[i].(string); ok {
					if tm, err := time.Parse(time.RFC3339Nano, s); err == nil {
						row[i] = json.Number(fmt.Sprint(tm.UnixNano()))
					}
				}
			}
		}
	}
	return r
}

// rowOf: the row form of a message the log() above the httpOut node saw, through JSON like the document.
func rowOf(o kit.Obs) map[string]any {
	var b []byte
	if o.P != nil {
		b, _ = json.Marshal(o.P.Msg().ToRow())
	} else {
		b, _ = json.Marshal(o.B.Msg().ToRow())
	}
	var r map[string]any
	dec := json.NewDecoder(bytes.NewReader(b))
	dec.UseNumber()
	_ = dec.Decode(&r)
	return normRow(r)
}

func (c PDCase) rowKey(r map[string]any) string {
	name, _ := r["name"].(string)
	tags := map[string]string{}
	if m, ok := r["tags"].(map[string]any); ok {
		for k, v := range m {
			tags[k], _ = v.(string)
		}
	}
	return c.iso().key(name, tags)
}

func (c PDCase) obsKey(o kit.Obs) string {
	if o.P != nil {
		return c.iso().key(o.P.Name, o.P.Tags)
	}
	return c.iso().key(o.B.Name, o.B.Tags)
}

func obsTime(o kit.Obs) int64 {
	if o.P != nil {
		return o.P.Time
	}
	return o.B.TMax
}

// pdFull executes the case's schedule over all groups.
func pdFull(c PDCase) *pdRun {
	s, res := pdStart(c)
	if s == nil {
		return res
	}
	defer s.finish()
	tnow := t0
	serial := int64(0)
	mk := func(g int, v, gap int64) kit.Pt {
		gr := c.Groups[g]
		tnow += gap
		serial++
		return kit.Pt{Name: fmt.Sprintf("m%d", gr.M), Tags: map[string]string{"a": gr.A, "b": gr.B},
			Fields: map[string]kit.FV{"v": kit.I(v), "n": kit.I(serial)}, Time: tnow}
	}
	send := func(g int, v, gap int64) bool {
		p := mk(g, v, gap)
		if !s.feed(c.groupKey(g), p) {
			return false
		}
		res.fed[g] = append(res.fed[g], pdItem{Pt: p})
		return true
	}
	alive := map[int]bool{}
	for _, st := range c.Steps {
		for _, p := range st.Pts {
			if !send(p.G, p.V, p.Gap) {
				return res
			}
			alive[p.G] = true
		}
		if len(st.Idle) == 0 {
			continue
		}
		for _, g := range st.Idle {
			delete(alive, g)
			delete(s.lastFeed, c.groupKey(g)) // meant to go idle
		}
		var keep []int
		for g := range alive {
			keep = append(keep, g)
		}
		sort.Ints(keep)
		round := int64(0)
		if !s.awaitDeletion(len(keep), func() bool {
			round++
			for _, g := range keep {
				if !send(g, round%7, sec) {
					return false
				}
			}
			return true
		}) {
			return res
		}
		for _, g := range st.Idle {
			res.fed[g] = append(res.fed[g], pdItem{Del: true})
		}
	}
	return res
}

// pdSolo feeds what the full run fed to one group, with the group's deletions at the same places.
func pdSolo(c PDCase, g int, items []pdItem) *pdRun {
	s, res := pdStart(c)
	if s == nil {
		return res
	}
	defer s.finish()
	key := c.groupKey(g)
	for _, it := range items {
		if it.Del {
			delete(s.lastFeed, key)
			if !s.awaitDeletion(0, func() bool { return true }) {
				return res
			}
			continue
		}
		if !s.feed(key, it.Pt) {
			return res
		}
	}
	return res
}

type pdVerdict struct {
	ok       bool // conclusive
	why      string
	sig, msg string
}

func fmtRows(rs []map[string]any) string {
	if len(rs) == 0 {
		return "(no row)"
	}
	var s []string
	for _, r := range rs {
		b, _ := json.Marshal(r)
		s = append(s, string(b))
	}
	return strings.Join(s, "\n    ")
}

// pdEval executes the case once (the full run and one run per group) and compares.
func pdEval(c PDCase) pdVerdict {
	script := c.script()
	full := pdFull(c)
	if full.defErr != nil {
		return pdVerdict{ok: true, sig: "harness/script-rejected", msg: fmt.Sprintf("script rejected: %v\n%s", full.defErr, script)}
	}
	if !full.ok {
		return pdVerdict{why: full.why}
	}
	if full.runErr != nil {
		return pdVerdict{ok: true, sig: "task-error", msg: fmt.Sprintf("task ended with error: %v\n%s", full.runErr, script)}
	}
	if full.status != 200 {
		return pdVerdict{ok: true, sig: "partial-delete/httpout-not-served", msg: fmt.Sprintf("GET /tasks/<id>/ep through the registered route: status %d %s\n%s", full.status, full.doc, script)}
	}
	logBy := map[string][]kit.Obs{}
	for _, o := range full.logS {
		k := c.obsKey(o)
		logBy[k] = append(logBy[k], o)
	}
	rowsBy := map[string][]map[string]any{}
	for _, r := range full.rows {
		if r == nil {
			continue // an empty slot belongs to no group
		}
		k := c.rowKey(r)
		rowsBy[k] = append(rowsBy[k], r)
	}
	groups := make([]int, 0, len(full.fed))
	for g := range full.fed {
		groups = append(groups, g)
	}
	sort.Ints(groups)

	// direct: a group that is alive at the end is served with its most recent data
	for _, g := range groups {
		items := full.fed[g]
		if items[len(items)-1].Del {
			continue
		}
		lifeStart := int64(0)
		for i := len(items) - 1; i >= 0 && !items[i].Del; i-- {
			lifeStart = items[i].Pt.Time
		}
		k := c.groupKey(g)
		var last *kit.Obs
		for i := range logBy[k] {
			if obsTime(logBy[k][i]) >= lifeStart {
				last = &logBy[k][i]
			}
		}
		if last == nil {
			continue
		}
		want := rowOf(*last)
		if len(rowsBy[k]) != 1 || !reflect.DeepEqual(rowsBy[k][0], want) {
			return pdVerdict{ok: true, sig: "partial-delete/httpout-not-most-recent",
				msg: fmt.Sprintf("group %s is alive at the end, the httpOut node does not serve exactly its most recent data\nscript: %s\nserved for the group:\n    %s\nmost recent message above the node, as a row:\n    %s\nwhole document: %s\nschedule: %s",
					k, script, fmtRows(rowsBy[k]), fmtRows([]map[string]any{want}), full.doc, c.describe(full))}
		}
	}

	// metamorphic: each group alone
	solos := make([]*pdRun, len(groups))
	var wg sync.WaitGroup
	for i, g := range groups {
		wg.Add(1)
		go func(i, g int) {
			defer wg.Done()
			solos[i] = pdSolo(c, g, full.fed[g])
		}(i, g)
	}
	wg.Wait()
	for i, g := range groups {
		solo := solos[i]
		k := c.groupKey(g)
		if solo.defErr != nil {
			return pdVerdict{ok: true, sig: "task-error", msg: fmt.Sprintf("single-group run rejected: %v\n%s", solo.defErr, script)}
		}
		if !solo.ok {
			return pdVerdict{why: solo.why}
		}
		if solo.runErr != nil || solo.status != 200 {
			return pdVerdict{ok: true, sig: "task-error", msg: fmt.Sprintf("single-group run failed: %v, status %d\n%s", solo.runErr, solo.status, script)}
		}
		var soloRows []map[string]any
		for _, r := range solo.rows {
			if r != nil {
				soloRows = append(soloRows, r)
			}
		}
		if !(len(soloRows) == 0 && len(rowsBy[k]) == 0) && !reflect.DeepEqual(soloRows, rowsBy[k]) {
			return pdVerdict{ok: true, sig: "partial-delete/httpout-row-differs",
				msg: fmt.Sprintf("group %s: what httpOut serves for the group differs from the run fed only this group\nscript: %s\nrun with all groups, rows of the group:\n    %s\nsingle-group run:\n    %s\nwhole document: %s\nschedule: %s",
					k, script, fmtRows(rowsBy[k]), fmtRows(soloRows), full.doc, c.describe(full))}
		}
		if !(len(solo.logS) == 0 && len(logBy[k]) == 0) && !reflect.DeepEqual(solo.logS, logBy[k]) {
			return pdVerdict{ok: true, sig: "partial-delete/output-differs",
				msg: fmt.Sprintf("group %s: output of the run with all groups differs from the run fed only this group\nscript: %s\nrun with all groups, filtered:\n    %s\nsingle-group run:\n    %s\nschedule: %s",
					k, script, fmtObs(logBy[k]), fmtObs(solo.logS), c.describe(full))}
		}
	}
	return pdVerdict{ok: true}
}

// describe: what was fed, per group, in short.
func (c PDCase) describe(full *pdRun) string {
	var s []string
	groups := make([]int, 0, len(full.fed))
	for g := range full.fed {
		groups = append(groups, g)
	}
	sort.Ints(groups)
	for _, g := range groups {
		var parts []string
		for _, it := range full.fed[g] {
			if it.Del {
				parts = append(parts, "DELETED")
			} else {
				parts = append(parts, fmt.Sprintf("n%s:v%s", it.Pt.Fields["n"].V, it.Pt.Fields["v"].V))
			}
		}
		s = append(s, fmt.Sprintf("%s: %s", c.groupKey(g), strings.Join(parts, " ")))
	}
	return strings.Join(s, " | ")
}

func runPD(c PDCase, cc *kit.Case) {
	// classes
	for _, f := range c.Chain {
		cc.Label("node:" + strings.SplitN(strings.TrimPrefix(f, "|"), "(", 2)[0])
	}
	if len(c.Chain) == 0 {
		cc.Label("httpOut-directly-below-the-barrier")
	}
	var alive []int
	olderDeleted, recreated, nt := false, false, false
	deletedOnce := map[int]bool{}
	pendingNT := false
	var survivors map[int]bool
	for _, st := range c.Steps {
		for _, p := range st.Pts {
			if pendingNT && survivors[p.G] {
				nt = true
			}
			found := false
			for _, a := range alive {
				found = found || a == p.G
			}
			if !found {
				alive = append(alive, p.G)
				if deletedOnce[p.G] {
					recreated = true
				}
			}
		}
		if len(st.Idle) == 0 {
			continue
		}
		idle := map[int]bool{}
		for _, g := range st.Idle {
			idle[g] = true
			deletedOnce[g] = true
		}
		var next []int
		seenIdle := false
		survivors = map[int]bool{}
		for _, g := range alive {
			if idle[g] {
				seenIdle = true
				continue
			}
			if seenIdle {
				olderDeleted = true
				pendingNT = true
			}
			next = append(next, g)
			survivors[g] = true
		}
		if len(next) > 0 {
			cc.Label("one-group-deleted-others-live-on")
		} else {
			cc.Label("every-living-group-deleted")
		}
		alive = next
	}
	if olderDeleted {
		cc.Label("deleted-group-older-than-a-survivor")
	}
	if recreated {
		cc.Label("group-created-anew-after-its-deletion")
	}
	if nt {
		cc.NonTrivial()
	}
	for _, g := range c.Groups {
		if g.A == "" || g.B == "" || strings.ContainsAny(g.A+g.B, ", =") {
			cc.Label("hostile-tag-value")
			break
		}
	}

	v := pdEval(c)
	for try := 0; !v.ok && try < 2; try++ {
		cc.Label("barrier-timing-retried")
		v = pdEval(c)
	}
	if !v.ok {
		cc.Label("barrier-timing-inconclusive")
		return
	}
	if v.sig == "" {
		return
	}
	// a difference counts only if it shows again in two further conclusive executions
	confirmed := 0
	for try := 0; try < 6 && confirmed < 2; try++ {
		v2 := pdEval(c)
		if !v2.ok {
			continue
		}
		if v2.sig == "" {
			cc.Label("difference-not-reproduced")
			return
		}
		confirmed++
		v = v2
	}
	if confirmed < 2 {
		cc.Label("difference-not-confirmed-timing-inconclusive")
		return
	}
	cc.Fail(v.sig, "%s", v.msg)
}

var assumptionsPD = []string{
	"group membership is decided from the measurement (when grouping by measurement) and the group-by tag values of each observed message or served row (the property's own definition); a missing tag and an empty tag value are the same value",
	"known finding groupid/collision/unescaped-comma-equals: tag values containing both ',' and '=' are excluded by construction",
	"the httpOut document is requested through the route the node registers with the HTTPD service (GET /tasks/<task id>/<endpoint> relative to the API base path, pipeline/http_out.go), after TaskMaster.Drain and ExecutingTask.Wait and before the task is stopped - the route is registered until then (http_out.go stopOut; the repository's integration tests read httpOut the same way)",
	"pipeline/http_out.go: 'An HTTPOutNode caches the most recent data for each group it has received': a group alive at the end is served as exactly one row; the row FORM of a message (name, tags, columns, values) is taken from edge's ToRow, it is not this property's subject; time stamps are compared as instants; empty (null) slots of the document are attributed to no group",
	"pipeline/barrier.go: with delete(TRUE) the group is deleted after its barrier and 'will be created again if a new point is received': a deleted group starts afresh; what httpOut serves for a deleted group is not asserted directly, only compared with the single-group run",
	"the barrier works on the system clock: the harness waits (bounded, 5 s) until the barrier node's working_cardinality statistic equals the number of groups meant to live on, feeding every such group a keep-alive point each tenth of the idle time; each fed point is awaited at a log() directly below the barrier; if between handing in a point of a group meant to live and seeing its next point below the barrier (or the end of the task) more than a third of the idle time passed, the run is not compared (the case is executed again, at most twice, then labelled inconclusive)",
	"a difference is reported only if two further conclusive executions of the same case show a difference too (the number of keep-alive points differs from execution to execution, the comparison does not depend on it: the single-group runs are fed exactly what the run with all groups fed)",
	"only nodes whose output does not depend on the barrier's own time stamp follow the barrier (stateCount, eval count(), where count(), changeDetect, sample, derivative, cumulativeSum, count windows)",
}

func TestPartialDelete(t *testing.T) {
	r := kit.NewRec("C06", "PartialDelete", rulePD, assumptionsPD...)
	kit.Check(t, r, genPD(r), runPD)
}

func TestReplayPartialDelete(t *testing.T) {
	r := kit.NewRec("C06", "PartialDelete", rulePD, assumptionsPD...)
	kit.Replay(t, r, runPD)
}
