// C04 — lambda evaluation equals the typed reference semantics, whatever the compiled
// expression saw before.
//
// Unit Eval: generated typed ASTs (≈70 % well-typed by construction, ≈30 % ill-typed at one
// position) x scope histories of 1-12 steps (types of names change between steps) x 1-3
// groups (CopyReset copies as nodes make them) x entry points (Eval, Eval<T>, Type+Eval<T>).
// Three targeted classes: stateful-left (a stateful call left of an operand that changes type),
// stateful-lambda-position (lambda variables holding a stateful call at any position of a host
// expression - either operand, any argument index of a call, under a unary operator, inside
// if() - with 2-3 interleaved groups) and stateful-before-failure (a stateful call left of / in
// an earlier argument than an operand that fails on some values: zero divisors, strings that do
// not parse; over every cell of the operator table).
// Oracle A: the reference interpreter of ref.go. Oracle B (no model): the outcome of every
// step of the long-lived expression equals the outcome of a freshly compiled expression that
// is fed only the steps of the same group (for stateless expressions: only that step).
package c04

import (
	"fmt"
	"math"
	"os"
	"sort"
	"strings"
	"testing"
	"time"

	"verifharness/kit"

	"github.com/influxdata/kapacitor/tick/ast"
	"github.com/influxdata/kapacitor/tick/stateful"
	"pgregory.net/rapid"
)

type Step struct {
	G     int           `json:"g"`
	Entry string        `json:"entry"`       // eval | typed | type+typed
	X     string        `json:"x,omitempty"` // typed entries: requested type forced (else: the type the reference predicts)
	FX    string        `json:"fx"`          // typed entries: requested type when the reference predicts an error
	Bind  map[string]SV `json:"bind"`
}

type Case struct {
	Tree    *Tree    `json:"tree"`
	Names   []string `json:"names"`
	Groups  int      `json:"groups"`
	UseCopy bool     `json:"copy"` // one group: evaluate on a CopyReset() copy (as nodes do) or on the compiled expression itself
	Class   string   `json:"class"`
	Steps   []Step   `json:"steps"`
}

const rule = "rapid: typed lambda AST (depth <= 5; literals, references, unary, all binary operators, all deterministic built-ins, if(), nested lambdas; ~30% ill-typed at one position; " +
	"targeted: stateful call left of an operand that changes type / lambda variables with a stateful call at any operand or argument position with 2-3 interleaved groups / " +
	"stateful call before an operand that fails on a value (zero divisor, string that does not parse) for every operator-table cell) " +
	"x history of 1-12 scopes (int/float/string/bool/duration/time/missing/unset with boundary values, types changing between steps) x 1-3 groups (CopyReset copies) x entry point per step; " +
	"non-trivial = (the AST has a binary operator over a reference AND a referenced name changes type within the history) OR (>= 2 groups evaluated AND the AST has a stateful function); distinct by case hash"

var assumptions = []string{
	"trusted base: Go math/strings/strconv/regexp/time (the docs name the Go functions) and go-humanize (humanBytes); TZ=UTC",
	"int is int64 and float is IEEE-754 float64 (float division by zero gives Inf/NaN, not an error); integer division truncates toward zero, % takes the sign of the dividend; strings compare bytewise",
	"duration scaled by a float (d*f, f*d, d/f, duration(f, unit)) is computed in float64 and truncated toward zero to whole nanoseconds; int(float) truncates toward zero",
	"int<->float comparisons convert the int to float64; where the exact and the converted comparison differ (|int| > 2^53) nothing is asserted",
	"nothing is asserted where the docs are silent: integer/duration overflow, float % float, string() of floats outside plain decimal notation, strLength/strSubstring on non-ASCII strings, strSubstring with stop == length, humanBytes of negative values, compound or negative duration strings, spread(NaN), results of type time/regex at the root",
	"doc vs declared signature disagreements are accepted both ways: int(duration), duration(string) without unit, duration(duration, unit), isPresent(duration|time|regex), isPresent over a failing non-reference expression",
	"if() is a function (eager arguments), but whether the branch that is not selected is evaluated is not documented: an error in that branch is accepted both ways, and a step in which that branch holds a stateful call " +
		"(generated only through lambda variables, class stateful-lambda-position) is not judged by the reference - the group is then followed by the fresh-vs-aged differential only",
	"sigma(x): |x-mean|/stddev with running mean and sample variance that include x (Welford), 0 while fewer than 2 values or zero variance (CHANGELOG #763); results derived from sigma are compared with relative tolerance 1e-9, non-float results derived from them are not asserted on mismatch",
	"at most one call site per stateful function and lambda body (the docs do not say whether two call sites share state); a nested lambda has its own state (TestEvalLambdaNode_EvalBool_SeparateState)",
	"whether a point that ends in an error advances stateful functions is not specified in general (a type check may turn the point down before anything is evaluated): after a failed step every state reachable by aborting the left-to-right evaluation at a stateful call is accepted (candidate set), with the one exception of the next assumption",
	"operands of an operator and arguments of a call are evaluated left to right and only AND/OR skip an operand (property statement: AND/OR short-circuit; CHANGELOG #491 announces as BREAKING that a short-circuited count() is no longer evaluated, " +
		"#298 that a changed evaluation order breaks stateful expressions; count() is documented to count the evaluations; read from tick/stateful: all 61 evaluation functions evaluate the left node first, callFunction evaluates the arguments in order): " +
		"when the point is well-typed for the expression (the types of its values satisfy every operator and signature, so no type check can turn it down), the entry point asks for the expression's own type (Eval, or Eval<T> with T that type), " +
		"and the evaluation fails on a VALUE (integer/duration / or % by zero, strSubstring range, a string that int()/float()/bool()/duration() cannot parse) behind the last stateful call site of the expression, every stateful call has processed the point: only that state is accepted. " +
		"A failure before or between stateful call sites keeps the candidate set",
	"a constant sub-expression that is ill-typed for every scope may be rejected at compile time (NewExpression) instead of at evaluation",
	"number literals may be negative (substituted TICKscript variables); the order argument of jn/yn is a small literal (math.Jn loops n times)",
	"AND/OR short-circuit over a right operand that is ill-typed for the point (type mismatch, missing field): when the skipped operand is a comparison, regex match or AND/OR (boolean whatever it contains) the short-circuit value is due; when its type has to be derived from the ill-typed parts (reference, unary, arithmetic, function call) the short-circuit value and an error are both accepted",
	"excluded by construction (property C05): integer / and % by zero and strSubstring(start > stop) on entry points without recover (only Expression.Eval recovers), float->int conversion of NaN/out-of-range values",
}

// ---------------------------------------------------------------- generator

// The defect classes K1-K6 found by this check were repaired in /repo by fix: commits (61a409b K1/K2/K5,
// 1226a42 K3, 6afebb9 K4, c9ca632 K6): none is excluded any more, the witnesses are ordinary replay cases.
// C04_EXCL=K1,K4 (or "all") brings the exclusion by construction of a class back (debugging only).
var (
	exclStuck            = excl("K1")
	exclRespecialise     = excl("K2")
	exclNestedLambda     = excl("K3")
	exclUnaryMinus       = excl("K4")
	exclNestedTypeChange = excl("K5")
	exclManyArgs         = excl("K6")
)

func excl(k string) bool {
	v := os.Getenv("C04_EXCL")
	return v == "all" || strings.Contains(","+v+",", ","+k+",")
}

func genWith(r *kit.Rec) func(t *rapid.T) Case {
	return func(t *rapid.T) Case {
		c := genCase(t)
		for _, cl := range sanitize(&c) {
			r.Exclude(cl)
		}
		return c
	}
}

func genCase(t *rapid.T) Case {
	g := &genCtx{t: t, maxNames: 4, used: []map[string]bool{{}}, kinds: valueKinds}
	var c Case
	c.Groups = []int{1, 1, 1, 2, 2, 3}[rapid.IntRange(0, 5).Draw(t, "groups")]
	c.UseCopy = rapid.Bool().Draw(t, "copy")
	g.noNested = exclNestedLambda && (c.Groups > 1)
	var forced map[string][]VT // targeted class: kinds a name alternates between
	minSteps := 1
	cls := g.pick("class", 11, 3, 6, 2, 3)
	if exclNestedLambda && cls == 3 {
		cls = 0
	}
	switch cls {
	case 0:
		c.Class = "well-typed"
		want := rapid.SampledFrom([]VT{tBool, tBool, tInt, tFloat, tString, tDur}).Draw(t, "roottype")
		c.Tree = g.expr(want, rapid.IntRange(1, 5).Draw(t, "depth"))
	case 1:
		c.Class = "stateful-left"
		c.Tree, forced = g.targeted()
	case 3:
		// lambda variables that hold a stateful function, anywhere in an expression, evaluated for
		// several groups in an interleaved order
		c.Class = "stateful-lambda-position"
		c.Groups = rapid.IntRange(2, 3).Draw(t, "lgroups")
		c.Tree = g.lambdaHost()
		minSteps = 4
	case 4:
		// every stateful call precedes an operation that fails on some VALUES of a well-typed point
		c.Class = "stateful-before-failure"
		c.Tree, forced = g.failing()
		minSteps = 3
	default:
		c.Class = "ill-typed"
		want := rapid.SampledFrom([]VT{tBool, tBool, tInt, tFloat, tString, tDur}).Draw(t, "roottype")
		c.Tree = g.mutate(g.expr(want, rapid.IntRange(1, 4).Draw(t, "depth")))
	}
	fixBessel(c.Tree)
	dedupeStateful(c.Tree)
	for _, n := range g.names {
		c.Names = append(c.Names, n.Name)
	}
	sort.Strings(c.Names)

	alts := altKinds(c.Tree, g.names, []VT{tInt, tFloat, tString, tBool, tDur})
	stable := map[string]VT{}
	for _, n := range g.names {
		stable[n.Name] = n.Kind
	}
	refsGone := c.Tree.refs()["gone"]
	nsteps := rapid.IntRange(minSteps, 12).Draw(t, "nsteps")
	for i := 0; i < nsteps; i++ {
		var s Step
		s.G = rapid.IntRange(0, c.Groups-1).Draw(t, "g")
		s.Entry = []string{"eval", "eval", "typed", "type+typed"}[rapid.IntRange(0, 3).Draw(t, "entry")]
		s.FX = rapid.SampledFrom([]string{"bool", "int", "float", "string", "dur"}).Draw(t, "fx")
		if rapid.IntRange(0, 11).Draw(t, "forcex") == 0 {
			s.X = rapid.SampledFrom([]string{"bool", "int", "float", "string", "dur"}).Draw(t, "x")
		}
		kinds := map[string]VT{}
		for k, v := range stable {
			kinds[k] = v
		}
		if len(g.names) > 0 {
			switch g.pick("stepmode", 5, 4, 2) {
			case 1: // a change that keeps the expression well-typed (persists)
				n := g.names[rapid.IntRange(0, len(g.names)-1).Draw(t, "chg-name")]
				if rapid.IntRange(0, 3).Draw(t, "flipall") == 0 {
					flipped := map[string]VT{}
					for k, v := range stable {
						switch v {
						case tInt:
							v = tFloat
						case tFloat:
							v = tInt
						}
						flipped[k] = v
					}
					if wellTyped(c.Tree, flipped) {
						stable = flipped
					}
				} else if a := append([]VT{n.Kind}, alts[n.Name]...); len(a) > 1 {
					stable[n.Name] = rapid.SampledFrom(a).Draw(t, "alt")
				}
				for k, v := range stable {
					kinds[k] = v
				}
			case 2: // hostile: any kind, including missing and not in scope (this step only)
				n := g.names[rapid.IntRange(0, len(g.names)-1).Draw(t, "chg-name")]
				kinds[n.Name] = rapid.SampledFrom(allKinds).Draw(t, "hostile")
			}
		}
		for name, ks := range forced {
			kinds[name] = rapid.SampledFrom(ks).Draw(t, "forced")
		}
		s.Bind = map[string]SV{}
		for _, n := range c.Names {
			if pool := biasVals(c.Class, n, kinds[n]); len(pool) > 0 && rapid.IntRange(0, 2).Draw(t, "biased") > 0 {
				s.Bind[n] = rapid.SampledFrom(pool).Draw(t, "biasval")
				continue
			}
			s.Bind[n] = drawValue(t, kinds[n])
		}
		if refsGone {
			s.Bind["gone"] = SV{T: "unset"}
			if rapid.IntRange(0, 19).Draw(t, "gone-missing") > 0 {
				s.Bind["gone"] = SV{T: "missing"}
			}
		}
		c.Steps = append(c.Steps, s)
	}
	if refsGone {
		c.Names = append(c.Names, "gone")
		sort.Strings(c.Names)
	}
	return c
}

// targeted: a stateful function in the LEFT operand of an operator whose right operand may
// change type while the expression stays well-typed.
func (g *genCtx) targeted() (*Tree, map[string][]VT) {
	t := g.t
	g.names = append(g.names, nameInfo{"r", tInt}, nameInfo{"v", tFloat})
	r := &Tree{K: "ref", S: "r"}
	v := &Tree{K: "ref", S: "v"}
	var left *Tree
	var lt VT
	switch rapid.IntRange(0, 3).Draw(t, "tleft") {
	case 0:
		left, lt = fn("count"), tInt
	case 1:
		left, lt = fn("sigma", v), tFloat
	case 2:
		left, lt = fn("spread", v), tFloat
	default:
		left, lt = fn("duration", fn("count"), &Tree{K: "dur", I: 1e9}), tDur
	}
	var core *Tree
	var ks []VT
	cmp := rapid.IntRange(0, 2).Draw(t, "tcmp") == 0
	switch {
	case cmp && lt != tDur:
		core, ks = bin(rapid.SampledFrom(cmpOps).Draw(t, "cmp"), left, r), []VT{tInt, tFloat}
	case lt == tInt:
		core, ks = bin("*", left, r), []VT{tInt, tDur}
	case lt == tFloat:
		core, ks = bin("*", left, r), []VT{tFloat, tDur}
	default:
		if rapid.Bool().Draw(t, "tdiv") {
			core, ks = bin("/", left, r), []VT{tInt, tFloat, tDur}
		} else {
			core, ks = bin("*", left, r), []VT{tInt, tFloat}
		}
	}
	g.names[0].Kind = ks[0]
	switch rapid.IntRange(0, 3).Draw(t, "twrap") {
	case 1:
		if !cmp {
			core = fn("string", core)
		}
	case 2:
		if !(exclNestedLambda && g.noNested) {
			core = &Tree{K: "lam", A: []*Tree{core}}
		}
	case 3:
		if cmp {
			core = bin("AND", core, g.expr(tBool, 1))
		}
	}
	return core, map[string][]VT{"r": ks}
}

// ---------------------------------------------------------------- defect classes
//
// Known genuine defects (witnesses under replays/C04). Each class has a detector over the
// Case; sanitize() rewrites a generated case so that it is outside the class (counted as
// excluded by construction), classify() gives a failing case of the class its signature.
//
//	K1 eval/binary-operator-stuck-after-failed-respecialisation
//	K2 eval/stateful-restepped-on-respecialise
//	K3 eval/nested-lambda-state-shared-across-groups        (repaired in /repo by 1226a42: no longer excluded)
//	K4 eval/unary-minus-on-non-numeric
//	K5 eval/nested-operator-type-change-not-respecialised
//	K6 eval/type-panics-on-more-than-4-arguments

func stepEnv(bind map[string]SV) func(string) VT {
	return func(n string) VT {
		sv, ok := bind[n]
		if !ok {
			return tInvalid
		}
		return vtOf(sv.T) // "unset" -> tInvalid
	}
}

// perStepTypes: for every step the static type of every node (absent: ill-typed there).
func perStepTypes(c *Case) []map[*Tree]VT {
	var per []map[*Tree]VT
	for _, s := range c.Steps {
		env := stepEnv(s.Bind)
		m := map[*Tree]VT{}
		c.Tree.walk(func(n *Tree) {
			if vt, ok := staticType(n, env); ok {
				m[n] = vt
			} else if n.K == "ref" {
				m[n] = env(n.S)
			}
		})
		per = append(per, m)
	}
	return per
}

func isMathBin(n *Tree) bool { return n.K == "bin" && isMathOp(n.S) }
func isCmpBin(n *Tree) bool {
	return n.K == "bin" && !isMathOp(n.S) && n.S != "AND" && n.S != "OR"
}

// k2Nodes: math operators with a stateful function beneath them whose operand types are
// not the same at every step.
func k2Nodes(c *Case) []*Tree {
	var out []*Tree
	per := perStepTypes(c)
	c.Tree.walk(func(n *Tree) {
		if !isMathBin(n) || !n.hasStateful() {
			return
		}
		for i := 1; i < len(per); i++ {
			if per[i][n.A[0]] != per[0][n.A[0]] || per[i][n.A[1]] != per[0][n.A[1]] {
				out = append(out, n)
				return
			}
		}
	})
	return out
}

// k5Nodes: math operators with a math operator as direct operand whose type is duration or
// string at one step and something else at another.
func k5Nodes(c *Case) []*Tree {
	var out []*Tree
	per := perStepTypes(c)
	c.Tree.walk(func(n *Tree) {
		if !isMathBin(n) {
			return
		}
		for _, ch := range n.A {
			if !isMathBin(ch) {
				continue
			}
			seen := map[VT]bool{}
			for _, m := range per {
				seen[m[ch]] = true
			}
			if len(seen) > 1 && (seen[tDur] || seen[tString]) {
				out = append(out, n)
				return
			}
		}
	})
	return out
}

// k4Nodes: unary minus whose operand is bool, string, time or regex at some step.
func k4Nodes(c *Case) []*Tree {
	var out []*Tree
	per := perStepTypes(c)
	bad := func(vt VT) bool { return oneOf(vt, tBool, tString, tTime, tRegex) }
	c.Tree.walk(func(n *Tree) {
		if n.K != "un" || n.S != "-" {
			return
		}
		if vt, known, _ := constType(n.A[0]); known && bad(vt) {
			out = append(out, n)
			return
		}
		for _, m := range per {
			if bad(m[n.A[0]]) {
				out = append(out, n)
				return
			}
		}
	})
	return out
}

func hasTypeChange(c *Case) bool {
	refs := c.Tree.refs()
	for i := 1; i < len(c.Steps); i++ {
		for n := range refs {
			if c.Steps[i].Bind[n].T != c.Steps[0].Bind[n].T {
				return true
			}
		}
	}
	return false
}

func nestedStateful(t *Tree) bool {
	found := false
	var rec func(n *Tree, depth int)
	rec = func(n *Tree, depth int) {
		if n.K == "lam" {
			depth++
		}
		if n.K == "fn" && statefulFn[n.S] && depth > 0 {
			found = true
		}
		for _, a := range n.A {
			rec(a, depth)
		}
	}
	rec(t, 0)
	return found
}

func groupsUsed(c *Case) int {
	m := map[int]bool{}
	for _, s := range c.Steps {
		m[s.G] = true
	}
	return len(m)
}

func hasMathBin(t *Tree) bool {
	found := false
	t.walk(func(n *Tree) {
		if isMathBin(n) {
			found = true
		}
	})
	return found
}

// k1Step: an entry that evaluates a math operator through a specialised parent without the
// types having been refreshed by Type(): Eval<T> without Type() on a root math operator, or
// Eval<T != bool> (with or without Type()) on a root comparison or AND/OR (which then evaluates its
// operands through the stale specialisation, before any type check: the K2 mechanism if they are
// stateful - whether and how often they are stepped depends on what the node saw before).
func k1Step(root *Tree, entry, x string) bool {
	if entry == "eval" {
		return false
	}
	if isMathBin(root) {
		return entry == "typed"
	}
	return root.K == "bin" && x != "bool"
}

// isDyn mirrors NodeEvaluator.IsDynamic (used only to delimit the K1 class, not by an oracle).
func isDyn(n *Tree) bool {
	switch n.K {
	case "ref", "fn":
		return true
	case "lam":
		return isDyn(n.A[0])
	case "un":
		return n.S == "-" && isDyn(n.A[0])
	case "bin":
		return isMathOp(n.S) && (isDyn(n.A[0]) || isDyn(n.A[1]))
	}
	return false
}

// k1NotNodes: `!` nodes whose operand is not boolean at some step and that have, with no
// function call in between, an ancestor binary operator over two operands of constant type
// (comparisons, !x, literals): the type guard raised by the operand travels up to that
// operator and makes it unusable for good.
func k1NotNodes(c *Case) []*Tree {
	var out []*Tree
	per := perStepTypes(c)
	var rec func(n *Tree, underStatic bool)
	rec = func(n *Tree, underStatic bool) {
		switch n.K {
		case "bin":
			st := !isDyn(n.A[0]) && !isDyn(n.A[1])
			rec(n.A[0], underStatic || st)
			rec(n.A[1], underStatic || st)
		case "fn":
			for _, a := range n.A {
				rec(a, false)
			}
		case "un":
			if n.S == "!" && underStatic {
				for _, m := range per {
					if m[n.A[0]] != tBool {
						out = append(out, n)
						break
					}
				}
			}
			rec(n.A[0], underStatic)
		case "lam":
			rec(n.A[0], underStatic)
		}
	}
	rec(c.Tree, false)
	return out
}

func pinNames(c *Case, nodes []*Tree) {
	pin := map[string]bool{}
	for _, n := range nodes {
		for r := range n.refs() {
			pin[r] = true
		}
	}
	for i := 1; i < len(c.Steps); i++ {
		for r := range pin {
			if c.Steps[i].Bind[r].T != c.Steps[0].Bind[r].T {
				c.Steps[i].Bind[r] = c.Steps[0].Bind[r]
			}
		}
	}
}

// sanitize removes the known defect classes from a generated case (counted by the caller).
func sanitize(c *Case) []string {
	var ex []string
	if exclUnaryMinus {
		if ns := k4Nodes(c); len(ns) > 0 {
			for len(ns) > 0 {
				n := ns[0]
				*n = *n.A[0]
				ns = k4Nodes(c)
			}
			ex = append(ex, "K4 unary minus over a bool/string/time/regex operand (operator dropped)")
		}
	}
	if exclRespecialise {
		if ns := k2Nodes(c); len(ns) > 0 {
			pinNames(c, ns)
			ex = append(ex, "K2 math operator over a stateful function with operand types changing between evaluations (names pinned to one type)")
		}
	}
	if exclNestedTypeChange {
		if ns := k5Nodes(c); len(ns) > 0 {
			pinNames(c, ns)
			ex = append(ex, "K5 math operator whose math-operator operand changes type from/to duration or string (names pinned to one type)")
		}
	}
	if exclStuck {
		if ns := k1NotNodes(c); len(ns) > 0 {
			for _, n := range ns {
				n.A[0] = &Tree{K: "bool", B: true}
			}
			ex = append(ex, "K1 operator over constant-typed operands one of which is a `!` over a value that is not boolean at some step (operand replaced by TRUE)")
		}
		n := 0
		for i := range c.Steps {
			s := &c.Steps[i]
			if s.Entry == "eval" {
				continue
			}
			if isMathBin(c.Tree) && s.Entry == "typed" {
				s.Entry = "type+typed"
				n++
			}
			if c.Tree.K == "bin" && !isMathBin(c.Tree) && (s.X != "bool" || s.FX != "bool") {
				if s.X != "" && s.X != "bool" {
					s.X = "bool"
				}
				s.FX = "bool"
				n++
			}
		}
		if n > 0 {
			ex = append(ex, "K1 math operator evaluated through a specialised parent without Type() (root math: Type() added; root comparison/AND/OR: Eval<bool> only)")
		}
	}
	if exclNestedLambda && groupsUsed(c) > 1 && nestedStateful(c.Tree) {
		for i := range c.Steps {
			c.Steps[i].G = 0
		}
		c.Groups = 1
		ex = append(ex, "K3 stateful function inside a nested lambda with more than one group (reduced to one group)")
	}
	if exclManyArgs {
		many := false
		c.Tree.walk(func(n *Tree) {
			if n.K == "fn" && len(n.A) > 4 {
				n.A = n.A[:4]
				many = true
			}
		})
		if many {
			ex = append(ex, "K6 call with more than 4 arguments: Type() panics (arguments truncated to 4)")
		}
	}
	// faults on entry points without recover belong to C05
	if n := faultsToEval(c); n > 0 {
		ex = append(ex, "C05 integer division/modulo by zero or strSubstring(start>stop) on an entry point without recover (entry replaced by Eval)")
	}
	return ex
}

// faultsToEval runs the reference over the history and moves steps that end in a fault to
// the recovering entry point.
func faultsToEval(c *Case) int {
	sites := siteIndex(c.Tree)
	states := map[int][]fstate{}
	n := 0
	for i := range c.Steps {
		s := &c.Steps[i]
		st, ok := states[s.G]
		if !ok {
			st = make([]fstate, len(sites))
			for j := range st {
				st[j] = newFstate()
			}
		}
		in := &interp{scope: s.Bind, st: append([]fstate(nil), st...), sites: sites}
		_, e := in.eval(c.Tree)
		if e != nil && e.k == kFault && s.Entry != "eval" {
			s.Entry = "eval"
			n++
		}
		if e == nil {
			states[s.G] = in.st
		} else {
			states[s.G] = st
		}
	}
	return n
}

// classify names the known defect class a failing case belongs to ("" = none). xs: the
// requested types of the steps executed so far.
func classify(c *Case, xs []string) string {
	switch {
	case manyArgs(c.Tree):
		return "eval/type-panics-on-more-than-4-arguments"
	case len(k4Nodes(c)) > 0:
		return "eval/unary-minus-on-non-numeric"
	case len(k2Nodes(c)) > 0:
		return "eval/stateful-restepped-on-respecialise"
	case groupsUsed(c) > 1 && nestedStateful(c.Tree):
		return "eval/nested-lambda-state-shared-across-groups"
	case len(k5Nodes(c)) > 0:
		return "eval/nested-operator-type-change-not-respecialised"
	}
	if len(k1NotNodes(c)) > 0 {
		return "eval/binary-operator-stuck-after-failed-respecialisation"
	}
	for i, s := range c.Steps {
		if i < len(xs) && xs[i] != "" && k1Step(c.Tree, s.Entry, xs[i]) {
			if !isMathBin(c.Tree) && c.Tree.hasStateful() {
				return "eval/stateful-restepped-on-respecialise"
			}
			return "eval/binary-operator-stuck-after-failed-respecialisation"
		}
	}
	return ""
}

func manyArgs(t *Tree) bool {
	found := false
	t.walk(func(n *Tree) {
		if n.K == "fn" && len(n.A) > 4 {
			found = true
		}
	})
	return found
}

func hasEntry(c *Case, e string) bool {
	for _, s := range c.Steps {
		if s.Entry == e {
			return true
		}
	}
	return false
}

// ---------------------------------------------------------------- running the code under test

type outcome struct {
	err     string // non-empty: the entry point returned an error
	v       Val
	typeErr string
	typeT   VT
	typeSet bool
	panic   string
	// nonValue: Eval returned, without an error, something that is no value of the language
	// (Go type of it)
	nonValue string
}

func toVal(x interface{}) (Val, bool) {
	switch v := x.(type) {
	case int64:
		return Val{T: tInt, I: v}, true
	case float64:
		return Val{T: tFloat, F: v}, true
	case string:
		return Val{T: tString, S: v}, true
	case bool:
		return Val{T: tBool, B: v}, true
	case time.Duration:
		return Val{T: tDur, I: int64(v)}, true
	}
	return Val{}, false
}

var astTypes = map[ast.ValueType]VT{ast.TInt: tInt, ast.TFloat: tFloat, ast.TString: tString, ast.TBool: tBool,
	ast.TDuration: tDur, ast.TTime: tTime, ast.TRegex: tRegex, ast.TMissing: tMissing}

func call(e stateful.Expression, sc *stateful.Scope, entry, x string) (o outcome) {
	defer func() {
		if r := recover(); r != nil {
			o.panic = fmt.Sprint(r)
		}
	}()
	if entry == "eval" {
		v, err := e.Eval(sc)
		if err != nil {
			o.err = err.Error()
			if o.err == "" {
				o.err = "error"
			}
			return
		}
		val, ok := toVal(v)
		if !ok {
			// a result that is no value of the language (the missing marker, a time, a regex,
			// nil) handed out WITHOUT an error: not an error report - the caller would store it
			o.v = Val{T: tMissing}
			o.nonValue = fmt.Sprintf("%T", v)
			return
		}
		o.v = val
		return
	}
	if entry == "type+typed" {
		vt, err := e.Type(sc)
		o.typeSet = true
		if err != nil {
			o.typeErr = err.Error()
			o.err = "Type: " + err.Error()
			return
		}
		o.typeT = astTypes[vt]
	}
	var err error
	switch x {
	case "bool":
		o.v.T = tBool
		o.v.B, err = e.EvalBool(sc)
	case "int":
		o.v.T = tInt
		o.v.I, err = e.EvalInt(sc)
	case "float":
		o.v.T = tFloat
		o.v.F, err = e.EvalFloat(sc)
	case "string":
		o.v.T = tString
		o.v.S, err = e.EvalString(sc)
	default:
		o.v.T = tDur
		var d time.Duration
		d, err = e.EvalDuration(sc)
		o.v.I = int64(d)
	}
	if err != nil {
		o.err = err.Error()
		if o.err == "" {
			o.err = "error"
		}
	}
	return
}

func (v Val) String() string {
	switch v.T {
	case tInt:
		return fmt.Sprintf("int %d", v.I)
	case tFloat:
		return "float " + fmtF(v.F)
	case tString:
		return fmt.Sprintf("string %q", v.S)
	case tBool:
		return fmt.Sprintf("bool %v", v.B)
	case tDur:
		return fmt.Sprintf("duration %dns", v.I)
	case tTime:
		return fmt.Sprintf("time %d", v.I)
	case tRegex:
		return "regex /" + v.S + "/"
	}
	return v.T.String()
}

func (o outcome) String() string {
	switch {
	case o.panic != "":
		return "PANIC " + o.panic
	case o.err != "":
		return "error(" + o.err + ")"
	}
	return o.v.String()
}

func sameVal(a, b Val, tol bool) bool {
	if a.T != b.T {
		return false
	}
	switch a.T {
	case tFloat:
		if math.IsNaN(a.F) && math.IsNaN(b.F) {
			return true
		}
		if math.Float64bits(a.F) == math.Float64bits(b.F) {
			return true
		}
		if tol && !math.IsInf(a.F, 0) && !math.IsInf(b.F, 0) {
			return math.Abs(a.F-b.F) <= 1e-9*math.Max(math.Abs(a.F), math.Abs(b.F))
		}
		return false
	case tString, tRegex:
		return a.S == b.S
	case tBool:
		return a.B == b.B
	}
	return a.I == b.I
}

func sameOutcome(a, b outcome) bool {
	if (a.panic != "") != (b.panic != "") {
		return false
	}
	if (a.err != "") != (b.err != "") {
		return false
	}
	if a.err != "" || a.panic != "" {
		return true
	}
	return sameVal(a.v, b.v, false)
}

// refOutcome is what the reference predicts for one candidate state.
type refOutcome struct {
	v          Val
	e          *rerr
	after      []fstate
	snaps      [][]fstate
	skippedIll bool
}

func (r refOutcome) String() string {
	if r.e != nil {
		return []string{"", "error", "fault", "unspecified"}[r.e.k] + "(" + r.e.why + ")"
	}
	return r.v.String()
}

const (
	mNo = iota
	mYes
	mTolerated // differs, but derived from sigma(): not asserted
)

// match: does the observed outcome agree with the prediction for this entry point?
func match(r refOutcome, o outcome, entry, x string) (int, string) {
	if o.panic != "" {
		return mNo, "panic escaped the entry point"
	}
	if r.e != nil || r.v.T == tMissing { // kErr or kFault (on a recovering entry point)
		if o.err == "" {
			if o.nonValue != "" {
				return mNo, "error expected, Eval returned a " + o.nonValue + " without an error"
			}
			return mNo, "error expected"
		}
		return mYes, ""
	}
	if r.v.T == tTime || r.v.T == tRegex {
		return mYes, "" // a time/regex result at the root: not asserted
	}
	if o.nonValue != "" {
		return mNo, "Eval returned a " + o.nonValue + " without an error"
	}
	if r.skippedIll && o.err != "" {
		return mYes, "" // type error in an operand that short-circuit evaluation skips: accepted both ways
	}
	if entry == "type+typed" {
		if o.typeErr != "" {
			return mNo, "Type() reports an error for a well-typed expression"
		}
		if o.typeT != r.v.T {
			return mNo, fmt.Sprintf("Type() = %v, reference %v", o.typeT, r.v.T)
		}
	}
	if entry != "eval" && vtOf(x) != r.v.T {
		if o.err == "" {
			return mNo, fmt.Sprintf("Eval<%s> on a %v result must report a type error", x, r.v.T)
		}
		return mYes, ""
	}
	if o.err != "" {
		return mNo, "unexpected error"
	}
	if sameVal(r.v, o.v, r.v.Approx) {
		return mYes, ""
	}
	if r.v.Approx && r.v.T != tFloat && o.v.T == r.v.T {
		return mTolerated, ""
	}
	return mNo, "value differs"
}

func fmtBind(names []string, b map[string]SV) string {
	var parts []string
	for _, n := range names {
		parts = append(parts, n+"="+b[n].String())
	}
	return "{" + strings.Join(parts, " ") + "}"
}

// oracleA follows the reference interpreter along a history: per group the set of states
// the stateful functions may be in (one state unless a step failed, see assumptions).
type oracleA struct {
	tree     *Tree
	sites    map[*Tree]int
	hasState bool
	cands    map[int][][]fstate
	dead     map[int]bool // the group is no longer judged (an unspecified step may have moved its state)
	labels   map[string]int
	cc       *kit.Case
}

func newOracleA(tree *Tree, cc *kit.Case) *oracleA {
	sites := siteIndex(tree)
	return &oracleA{tree: tree, sites: sites, hasState: len(sites) > 0, cands: map[int][][]fstate{}, dead: map[int]bool{}, labels: map[string]int{}, cc: cc}
}

// predict evaluates the reference for every candidate state of the group.
func (a *oracleA) predict(g int, bind map[string]SV) []refOutcome {
	if a.cands[g] == nil {
		st := make([]fstate, len(a.sites))
		for j := range st {
			st[j] = newFstate()
		}
		a.cands[g] = [][]fstate{st}
	}
	var preds []refOutcome
	for j, st := range a.cands[g] {
		in := &interp{scope: bind, st: append([]fstate(nil), st...), sites: a.sites}
		if j == 0 && !a.dead[g] {
			in.labels = a.labels
		}
		v, re := in.eval(a.tree)
		preds = append(preds, refOutcome{v: v, e: re, after: in.st, snaps: in.snaps, skippedIll: in.skippedIll})
	}
	return preds
}

// judge compares the observed outcome with the predictions and advances the candidate
// states. why != "": the property is violated (generic = failure signature).
//
// evaluated: the expression is well-typed for the point and the entry point asks for its type, so
// the point cannot be turned down by a type check: it is evaluated. If the evaluation then fails
// on a value (rerr.val) after every stateful call site has been passed, the calls have processed
// the point (see assumptions); otherwise every abort point is accepted.
func (a *oracleA) judge(g int, preds []refOutcome, o outcome, entry, x string, evaluated bool) (why, generic string) {
	if a.dead[g] {
		return "", ""
	}
	unspec := ""
	for _, p := range preds {
		if p.e != nil && p.e.k == kFault && entry != "eval" {
			// process-fatal class (C05): whatever happened is not judged here
			a.cc.Label("fault-on-non-recovering-entry(not judged)")
			a.dead[g] = true
			return "", ""
		}
		if p.e != nil && p.e.k == kUnspec {
			unspec = p.e.why
		}
	}
	if p := preds[0]; p.e != nil && p.e.k == kFault {
		a.cc.Label("arithmetic/range fault on Eval (must be an error)")
	}
	if unspec != "" {
		a.cc.Label("unspecified: " + unspec)
		if o.panic != "" && entry == "eval" {
			return "panic escaped the entry point", "eval/panic"
		}
		if a.hasState {
			a.dead[g] = true
		}
		return "", ""
	}
	var next [][]fstate
	add := func(st []fstate) {
		for _, q := range next {
			if sameStates(q, st) {
				return
			}
		}
		next = append(next, st)
	}
	tolerated, strict := false, false
	for pass := 0; pass < 2 && len(next) == 0; pass++ {
		// pass 0: candidates that agree exactly; pass 1: candidates that differ only in a
		// non-float value derived from sigma() (tolerated, the group is not followed further)
		for j, p := range preds {
			m, w := match(p, o, entry, x)
			if m == mNo {
				if j == 0 || why == "" {
					why = w
				}
				continue
			}
			if (m == mTolerated) != (pass == 1) {
				continue
			}
			if m == mTolerated {
				tolerated = true
			}
			switch {
			case o.err != "" && evaluated && p.e != nil && p.e.val && len(a.sites) > 0 && len(p.snaps) == len(a.sites):
				// the point was evaluated, left to right, up to a failure behind the last stateful call
				strict = true
			case o.err != "": // the step failed: evaluation may have stopped at any stateful call
				add(a.cands[g][j])
				for _, sn := range p.snaps {
					add(sn)
				}
			}
			add(p.after)
		}
	}
	if len(next) == 0 {
		generic = "eval/value-mismatch"
		switch why {
		case "error expected":
			generic = "eval/error-not-reported"
		case "unexpected error", "Type() reports an error for a well-typed expression":
			generic = "eval/unexpected-error"
		case "panic escaped the entry point":
			generic = "eval/panic"
		}
		if strings.HasPrefix(why, "Type() =") {
			generic = "eval/type-mismatch"
		}
		return why, generic
	}
	if strict {
		a.cc.Label("stateful-calls-before-a-value-failure(state asserted)")
	}
	switch {
	case tolerated:
		a.cc.Label("sigma-derived-mismatch-tolerated")
		a.dead[g] = true
	case len(next) > 12:
		a.cc.Label("candidate-states>12(group dropped)")
		a.dead[g] = true
	default:
		if len(next) > 1 {
			a.cc.Label("candidate-states>1")
		}
		a.cands[g] = next
	}
	return "", ""
}

func run(c Case, cc *kit.Case) {
	node, err := build(c.Tree)
	if err != nil {
		cc.Fail("harness/build", "cannot build the AST: %v", err)
		return
	}
	cc.Label("class:" + c.Class)
	base, cerr := stateful.NewExpression(node)
	if cerr != nil {
		if _, _, bad := constType(c.Tree); !bad {
			cc.Fail("eval/compile-rejected", "NewExpression rejects %s although no constant sub-expression is ill-typed: %v\n[sig=eval/compile-rejected]", c.Tree, cerr)
		}
		cc.Label("rejected-at-compile-time")
		return
	}
	xs := make([]string, len(c.Steps)) // requested type of typed entries, per executed step
	fail := func(generic string, format string, args ...any) {
		sig := classify(&c, xs)
		if sig == "" {
			sig = generic
		}
		cc.Fail(sig, "expression %s\n%s\n[sig=%s]", c.Tree, fmt.Sprintf(format, args...), sig)
	}

	oa := newOracleA(c.Tree, cc)
	hasState := oa.hasState
	labels := oa.labels
	exprs := map[int]stateful.Expression{}
	outs := make([]outcome, len(c.Steps))
	stepErr, stepOK := false, false

	for i, s := range c.Steps {
		e := exprs[s.G]
		if e == nil {
			if c.UseCopy || c.Groups > 1 {
				e = base.CopyReset()
			} else {
				e = base
			}
			exprs[s.G] = e
		}
		// reference first (it also decides the requested type of typed entries)
		preds := oa.predict(s.G, s.Bind)
		x := s.X
		if x == "" {
			x = s.FX
			if p := preds[0]; p.e == nil && oneOf(p.v.T, tInt, tFloat, tString, tBool, tDur) {
				x = p.v.T.String()
			}
		}
		xs[i] = x
		o := call(e, mkScope(c.Names, s.Bind), s.Entry, x)
		outs[i] = o
		if o.err != "" {
			stepErr = true
		} else {
			stepOK = true
		}
		rootT, wellTyped := staticType(c.Tree, stepEnv(s.Bind))
		evaluated := wellTyped && oneOf(rootT, tInt, tFloat, tString, tBool, tDur) && (s.Entry == "eval" || vtOf(x) == rootT)
		if why, generic := oa.judge(s.G, preds, o, s.Entry, x, evaluated); why != "" {
			var hist []string
			for k := 0; k <= i; k++ {
				hist = append(hist, fmt.Sprintf("  step %d g%d %-10s %s -> %v", k, c.Steps[k].G, c.Steps[k].Entry+"/"+xs[k], fmtBind(c.Names, c.Steps[k].Bind), outs[k]))
			}
			fail(generic, "step %d (group %d, entry %s, requested %s): %s: observed %v, reference %v (%d candidate states)\n%s",
				i, s.G, s.Entry, x, why, o, preds[0], len(preds), strings.Join(hist, "\n"))
			return
		}
	}

	// ---- oracle B: fresh-vs-aged differential
	if !bFresh(c, node, hasState, outs, xs, fail) {
		return
	}

	// ---- labels and the non-trivial rule
	for l := range labels {
		cc.Label(l)
	}
	for _, s := range c.Steps {
		cc.Label("entry:" + s.Entry)
	}
	if stepErr {
		cc.Label("history-with-error-step")
	}
	if stepErr && stepOK {
		cc.Label("history-with-error-and-ok-steps")
	}
	binOverRef := false
	c.Tree.walk(func(n *Tree) {
		if n.K == "bin" && n.hasRef() {
			binOverRef = true
		}
	})
	tc := hasTypeChange(&c)
	if tc {
		cc.Label("type-change-in-history")
	}
	gu := groupsUsed(&c)
	cc.Label(fmt.Sprintf("groups-used=%d", gu))
	if hasState {
		cc.Label("stateful-function")
	}
	if nestedStateful(c.Tree) {
		cc.Label("stateful-in-nested-lambda")
	}
	if (binOverRef && tc) || (gu >= 2 && hasState) {
		cc.NonTrivial()
	}
}

// bFresh: every step's outcome on the long-lived expression equals the outcome on a freshly
// compiled expression fed only the same group's steps (stateless expression: only that step).
func bFresh(c Case, node ast.Node, hasState bool, outs []outcome, xs []string, fail func(string, string, ...any)) bool {
	if !hasState {
		for i, s := range c.Steps {
			fresh, err := stateful.NewExpression(node)
			if err != nil {
				return true
			}
			o := call(fresh, mkScope(c.Names, s.Bind), s.Entry, xs[i])
			if !sameOutcome(o, outs[i]) {
				fail("eval/history-dependence", "step %d %s entry %s/%s: the long-lived expression yields %v, a freshly compiled one %v (stateless expression)",
					i, fmtBind(c.Names, s.Bind), s.Entry, xs[i], outs[i], o)
				return false
			}
		}
		return true
	}
	gs := map[int]bool{}
	for _, s := range c.Steps {
		gs[s.G] = true
	}
	if len(gs) < 2 {
		return true // one group: the fresh run would repeat the aged run
	}
	for g := 0; g < c.Groups; g++ {
		if !gs[g] {
			continue
		}
		fresh, err := stateful.NewExpression(node)
		if err != nil {
			return true
		}
		for i, s := range c.Steps {
			if s.G != g {
				continue
			}
			o := call(fresh, mkScope(c.Names, s.Bind), s.Entry, xs[i])
			if !sameOutcome(o, outs[i]) {
				fail("eval/group-dependence", "step %d (group %d) %s entry %s/%s: the shared compiled expression yields %v, a fresh expression fed only group %d yields %v",
					i, g, fmtBind(c.Names, s.Bind), s.Entry, xs[i], outs[i], g, o)
				return false
			}
		}
	}
	return true
}

func TestEval(t *testing.T) {
	r := kit.NewRec("C04", "Eval", rule, assumptions...)
	kit.Check(t, r, genWith(r), run)
}

func TestReplayEval(t *testing.T) {
	r := kit.NewRec("C04", "Eval", rule, assumptions...)
	kit.Replay(t, r, run)
}

// FuzzEval: the Eval property under Go's coverage-guided fuzzer (thorough tier only).
func FuzzEval(f *testing.F) {
	r := kit.NewRec("C04", "FuzzEval", rule, assumptions...)
	gen := genWith(r)
	f.Add([]byte{})
	f.Add([]byte("\x01\x02\x03\x04\x05\x06\x07\x08\x09\x0a\x0b\x0c\x0d\x0e\x0f\x10\x11\x12\x13\x14\x15\x16\x17\x18"))
	f.Add([]byte("count() * r; the quick brown fox jumps over the lazy dog 0123456789 0123456789 0123456789"))
	f.Fuzz(rapid.MakeFuzz(func(t *rapid.T) {
		c := gen(t)
		cc := r.Begin(c)
		run(c, cc)
		cc.End()
		if cc.Failed() {
			t.Fatalf("%s", cc.Message())
		}
	}))
}
