// Unit Predicate: kapacitor.EvalPredicate (fillScope + Type + EvalBool) on points.
//
// The scope of a point is built by fillScope from the referenced names: "time" is the point
// time, a name that is a field is the field value, a name that is a tag is the tag value, a
// name that is both is an error ("cannot have field and tags with same name"), a name that is
// neither is a missing value. The pooled scope must not leak values of earlier points.
package c04

import (
	"fmt"
	"sort"
	"strings"
	"testing"
	"time"

	"verifharness/kit"

	"github.com/influxdata/kapacitor"
	"github.com/influxdata/kapacitor/models"
	"github.com/influxdata/kapacitor/tick/ast"
	"github.com/influxdata/kapacitor/tick/stateful"
	"pgregory.net/rapid"
)

type PPoint struct {
	G      int               `json:"g"`
	Time   int64             `json:"time"`
	Fields map[string]SV     `json:"fields"`
	Tags   map[string]string `json:"tags"`
}

type PCase struct {
	Tree   *Tree    `json:"tree"`
	Names  []string `json:"names"`
	Groups int      `json:"groups"`
	Class  string   `json:"class"`
	Points []PPoint `json:"points"`
}

const prule = "rapid: lambda AST (as unit Eval, references to int/float/string/bool fields, string tags and \"time\") x 1-10 points over 1-3 groups (CopyReset copies, one shared scope pool); " +
	"each referenced name is per point a field, a tag, both (collision) or absent; non-trivial = a referenced name changes its kind (field type / tag / absent / collision) within the history " +
	"and the expression has a binary operator over a reference; distinct by case hash"

var passumptions = append([]string{
	"fillScope (expr.go): \"time\" is the point time; a name that is both a field and a tag of the point is an error for the point; a name that is neither is a missing value; tag values are strings",
	"EvalPredicate evaluates Type() and then EvalBool: a non-boolean expression is an error; integer division by zero there is process-fatal (C05) and excluded by construction (the point is dropped)",
}, assumptions...)

type ppoint struct {
	f models.Fields
	t models.Tags
	z time.Time
}

func (p ppoint) Fields() models.Fields { return p.f }
func (p ppoint) Tags() models.Tags     { return p.t }
func (p ppoint) Time() time.Time       { return p.z }

func pgenWith(r *kit.Rec) func(t *rapid.T) PCase {
	return func(t *rapid.T) PCase {
		g := &genCtx{t: t, maxNames: 4, used: []map[string]bool{{}}, kinds: []VT{tInt, tFloat, tString, tBool, tTime}, timeName: "time"}
		var c Case
		c.Groups = []int{1, 1, 2, 3}[rapid.IntRange(0, 3).Draw(t, "groups")]
		g.noNested = exclNestedLambda && c.Groups > 1
		c.UseCopy = true
		c.Class = "well-typed"
		want := rapid.SampledFrom([]VT{tBool, tBool, tBool, tBool, tBool, tInt, tString}).Draw(t, "roottype")
		c.Tree = g.expr(want, rapid.IntRange(1, 4).Draw(t, "depth"))
		if rapid.IntRange(0, 4).Draw(t, "illtyped") == 0 {
			c.Class = "ill-typed"
			c.Tree = g.mutate(c.Tree)
		}
		fixBessel(c.Tree)
		dedupeStateful(c.Tree)
		for _, n := range g.names {
			c.Names = append(c.Names, n.Name)
		}
		if c.Tree.refs()["gone"] {
			c.Names = append(c.Names, "gone")
		}
		sort.Strings(c.Names)
		alts := altKinds(c.Tree, g.names, []VT{tInt, tFloat, tString, tBool})
		stable := map[string]VT{}
		for _, n := range g.names {
			stable[n.Name] = n.Kind
		}
		npts := rapid.IntRange(1, 10).Draw(t, "npoints")
		var times []int64
		for i := 0; i < npts; i++ {
			s := Step{Entry: "type+typed", X: "bool", FX: "bool", Bind: map[string]SV{}}
			s.G = rapid.IntRange(0, c.Groups-1).Draw(t, "g")
			kinds := map[string]VT{}
			for k, v := range stable {
				kinds[k] = v
			}
			if len(g.names) > 0 {
				n := g.names[rapid.IntRange(0, len(g.names)-1).Draw(t, "chg-name")]
				switch g.pick("pointmode", 5, 3, 2) {
				case 1:
					if n.Name != "time" {
						if a := append([]VT{n.Kind}, alts[n.Name]...); len(a) > 1 {
							stable[n.Name] = rapid.SampledFrom(a).Draw(t, "alt")
							kinds[n.Name] = stable[n.Name]
						}
					}
				case 2:
					if n.Name != "time" {
						kinds[n.Name] = rapid.SampledFrom([]VT{tInt, tFloat, tString, tBool, tMissing}).Draw(t, "hostile")
					}
				}
			}
			for _, n := range c.Names {
				switch {
				case n == "gone":
					s.Bind[n] = SV{T: "missing"}
				default:
					s.Bind[n] = drawValue(t, kinds[n])
				}
			}
			times = append(times, rapid.SampledFrom(timeVals).Draw(t, "time"))
			if _, ok := s.Bind["time"]; ok {
				s.Bind["time"] = SV{T: "time", I: times[i]}
			}
			c.Steps = append(c.Steps, s)
		}
		for _, cl := range sanitize(&c) {
			r.Exclude(cl)
		}
		// steps that end in a fault cannot go through EvalPredicate (no recover): drop them
		for round := 0; round < 12; round++ {
			var keep []Step
			var kt []int64
			for i, s := range c.Steps {
				if s.Entry == "eval" {
					continue
				}
				keep = append(keep, s)
				kt = append(kt, times[i])
			}
			c.Steps, times = keep, kt
			if faultsToEval(&c) == 0 {
				break
			}
		}
		pc := PCase{Tree: c.Tree, Names: c.Names, Groups: c.Groups, Class: c.Class}
		for i, s := range c.Steps {
			p := PPoint{G: s.G, Time: times[i], Fields: map[string]SV{}, Tags: map[string]string{}}
			for _, n := range c.Names {
				if n == "time" {
					continue
				}
				sv := s.Bind[n]
				switch sv.T {
				case "string":
					if rapid.Bool().Draw(t, "as-tag") {
						p.Tags[n] = sv.S
					} else {
						p.Fields[n] = sv
					}
				case "int", "float", "bool":
					p.Fields[n] = sv
				}
				if rapid.IntRange(0, 14).Draw(t, "collide") == 0 { // the name is a field and a tag of this point
					if _, isField := p.Fields[n]; !isField {
						p.Fields[n] = drawValue(t, rapid.SampledFrom([]VT{tInt, tFloat, tString, tBool}).Draw(t, "ckind"))
					}
					if _, isTag := p.Tags[n]; !isTag {
						p.Tags[n] = rapid.SampledFrom(strVals).Draw(t, "ctag")
					}
				}
			}
			// names the expression does not reference (a collision among them is no error)
			if rapid.IntRange(0, 3).Draw(t, "noise") == 0 {
				p.Fields["other"] = SV{T: "int", I: 1}
				p.Tags["other"] = "x"
				p.Tags["host"] = "h"
			}
			pc.Points = append(pc.Points, p)
		}
		return pc
	}
}

// pointScope: the scope fillScope must build (collision reported separately).
func pointScope(refs map[string]bool, p PPoint) (bind map[string]SV, collision string) {
	bind = map[string]SV{}
	for _, n := range keys(refs) {
		if n == "time" {
			bind[n] = SV{T: "time", I: p.Time}
			continue
		}
		f, isField := p.Fields[n]
		tg, isTag := p.Tags[n]
		switch {
		case isField && isTag:
			if collision == "" {
				collision = n
			}
		case isField:
			bind[n] = f
		case isTag:
			bind[n] = SV{T: "string", S: tg}
		default:
			bind[n] = SV{T: "missing"}
		}
	}
	return
}

func kindOf(p PPoint, n string) string {
	f, isField := p.Fields[n]
	_, isTag := p.Tags[n]
	switch {
	case isField && isTag:
		return "collision"
	case isField:
		return "field:" + f.T
	case isTag:
		return "tag"
	}
	return "absent"
}

func prun(c PCase, cc *kit.Case) {
	node, err := build(c.Tree)
	if err != nil {
		cc.Fail("harness/build", "cannot build the AST: %v", err)
		return
	}
	cc.Label("class:" + c.Class)
	base, cerr := stateful.NewExpression(node)
	if cerr != nil {
		if _, _, bad := constType(c.Tree); !bad {
			cc.Fail("eval/compile-rejected", "NewExpression rejects %s although no constant sub-expression is ill-typed: %v", c.Tree, cerr)
		}
		cc.Label("rejected-at-compile-time")
		return
	}
	refs := c.Tree.refs()
	pool := stateful.NewScopePool(ast.FindReferenceVariables(node))
	oa := newOracleA(c.Tree, cc)
	exprs := map[int]stateful.Expression{}
	var hist []string
	sawCollision, sawTag, sawField, sawAbsent := false, false, false, false
	for i, p := range c.Points {
		e := exprs[p.G]
		if e == nil {
			e = base.CopyReset()
			exprs[p.G] = e
		}
		bind, collision := pointScope(refs, p)
		pt := ppoint{f: models.Fields{}, t: models.Tags{}, z: time.Unix(0, p.Time).UTC()}
		for k, v := range p.Fields {
			gv, _ := v.goValue()
			pt.f[k] = gv
		}
		for k, v := range p.Tags {
			pt.t[k] = v
		}
		for n := range refs {
			switch k := kindOf(p, n); {
			case k == "collision":
				sawCollision = true
			case k == "tag":
				sawTag = true
			case k == "absent":
				sawAbsent = true
			default:
				sawField = true
			}
		}
		var preds []refOutcome
		if collision == "" {
			preds = oa.predict(p.G, bind)
		}
		var o outcome
		func() {
			defer func() {
				if r := recover(); r != nil {
					o.panic = fmt.Sprint(r)
				}
			}()
			b, err := kapacitor.EvalPredicate(e, pool, pt)
			if err != nil {
				o.err = err.Error()
				if o.err == "" {
					o.err = "error"
				}
				return
			}
			o.v = Val{T: tBool, B: b}
		}()
		hist = append(hist, fmt.Sprintf("  point %d g%d time=%d fields=%v tags=%v -> %v", i, p.G, p.Time, p.Fields, p.Tags, o))
		if collision != "" {
			if o.err == "" {
				cc.Fail("predicate/field-tag-collision-not-reported", "expression %s\npoint %d has %q as a field and as a tag: an error is documented, observed %v\n%s", c.Tree, i, collision, o, strings.Join(hist, "\n"))
				return
			}
			continue
		}
		// EvalPredicate = Type() then EvalBool; a Type() error is the error of the point
		po := o
		rootT, wellTyped := staticType(c.Tree, stepEnv(bind))
		if why, generic := oa.judge(p.G, preds, po, "typed", "bool", wellTyped && rootT == tBool); why != "" {
			cs := Case{Tree: c.Tree, Groups: c.Groups}
			for _, q := range c.Points {
				b, coll := pointScope(refs, q)
				if coll != "" {
					continue // never evaluated
				}
				cs.Steps = append(cs.Steps, Step{G: q.G, Entry: "type+typed", X: "bool", FX: "bool", Bind: b})
			}
			sig := classify(&cs, nil)
			if sig == "" {
				sig = strings.Replace(generic, "eval/", "predicate/", 1)
			}
			cc.Fail(sig, "expression %s\npoint %d (group %d): %s: observed %v, reference %v (scope %s)\n%s", c.Tree, i, p.G, why, o, preds[0], fmtBind(keys(refs), bind), strings.Join(hist, "\n"))
			return
		}
	}
	for l := range oa.labels {
		cc.Label(l)
	}
	if sawCollision {
		cc.Label("field-tag-collision")
	}
	if sawTag {
		cc.Label("bound-from-tag")
	}
	if sawField {
		cc.Label("bound-from-field")
	}
	if sawAbsent {
		cc.Label("absent->missing")
	}
	if refs["time"] {
		cc.Label("references-time")
	}
	kindChange := false
	for n := range refs {
		for i := 1; i < len(c.Points); i++ {
			if kindOf(c.Points[i], n) != kindOf(c.Points[0], n) {
				kindChange = true
			}
		}
	}
	if kindChange {
		cc.Label("name-changes-kind")
	}
	binOverRef := false
	c.Tree.walk(func(n *Tree) {
		if n.K == "bin" && n.hasRef() {
			binOverRef = true
		}
	})
	if kindChange && binOverRef {
		cc.NonTrivial()
	}
}

func TestPredicate(t *testing.T) {
	r := kit.NewRec("C04", "Predicate", prule, passumptions...)
	kit.Check(t, r, pgenWith(r), prun)
}

func TestReplayPredicate(t *testing.T) {
	r := kit.NewRec("C04", "Predicate", prule, passumptions...)
	kit.Replay(t, r, prun)
}
