// ref.go: the reference semantics of lambda expressions (oracle A).
//
// A big-step interpreter over Tree written from the TICKscript language documentation
// (operator/type table, "each function is implemented via the equivalently named Go function"
// for math and string functions, doc strings of the built-ins) and the property statement.
// It is NOT a transliteration of tick/stateful: there is no specialisation, no caching, no
// type guards; a value is (dynamic type, payload) and every operator consults one table.
//
// Three outcomes besides a value:
//
//	kErr    the point is in error (type mismatch, missing field, conversion failure, unknown function)
//	kFault  an arithmetic/range fault (integer division by zero, strSubstring start > stop):
//	        an error for the point where the entry point recovers (Expression.Eval), process-fatal
//	        elsewhere (property C05) and therefore not exercised there
//	kUnspec the documentation does not determine the outcome (or documentation and declared
//	        signature disagree): nothing is asserted for that step
package c04

import (
	"math"
	"regexp"
	"strconv"
	"strings"
	"time"
	"unicode/utf8"

	humanize "github.com/dustin/go-humanize"
)

type VT uint8

const (
	tInvalid VT = iota
	tInt
	tFloat
	tString
	tBool
	tDur
	tTime
	tRegex
	tMissing
)

var vtNames = [...]string{"invalid", "int", "float", "string", "bool", "dur", "time", "regex", "missing"}

func (t VT) String() string { return vtNames[t] }

func vtOf(s string) VT {
	for i, n := range vtNames {
		if n == s {
			return VT(i)
		}
	}
	return tInvalid
}

// Val is a dynamically typed value. I holds int, duration (ns) and time (unix ns).
type Val struct {
	T      VT
	I      int64
	F      float64
	S      string
	B      bool
	Approx bool // derived from a sigma() result: compared with tolerance
}

type rkind uint8

const (
	kErr rkind = iota + 1
	kFault
	kUnspec
)

type rerr struct {
	k   rkind
	why string
	// val: the failure depends on the VALUES of a well-typed application (division by zero, index
	// out of range, a string that does not parse): no check of the point's types can find it, the
	// operands have to be evaluated first.
	val bool
}

func eErr(why string) *rerr    { return &rerr{k: kErr, why: why} }
func eValErr(why string) *rerr { return &rerr{k: kErr, why: why, val: true} }
func eFault(why string) *rerr  { return &rerr{k: kFault, why: why, val: true} }
func eUnspec(why string) *rerr { return &rerr{k: kUnspec, why: why} }

// ---------------------------------------------------------------- operator x type table
//
// TICKscript documentation, "Operators": arithmetic on two operands of the same numeric
// type (no implicit int/float coercion), % on ints, + concatenates strings, comparisons
// between numbers (int and float may be compared with each other), between strings,
// == != between booleans, =~ !~ string against regex, AND OR on booleans (short-circuit),
// durations: d+d d-d, d*int int*d d*float float*d, d/int d/float -> duration, d/d -> int,
// comparisons between durations.

type opKey struct {
	op   string
	l, r VT
}

// opTable maps (operator, left type, right type) to the result type. Absent = type error.
var opTable = map[opKey]VT{}

// opUnspec lists pairs the documentation is unclear about.
var opUnspec = map[opKey]bool{
	{"%", tFloat, tFloat}: true, // the docs show "4.0 % 2.0" in an example table, the reference does not define it
}

var cmpOps = []string{"==", "!=", "<", "<=", ">", ">="}

func init() {
	for _, op := range cmpOps {
		for _, l := range []VT{tInt, tFloat} {
			for _, r := range []VT{tInt, tFloat} {
				opTable[opKey{op, l, r}] = tBool
			}
		}
		opTable[opKey{op, tString, tString}] = tBool
		opTable[opKey{op, tDur, tDur}] = tBool
	}
	for _, op := range []string{"==", "!=", "AND", "OR"} {
		opTable[opKey{op, tBool, tBool}] = tBool
	}
	opTable[opKey{"=~", tString, tRegex}] = tBool
	opTable[opKey{"!~", tString, tRegex}] = tBool
	for _, op := range []string{"+", "-", "*", "/"} {
		opTable[opKey{op, tInt, tInt}] = tInt
		opTable[opKey{op, tFloat, tFloat}] = tFloat
	}
	opTable[opKey{"%", tInt, tInt}] = tInt
	opTable[opKey{"+", tString, tString}] = tString
	opTable[opKey{"+", tDur, tDur}] = tDur
	opTable[opKey{"-", tDur, tDur}] = tDur
	opTable[opKey{"*", tDur, tInt}] = tDur
	opTable[opKey{"*", tInt, tDur}] = tDur
	opTable[opKey{"*", tDur, tFloat}] = tDur
	opTable[opKey{"*", tFloat, tDur}] = tDur
	opTable[opKey{"/", tDur, tInt}] = tDur
	opTable[opKey{"/", tDur, tFloat}] = tDur
	opTable[opKey{"/", tDur, tDur}] = tInt
}

func isMathOp(op string) bool {
	switch op {
	case "+", "-", "*", "/", "%":
		return true
	}
	return false
}

// ---------------------------------------------------------------- integer helpers

func addOv(a, b int64) (int64, bool) {
	s := a + b
	return s, (a > 0 && b > 0 && s < 0) || (a < 0 && b < 0 && s >= 0)
}

func subOv(a, b int64) (int64, bool) {
	d := a - b
	return d, (b < 0 && a > math.MaxInt64+b) || (b > 0 && a < math.MinInt64+b)
}

func mulOv(a, b int64) (int64, bool) {
	if a == 0 || b == 0 {
		return 0, false
	}
	if (a == -1 && b == math.MinInt64) || (b == -1 && a == math.MinInt64) {
		return 0, true
	}
	p := a * b
	return p, p/b != a
}

// f2i converts a float to an integer, truncating toward zero. ok=false when the value is
// NaN or outside the int64 range (platform-defined in Go).
func f2i(f float64) (int64, bool) {
	if math.IsNaN(f) || f >= 9223372036854775808.0 || f < -9223372036854775808.0 {
		return 0, false
	}
	return int64(f), true
}

// cmpIntFloat compares exactly; unordered for NaN.
func cmpIntFloatExact(i int64, f float64) (c int, ordered bool) {
	if math.IsNaN(f) {
		return 0, false
	}
	if f >= 9223372036854775808.0 {
		return -1, true
	}
	if f < -9223372036854775808.0 {
		return 1, true
	}
	tr := math.Trunc(f)
	fi := int64(tr)
	switch {
	case i < fi:
		return -1, true
	case i > fi:
		return 1, true
	}
	fr := f - tr
	switch {
	case fr > 0:
		return -1, true
	case fr < 0:
		return 1, true
	}
	return 0, true
}

func cmpResult(op string, c int, ordered bool) bool {
	if !ordered {
		return op == "!="
	}
	switch op {
	case "==":
		return c == 0
	case "!=":
		return c != 0
	case "<":
		return c < 0
	case "<=":
		return c <= 0
	case ">":
		return c > 0
	case ">=":
		return c >= 0
	}
	return false
}

func cmpF(a, b float64) (int, bool) {
	switch {
	case math.IsNaN(a) || math.IsNaN(b):
		return 0, false
	case a < b:
		return -1, true
	case a > b:
		return 1, true
	}
	return 0, true
}

func cmpI(a, b int64) int {
	switch {
	case a < b:
		return -1
	case a > b:
		return 1
	}
	return 0
}

// ---------------------------------------------------------------- binary operators

func binop(op string, l, r Val) (Val, *rerr) {
	k := opKey{op, l.T, r.T}
	if opUnspec[k] {
		return Val{}, eUnspec("op " + op + " on " + l.T.String() + "," + r.T.String())
	}
	rt, ok := opTable[k]
	if !ok {
		return Val{}, eErr("operator " + op + " not defined on " + l.T.String() + "," + r.T.String())
	}
	out := Val{T: rt, Approx: l.Approx || r.Approx}
	switch rt {
	case tBool:
		switch {
		case op == "AND":
			out.B = l.B && r.B
		case op == "OR":
			out.B = l.B || r.B
		case op == "=~" || op == "!~":
			re, err := regexp.Compile(r.S)
			if err != nil {
				return Val{}, eErr("bad regex")
			}
			out.B = re.MatchString(l.S) == (op == "=~")
		case l.T == tBool:
			out.B = (l.B == r.B) == (op == "==")
		case l.T == tString:
			out.B = cmpResult(op, strings.Compare(l.S, r.S), true)
		case l.T == tDur:
			out.B = cmpResult(op, cmpI(l.I, r.I), true)
		case l.T == tInt && r.T == tInt:
			out.B = cmpResult(op, cmpI(l.I, r.I), true)
		case l.T == tFloat && r.T == tFloat:
			c, o := cmpF(l.F, r.F)
			out.B = cmpResult(op, c, o)
		case l.T == tInt: // int ? float
			c, o := cmpF(float64(l.I), r.F)
			ce, oe := cmpIntFloatExact(l.I, r.F)
			if cmpResult(op, c, o) != cmpResult(op, ce, oe) {
				return Val{}, eUnspec("int/float comparison beyond 2^53 (exact and converted results differ)")
			}
			out.B = cmpResult(op, c, o)
		default: // float ? int
			c, o := cmpF(l.F, float64(r.I))
			ce, oe := cmpIntFloatExact(r.I, l.F)
			if cmpResult(op, c, o) != cmpResult(op, -ce, oe) {
				return Val{}, eUnspec("int/float comparison beyond 2^53 (exact and converted results differ)")
			}
			out.B = cmpResult(op, c, o)
		}
		return out, nil
	case tString:
		out.S = l.S + r.S
		return out, nil
	case tFloat:
		switch op {
		case "+":
			out.F = l.F + r.F
		case "-":
			out.F = l.F - r.F
		case "*":
			out.F = l.F * r.F
		case "/":
			out.F = l.F / r.F
		}
		return out, nil
	}
	// integer or duration result
	if l.T == tFloat || r.T == tFloat { // duration scaled by a float
		var p float64
		switch {
		case op == "*" && l.T == tFloat:
			p = l.F * float64(r.I)
		case op == "*":
			p = float64(l.I) * r.F
		default:
			p = float64(l.I) / r.F
		}
		i, ok := f2i(p)
		if !ok {
			return Val{}, eUnspec("float->int conversion of NaN/out-of-range value (duration scaled by float)")
		}
		out.I = i
		return out, nil
	}
	var ov bool
	switch op {
	case "+":
		out.I, ov = addOv(l.I, r.I)
	case "-":
		out.I, ov = subOv(l.I, r.I)
	case "*":
		out.I, ov = mulOv(l.I, r.I)
	case "/":
		if r.I == 0 {
			return Val{}, eFault("integer division by zero")
		}
		if l.I == math.MinInt64 && r.I == -1 {
			ov = true
		} else {
			out.I = l.I / r.I // truncated division
		}
	case "%":
		if r.I == 0 {
			return Val{}, eFault("integer modulo by zero")
		}
		if r.I == -1 {
			out.I = 0
		} else {
			out.I = l.I % r.I // sign of the dividend
		}
	}
	if ov {
		return Val{}, eUnspec("integer overflow")
	}
	return out, nil
}

// ---------------------------------------------------------------- functions

var math1 = map[string]func(float64) float64{
	"abs": math.Abs, "acos": math.Acos, "acosh": math.Acosh, "asin": math.Asin, "asinh": math.Asinh,
	"atan": math.Atan, "atanh": math.Atanh, "cbrt": math.Cbrt, "ceil": math.Ceil, "cos": math.Cos,
	"cosh": math.Cosh, "erf": math.Erf, "erfc": math.Erfc, "exp": math.Exp, "exp2": math.Exp2,
	"expm1": math.Expm1, "floor": math.Floor, "gamma": math.Gamma, "j0": math.J0, "j1": math.J1,
	"log": math.Log, "log10": math.Log10, "log1p": math.Log1p, "log2": math.Log2, "logb": math.Logb,
	"sin": math.Sin, "sinh": math.Sinh, "sqrt": math.Sqrt, "tan": math.Tan, "tanh": math.Tanh,
	"trunc": math.Trunc, "y0": math.Y0, "y1": math.Y1,
}

var math2 = map[string]func(float64, float64) float64{
	"atan2": math.Atan2, "hypot": math.Hypot, "max": math.Max, "min": math.Min, "mod": math.Mod, "pow": math.Pow,
}

var str2bool = map[string]func(string, string) bool{
	"strContains": strings.Contains, "strContainsAny": strings.ContainsAny,
	"strHasPrefix": strings.HasPrefix, "strHasSuffix": strings.HasSuffix,
}

var str2int = map[string]func(string, string) int{
	"strCount": strings.Count, "strIndex": strings.Index, "strIndexAny": strings.IndexAny,
	"strLastIndex": strings.LastIndex, "strLastIndexAny": strings.LastIndexAny,
}

var str2str = map[string]func(string, string) string{
	"strTrim": strings.Trim, "strTrimLeft": strings.TrimLeft, "strTrimPrefix": strings.TrimPrefix,
	"strTrimRight": strings.TrimRight, "strTrimSuffix": strings.TrimSuffix,
}

var str1str = map[string]func(string) string{
	"strToLower": strings.ToLower, "strToUpper": strings.ToUpper, "strTrimSpace": strings.TrimSpace,
}

var timeFns = map[string]func(time.Time) int64{
	"unixNano": func(t time.Time) int64 { return t.UnixNano() },
	"minute":   func(t time.Time) int64 { return int64(t.Minute()) },
	"hour":     func(t time.Time) int64 { return int64(t.Hour()) },
	"weekday":  func(t time.Time) int64 { return int64(t.Weekday()) },
	"day":      func(t time.Time) int64 { return int64(t.Day()) },
	"month":    func(t time.Time) int64 { return int64(t.Month()) },
	"year":     func(t time.Time) int64 { return int64(t.Year()) },
}

func eqTypes(a []VT, want ...VT) bool {
	if len(a) != len(want) {
		return false
	}
	for i := range a {
		if a[i] != want[i] {
			return false
		}
	}
	return true
}

func oneOf(t VT, set ...VT) bool {
	for _, s := range set {
		if t == s {
			return true
		}
	}
	return false
}

const (
	sigOK = iota
	sigErr
	sigUnspec
)

// fnType is the documented signature of the built-in functions: result type for the given
// argument types.
func fnType(name string, a []VT) (VT, int) {
	ok := func(t VT, cond bool) (VT, int) {
		if cond {
			return t, sigOK
		}
		return tInvalid, sigErr
	}
	if name == "isPresent" {
		if len(a) != 1 {
			return tInvalid, sigErr
		}
		if oneOf(a[0], tMissing, tBool, tString, tInt, tFloat) {
			return tBool, sigOK
		}
		return tInvalid, sigUnspec // duration/time/regex: accepted by the function, absent from its declared signature
	}
	if name == "duration" && len(a) == 2 && a[1] != tDur && oneOf(a[0], tString, tDur) {
		// the unit is not used for string and duration values ("unit is optional depending on the
		// type of value"): whether a unit of the wrong type (or a missing one) is an error is open
		return tInvalid, sigUnspec
	}
	for _, t := range a {
		if t == tMissing || t == tInvalid {
			return tInvalid, sigErr
		}
	}
	if _, is := math1[name]; is {
		return ok(tFloat, eqTypes(a, tFloat))
	}
	if _, is := math2[name]; is {
		return ok(tFloat, eqTypes(a, tFloat, tFloat))
	}
	if _, is := str2bool[name]; is {
		return ok(tBool, eqTypes(a, tString, tString))
	}
	if _, is := str2int[name]; is {
		return ok(tInt, eqTypes(a, tString, tString))
	}
	if _, is := str2str[name]; is {
		return ok(tString, eqTypes(a, tString, tString))
	}
	if _, is := str1str[name]; is {
		return ok(tString, eqTypes(a, tString))
	}
	if _, is := timeFns[name]; is {
		return ok(tInt, eqTypes(a, tTime))
	}
	switch name {
	case "pow10":
		return ok(tFloat, eqTypes(a, tInt))
	case "jn", "yn":
		return ok(tFloat, eqTypes(a, tInt, tFloat))
	case "strLength":
		return ok(tInt, eqTypes(a, tString))
	case "strReplace":
		return ok(tString, eqTypes(a, tString, tString, tString, tInt))
	case "strSubstring":
		return ok(tString, eqTypes(a, tString, tInt, tInt))
	case "regexReplace":
		return ok(tString, eqTypes(a, tRegex, tString, tString))
	case "bool":
		return ok(tBool, len(a) == 1 && oneOf(a[0], tBool, tString, tInt, tFloat))
	case "int":
		if len(a) == 1 && a[0] == tDur {
			return tInvalid, sigUnspec // converts, but is not in the declared signature
		}
		return ok(tInt, len(a) == 1 && oneOf(a[0], tBool, tString, tInt, tFloat))
	case "float":
		return ok(tFloat, len(a) == 1 && oneOf(a[0], tBool, tString, tInt, tFloat))
	case "string":
		return ok(tString, len(a) == 1 && oneOf(a[0], tBool, tString, tInt, tFloat, tDur))
	case "duration":
		switch {
		case eqTypes(a, tDur):
			return tDur, sigOK
		case len(a) == 2 && a[1] == tDur && oneOf(a[0], tInt, tFloat, tString):
			return tDur, sigOK
		case eqTypes(a, tString), eqTypes(a, tDur, tDur):
			return tInvalid, sigUnspec // "unit is optional depending on the type of value" vs declared signature
		}
		return tInvalid, sigErr
	case "count":
		return ok(tInt, len(a) == 0)
	case "sigma", "spread":
		return ok(tFloat, eqTypes(a, tFloat))
	case "humanBytes":
		return ok(tString, len(a) == 1 && oneOf(a[0], tInt, tFloat))
	case "if":
		return ok(a3(a), len(a) == 3 && a[0] == tBool && a[1] == a[2] && oneOf(a[1], tFloat, tInt, tString, tBool, tRegex, tTime, tDur))
	}
	return tInvalid, sigErr // unknown function
}

func a3(a []VT) VT {
	if len(a) == 3 {
		return a[1]
	}
	return tInvalid
}

// fmtDuration renders a duration as a TICKscript duration literal: the largest unit that
// divides it exactly.
func fmtDuration(d int64) string {
	if d == 0 {
		return "0s"
	}
	units := []struct {
		n int64
		s string
	}{{int64(7 * 24 * time.Hour), "w"}, {int64(24 * time.Hour), "d"}, {int64(time.Hour), "h"}, {int64(time.Minute), "m"},
		{int64(time.Second), "s"}, {int64(time.Millisecond), "ms"}, {int64(time.Microsecond), "u"}}
	for _, u := range units {
		if d%u.n == 0 {
			return strconv.FormatInt(d/u.n, 10) + u.s
		}
	}
	return strconv.FormatInt(d, 10) + "ns"
}

var durSimple = regexp.MustCompile(`^([0-9]{1,9})(ns|u|µ|ms|s|m|h|d|w)$`)
var durLoose = regexp.MustCompile(`^-?([0-9]+(ns|u|µ|ms|s|m|h|d|w))+$`)
var durUnit = map[string]int64{"ns": 1, "u": 1e3, "µ": 1e3, "ms": 1e6, "s": 1e9, "m": 60e9, "h": 3600e9, "d": 24 * 3600e9, "w": 7 * 24 * 3600e9}

// parseDuration: a single <digits><unit> literal is a duration; anything that is not a
// sequence of such literals is an error; the rest (compound, negative, huge) is left open.
func parseDuration(s string) (int64, *rerr) {
	if m := durSimple.FindStringSubmatch(s); m != nil {
		n, _ := strconv.ParseInt(m[1], 10, 64)
		if v, ov := mulOv(n, durUnit[m[2]]); !ov {
			return v, nil
		}
		return 0, eUnspec("duration string overflows")
	}
	if !durLoose.MatchString(s) {
		return 0, eValErr("invalid duration string")
	}
	return 0, eUnspec("compound/negative duration string")
}

func isASCII(s string) bool {
	for i := 0; i < len(s); i++ {
		if s[i] >= utf8.RuneSelf {
			return false
		}
	}
	return true
}

// fstate is the state of one stateful call site.
type fstate struct {
	N        int64
	Mean, M2 float64
	Min, Max float64
}

func newFstate() fstate { return fstate{Min: math.Inf(1), Max: math.Inf(-1)} }

func sameStates(a, b []fstate) bool {
	if len(a) != len(b) {
		return false
	}
	eq := func(x, y float64) bool { return math.Float64bits(x) == math.Float64bits(y) }
	for i := range a {
		if a[i].N != b[i].N || !eq(a[i].Mean, b[i].Mean) || !eq(a[i].M2, b[i].M2) || !eq(a[i].Min, b[i].Min) || !eq(a[i].Max, b[i].Max) {
			return false
		}
	}
	return true
}

// ---------------------------------------------------------------- interpreter

type interp struct {
	scope  map[string]SV
	st     []fstate       // state of the stateful call sites of this group, updated in place
	sites  map[*Tree]int  // call site -> index in st
	snaps  [][]fstate     // state after each stateful update of this step (abort points)
	labels map[string]int // operator/function coverage (nil = do not record)
	// skippedIll: AND/OR short-circuited over a right operand that is ill-typed for this
	// scope. "AND/OR short-circuit" says the value, "any type mismatch or missing field is
	// reported" says an error: both are accepted.
	skippedIll bool
}

func (in *interp) scopeType(name string) VT {
	sv, ok := in.scope[name]
	if !ok {
		return tInvalid
	}
	return vtOf(sv.T)
}

func siteIndex(root *Tree) map[*Tree]int {
	m := map[*Tree]int{}
	root.walk(func(n *Tree) {
		if n.K == "fn" && statefulFn[n.S] {
			m[n] = len(m)
		}
	})
	return m
}

func (in *interp) label(l string) {
	if in.labels != nil {
		in.labels[l]++
	}
}

func svVal(sv SV) Val {
	switch sv.T {
	case "int":
		return Val{T: tInt, I: sv.I}
	case "float":
		return Val{T: tFloat, F: parseF(sv.F)}
	case "string":
		return Val{T: tString, S: sv.S}
	case "bool":
		return Val{T: tBool, B: sv.B}
	case "dur":
		return Val{T: tDur, I: sv.I}
	case "time":
		return Val{T: tTime, I: sv.I}
	case "missing":
		return Val{T: tMissing}
	}
	return Val{}
}

// eval evaluates t left to right. A tMissing value may only be consumed by isPresent.
func (in *interp) eval(t *Tree) (Val, *rerr) {
	switch t.K {
	case "int":
		return Val{T: tInt, I: t.I}, nil
	case "float":
		return Val{T: tFloat, F: parseF(t.F)}, nil
	case "str":
		return Val{T: tString, S: t.S}, nil
	case "bool":
		return Val{T: tBool, B: t.B}, nil
	case "dur":
		return Val{T: tDur, I: t.I}, nil
	case "re":
		return Val{T: tRegex, S: t.S}, nil
	case "ref":
		sv, ok := in.scope[t.S]
		if !ok || sv.T == "unset" || sv.T == "" {
			return Val{}, eErr("name " + t.S + " is undefined")
		}
		return svVal(sv), nil
	case "lam":
		return in.eval(t.A[0])
	case "un":
		v, e := in.eval(t.A[0])
		if e != nil {
			return Val{}, e
		}
		switch {
		case t.S == "!" && v.T == tBool:
			in.label("op:!:bool")
			v.B = !v.B
			return v, nil
		case t.S == "-" && v.T == tInt:
			if v.I == math.MinInt64 {
				return Val{}, eUnspec("integer overflow")
			}
			in.label("op:neg:int")
			v.I = -v.I
			return v, nil
		case t.S == "-" && v.T == tDur:
			if v.I == math.MinInt64 {
				return Val{}, eUnspec("integer overflow")
			}
			in.label("op:neg:dur")
			v.I = -v.I
			return v, nil
		case t.S == "-" && v.T == tFloat:
			in.label("op:neg:float")
			v.F = -v.F
			return v, nil
		}
		in.label("op-mismatch:unary" + t.S)
		return Val{}, eErr("unary " + t.S + " not defined on " + v.T.String())
	case "bin":
		l, e := in.eval(t.A[0])
		if e != nil {
			return Val{}, e
		}
		if (t.S == "AND" || t.S == "OR") && l.T == tBool {
			if l.B == (t.S == "OR") { // short circuit: the right operand is not evaluated
				in.label("short-circuit:" + t.S)
				// An error instead of the value is accepted only when the operator's own operand
				// check can see the defect without evaluating the skipped operand: its type is
				// not boolean, or it is a reference, unary, arithmetic or function expression
				// whose type has to be derived from ill-typed parts. A skipped comparison or
				// AND/OR is boolean whatever it contains: there the short-circuit value is due.
				if vt, ok := staticType(t.A[1], in.scopeType); (!ok || vt != tBool) && !alwaysBool(t.A[1]) {
					in.skippedIll = true
				}
				return l, nil
			}
		}
		r, e := in.eval(t.A[1])
		if e != nil {
			return Val{}, e
		}
		v, e := binop(t.S, l, r)
		if e == nil {
			in.label("op:" + t.S + ":" + l.T.String() + "," + r.T.String())
		} else if e.k == kErr {
			in.label("op-mismatch:" + t.S)
		}
		return v, e
	case "fn":
		return in.call(t)
	}
	return Val{}, eErr("bad tree")
}

func (in *interp) call(t *Tree) (Val, *rerr) {
	name := t.S
	args := make([]Val, 0, len(t.A))
	types := make([]VT, 0, len(t.A))
	for i, a := range t.A {
		v, e := in.eval(a)
		if e != nil {
			if name == "if" && len(t.A) == 3 && i > 0 && args[0].T == tBool && args[0].B != (i == 1) && e.k != kUnspec {
				// the branch that is not selected fails: eager (error) or lazy (value) is not documented
				return Val{}, eUnspec("if(): error in the branch that is not selected")
			}
			if name == "isPresent" && e.k == kErr && a.K != "ref" {
				return Val{}, eUnspec("isPresent over a failing expression")
			}
			return Val{}, e
		}
		args = append(args, v)
		types = append(types, v.T)
	}
	rt, sig := fnType(name, types)
	switch sig {
	case sigErr:
		in.label("fn-mismatch:" + name)
		return Val{}, eErr("cannot call " + name + " with these arguments")
	case sigUnspec:
		return Val{}, eUnspec("signature of " + name + " and documentation disagree for these argument types")
	}
	out := Val{T: rt}
	for _, a := range args {
		out.Approx = out.Approx || a.Approx
	}
	lbl := "fn:" + name
	defer func() { in.label(lbl) }()
	if f, is := math1[name]; is {
		out.F = f(args[0].F)
		return out, nil
	}
	if f, is := math2[name]; is {
		out.F = f(args[0].F, args[1].F)
		return out, nil
	}
	if f, is := str2bool[name]; is {
		out.B = f(args[0].S, args[1].S)
		return out, nil
	}
	if f, is := str2int[name]; is {
		out.I = int64(f(args[0].S, args[1].S))
		return out, nil
	}
	if f, is := str2str[name]; is {
		out.S = f(args[0].S, args[1].S)
		return out, nil
	}
	if f, is := str1str[name]; is {
		out.S = f(args[0].S)
		return out, nil
	}
	if f, is := timeFns[name]; is {
		out.I = f(time.Unix(0, args[0].I).UTC())
		return out, nil
	}
	switch name {
	case "pow10":
		out.F = math.Pow10(int(args[0].I))
	case "jn":
		out.F = math.Jn(int(args[0].I), args[1].F)
	case "yn":
		out.F = math.Yn(int(args[0].I), args[1].F)
	case "strLength":
		if !isASCII(args[0].S) {
			return Val{}, eUnspec("strLength of a non-ASCII string (bytes or characters)")
		}
		out.I = int64(len(args[0].S))
	case "strReplace":
		out.S = strings.Replace(args[0].S, args[1].S, args[2].S, int(args[3].I))
	case "strSubstring":
		s, start, stop := args[0].S, args[1].I, args[2].I
		switch {
		case start < 0 || stop < 0:
			return Val{}, eValErr("negative index")
		case stop > int64(len(s)):
			return Val{}, eValErr("stop index too large")
		case start > stop:
			return Val{}, eFault("strSubstring start > stop")
		case stop == int64(len(s)):
			return Val{}, eUnspec("strSubstring stop == length")
		case !isASCII(s):
			return Val{}, eUnspec("strSubstring of a non-ASCII string (bytes or characters)")
		}
		out.S = s[start:stop]
	case "regexReplace":
		re, err := regexp.Compile(args[0].S)
		if err != nil {
			return Val{}, eErr("bad regex")
		}
		out.S = re.ReplaceAllString(args[1].S, args[2].S)
	case "bool":
		lbl += "(" + types[0].String() + ")"
		a := args[0]
		switch a.T {
		case tBool:
			out.B = a.B
		case tString:
			b, err := strconv.ParseBool(a.S)
			if err != nil {
				return Val{}, eValErr("cannot convert string to bool")
			}
			out.B = b
		case tInt:
			if a.I != 0 && a.I != 1 {
				return Val{}, eValErr("cannot convert int to bool")
			}
			out.B = a.I == 1
		case tFloat:
			if a.F != 0 && a.F != 1 {
				return Val{}, eValErr("cannot convert float to bool")
			}
			out.B = a.F == 1
		}
	case "int":
		lbl += "(" + types[0].String() + ")"
		a := args[0]
		switch a.T {
		case tInt:
			out.I = a.I
		case tFloat:
			i, ok := f2i(a.F)
			if !ok {
				return Val{}, eUnspec("float->int conversion of NaN/out-of-range value")
			}
			out.I = i
		case tString:
			i, err := strconv.ParseInt(a.S, 10, 64)
			if err != nil {
				return Val{}, eValErr("cannot convert string to int")
			}
			out.I = i
		case tBool:
			if a.B {
				out.I = 1
			}
		}
	case "float":
		lbl += "(" + types[0].String() + ")"
		a := args[0]
		switch a.T {
		case tInt:
			out.F = float64(a.I)
		case tFloat:
			out.F = a.F
		case tString:
			f, err := strconv.ParseFloat(a.S, 64)
			if err != nil {
				return Val{}, eValErr("cannot convert string to float")
			}
			out.F = f
		case tBool:
			if a.B {
				out.F = 1
			}
		}
	case "string":
		lbl += "(" + types[0].String() + ")"
		a := args[0]
		switch a.T {
		case tInt:
			out.S = strconv.FormatInt(a.I, 10)
		case tFloat:
			abs := math.Abs(a.F)
			if math.IsNaN(a.F) || math.IsInf(a.F, 0) || (a.F == 0 && math.Signbit(a.F)) || (a.F != 0 && (abs < 1e-4 || abs >= 1e21)) {
				return Val{}, eUnspec("string() of a float outside the plain decimal range")
			}
			out.S = strconv.FormatFloat(a.F, 'f', -1, 64)
		case tBool:
			out.S = strconv.FormatBool(a.B)
		case tDur:
			out.S = fmtDuration(a.I)
		case tString:
			out.S = a.S
		}
	case "duration":
		lbl += "(" + types[0].String() + ")"
		a := args[0]
		switch a.T {
		case tDur:
			out.I = a.I
		case tInt:
			v, ov := mulOv(a.I, args[1].I)
			if ov {
				return Val{}, eUnspec("integer overflow")
			}
			out.I = v
		case tFloat:
			v, ok := f2i(a.F * float64(args[1].I))
			if !ok {
				return Val{}, eUnspec("float->int conversion of NaN/out-of-range value (duration())")
			}
			out.I = v
		case tString:
			v, e := parseDuration(a.S)
			if e != nil {
				return Val{}, e
			}
			out.I = v
		}
	case "humanBytes":
		lbl += "(" + types[0].String() + ")"
		a := args[0]
		if a.T == tInt {
			if a.I < 0 {
				return Val{}, eUnspec("humanBytes of a negative value")
			}
			out.S = humanize.Bytes(uint64(a.I))
		} else {
			if math.IsNaN(a.F) || a.F < 0 || a.F >= 18446744073709551616.0 {
				return Val{}, eUnspec("float->uint conversion of NaN/out-of-range value (humanBytes)")
			}
			out.S = humanize.Bytes(uint64(a.F))
		}
	case "if":
		lbl += "(" + types[1].String() + ")"
		v, other := args[2], t.A[1]
		if args[0].B {
			v, other = args[1], t.A[2]
		}
		if other.hasStateful() {
			// eager (a function: the stateful call in the other branch sees the point) or lazy
			// (it does not): not documented, the state after this step is open
			return Val{}, eUnspec("if(): stateful function in the branch that is not selected")
		}
		v.Approx = out.Approx
		return v, nil
	case "isPresent":
		lbl += "(" + types[0].String() + ")"
		out.B = args[0].T != tMissing
	case "count":
		s := &in.st[in.sites[t]]
		s.N++
		in.snap()
		out.I = s.N
	case "sigma":
		// number of standard deviations the value is away from the running mean; mean and
		// (sample) variance include the value (Welford's recurrence); 0 while undefined
		s := &in.st[in.sites[t]]
		x := args[0].F
		s.N++
		n := float64(s.N)
		delta := x - s.Mean
		s.Mean += delta / n
		s.M2 += delta * (x - s.Mean)
		in.snap()
		out.Approx = true
		if s.N < 2 {
			out.F = 0
			return out, nil
		}
		variance := s.M2 / (n - 1)
		if variance == 0 {
			out.F = 0
			return out, nil
		}
		out.F = math.Abs(x-s.Mean) / math.Sqrt(variance)
	case "spread":
		s := &in.st[in.sites[t]]
		x := args[0].F
		if math.IsNaN(x) {
			return Val{}, eUnspec("spread of NaN")
		}
		s.Min = math.Min(s.Min, x)
		s.Max = math.Max(s.Max, x)
		in.snap()
		out.F = s.Max - s.Min
	default:
		return Val{}, eErr("unknown function")
	}
	return out, nil
}

func (in *interp) snap() {
	in.snaps = append(in.snaps, append([]fstate(nil), in.st...))
}

// ---------------------------------------------------------------- static typing

// staticType derives the type of t for given reference types (no values, both sides of
// AND/OR checked). ok=false: ill-typed or not determined by the documentation.
// alwaysBool: a comparison, a regex match or AND/OR (possibly inside a lambda wrapper) has type
// boolean whatever its operands are.
func alwaysBool(t *Tree) bool {
	switch t.K {
	case "bool":
		return true
	case "lam":
		return alwaysBool(t.A[0])
	case "bin":
		switch t.S {
		case "==", "!=", "<", "<=", ">", ">=", "=~", "!~", "AND", "OR":
			return true
		}
	}
	return false
}

func staticType(t *Tree, env func(string) VT) (VT, bool) {
	switch t.K {
	case "int":
		return tInt, true
	case "float":
		return tFloat, true
	case "str":
		return tString, true
	case "bool":
		return tBool, true
	case "dur":
		return tDur, true
	case "re":
		return tRegex, true
	case "ref":
		vt := env(t.S)
		return vt, vt != tInvalid
	case "lam":
		return staticType(t.A[0], env)
	case "un":
		vt, ok := staticType(t.A[0], env)
		if !ok {
			return tInvalid, false
		}
		if (t.S == "!" && vt == tBool) || (t.S == "-" && oneOf(vt, tInt, tFloat, tDur)) {
			return vt, true
		}
		return tInvalid, false
	case "bin":
		l, ok1 := staticType(t.A[0], env)
		r, ok2 := staticType(t.A[1], env)
		if !ok1 || !ok2 {
			return tInvalid, false
		}
		k := opKey{t.S, l, r}
		rt, ok := opTable[k]
		return rt, ok && !opUnspec[k]
	case "fn":
		ts := make([]VT, 0, len(t.A))
		for _, a := range t.A {
			vt, ok := staticType(a, env)
			if !ok {
				return tInvalid, false
			}
			ts = append(ts, vt)
		}
		rt, sig := fnType(t.S, ts)
		return rt, sig == sigOK
	}
	return tInvalid, false
}

// constType: the type of a sub-expression that is known without a scope (a typed language
// may reject a constant type error at compile time). known=false: depends on the scope.
// bad=true: a sub-expression is ill-typed whatever the scope holds.
func constType(t *Tree) (vt VT, known bool, bad bool) {
	switch t.K {
	case "ref":
		return tInvalid, false, false
	case "lam":
		return constType(t.A[0])
	case "un":
		vt, known, bad := constType(t.A[0])
		if bad {
			return tInvalid, false, true
		}
		if t.S == "!" {
			return tBool, true, known && vt != tBool
		}
		if known && !oneOf(vt, tInt, tFloat, tDur) {
			return tInvalid, false, true
		}
		return vt, known, false
	case "bin":
		l, lk, lb := constType(t.A[0])
		r, rk, rb := constType(t.A[1])
		if lb || rb {
			return tInvalid, false, true
		}
		cmp := !isMathOp(t.S)
		if lk && rk {
			rt, ok := opTable[opKey{t.S, l, r}]
			if !ok {
				return tInvalid, false, true
			}
			return rt, true, false
		}
		if cmp {
			return tBool, true, false
		}
		return tInvalid, false, false
	case "fn":
		for _, a := range t.A {
			if _, _, b := constType(a); b {
				return tInvalid, false, true
			}
		}
		return tInvalid, false, false
	}
	vt, _ = staticType(t, func(string) VT { return tInvalid })
	return vt, true, false
}
