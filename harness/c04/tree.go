// Package c04 checks property C04: a lambda expression evaluated against a point
// yields the value given by TICKscript's typed semantics, independent of what the
// compiled expression saw before.
//
// tree.go: the JSON-serialisable expression tree and scope values of a Case and their
// translation into tick/ast nodes and stateful scopes. Nothing in here decides the property.
package c04

import (
	"fmt"
	"math"
	"regexp"
	"strconv"
	"strings"
	"time"

	"github.com/influxdata/kapacitor/tick/ast"
	"github.com/influxdata/kapacitor/tick/stateful"
)

// Tree is one node of a lambda expression.
//
//	K = int|float|str|bool|dur|re   literal (I, F, S, B, I(ns), S(regex source))
//	K = ref                         reference to the scope name S
//	K = un|bin                      operator S over A
//	K = fn                          call of the built-in function S with arguments A
//	K = lam                         nested lambda (as produced by substituting a lambda variable)
type Tree struct {
	K string  `json:"k"`
	I int64   `json:"i,omitempty"`
	F string  `json:"f,omitempty"` // float literal, strconv 'g' format (keeps -0)
	S string  `json:"s,omitempty"`
	B bool    `json:"b,omitempty"`
	A []*Tree `json:"a,omitempty"`
}

// SV is a value bound to a name in a scope.
// T = int|float|string|bool|dur|time|missing|unset ; dur in ns, time in unix ns.
type SV struct {
	T string `json:"t"`
	I int64  `json:"i,omitempty"`
	F string `json:"f,omitempty"`
	S string `json:"s,omitempty"`
	B bool   `json:"b,omitempty"`
}

func fmtF(f float64) string { return strconv.FormatFloat(f, 'g', -1, 64) }

func parseF(s string) float64 {
	f, err := strconv.ParseFloat(s, 64)
	if err != nil && !math.IsInf(f, 0) {
		panic(fmt.Sprintf("c04: bad float in case: %q", s))
	}
	return f
}

var opTokens = map[string]ast.TokenType{
	"+": ast.TokenPlus, "-": ast.TokenMinus, "*": ast.TokenMult, "/": ast.TokenDiv, "%": ast.TokenMod,
	"AND": ast.TokenAnd, "OR": ast.TokenOr,
	"==": ast.TokenEqual, "!=": ast.TokenNotEqual, "<": ast.TokenLess, ">": ast.TokenGreater,
	"<=": ast.TokenLessEqual, ">=": ast.TokenGreaterEqual, "=~": ast.TokenRegexEqual, "!~": ast.TokenRegexNotEqual,
	"!": ast.TokenNot,
}

// build translates the tree into the AST the parser (plus variable substitution) produces.
func build(t *Tree) (ast.Node, error) {
	switch t.K {
	case "int":
		return &ast.NumberNode{IsInt: true, Int64: t.I, Base: 10}, nil
	case "float":
		return &ast.NumberNode{IsFloat: true, Float64: parseF(t.F)}, nil
	case "str":
		return &ast.StringNode{Literal: t.S}, nil
	case "bool":
		return &ast.BoolNode{Bool: t.B}, nil
	case "dur":
		return &ast.DurationNode{Dur: time.Duration(t.I)}, nil
	case "re":
		re, err := regexp.Compile(t.S)
		if err != nil {
			return nil, err
		}
		return &ast.RegexNode{Regex: re, Literal: t.S}, nil
	case "ref":
		return &ast.ReferenceNode{Reference: t.S}, nil
	case "lam":
		n, err := build(t.A[0])
		if err != nil {
			return nil, err
		}
		return &ast.LambdaNode{Expression: n}, nil
	case "un":
		n, err := build(t.A[0])
		if err != nil {
			return nil, err
		}
		return &ast.UnaryNode{Operator: opTokens[t.S], Node: n}, nil
	case "bin":
		l, err := build(t.A[0])
		if err != nil {
			return nil, err
		}
		r, err := build(t.A[1])
		if err != nil {
			return nil, err
		}
		tok, ok := opTokens[t.S]
		if !ok {
			return nil, fmt.Errorf("unknown operator %q", t.S)
		}
		return &ast.BinaryNode{Operator: tok, Left: l, Right: r}, nil
	case "fn":
		args := make([]ast.Node, 0, len(t.A))
		for _, a := range t.A {
			n, err := build(a)
			if err != nil {
				return nil, err
			}
			args = append(args, n)
		}
		return &ast.FunctionNode{Type: ast.GlobalFunc, Func: t.S, Args: args}, nil
	}
	return nil, fmt.Errorf("unknown tree kind %q", t.K)
}

// String renders the tree as TICKscript-like text (for messages only).
func (t *Tree) String() string {
	switch t.K {
	case "int":
		return strconv.FormatInt(t.I, 10)
	case "float":
		s := t.F
		if !strings.ContainsAny(s, ".eIN") {
			s += ".0"
		}
		return s
	case "str":
		return "'" + t.S + "'"
	case "bool":
		if t.B {
			return "TRUE"
		}
		return "FALSE"
	case "dur":
		return time.Duration(t.I).String()
	case "re":
		return "/" + t.S + "/"
	case "ref":
		return `"` + t.S + `"`
	case "lam":
		return "{lambda: " + t.A[0].String() + "}"
	case "un":
		return t.S + t.A[0].String()
	case "bin":
		return "(" + t.A[0].String() + " " + t.S + " " + t.A[1].String() + ")"
	case "fn":
		var as []string
		for _, a := range t.A {
			as = append(as, a.String())
		}
		return t.S + "(" + strings.Join(as, ", ") + ")"
	}
	return "?" + t.K
}

func (t *Tree) walk(f func(*Tree)) {
	f(t)
	for _, a := range t.A {
		a.walk(f)
	}
}

func (t *Tree) clone() *Tree {
	c := *t
	c.A = nil
	for _, a := range t.A {
		c.A = append(c.A, a.clone())
	}
	return &c
}

var statefulFn = map[string]bool{"count": true, "sigma": true, "spread": true}

func (t *Tree) hasStateful() bool {
	found := false
	t.walk(func(n *Tree) {
		if n.K == "fn" && statefulFn[n.S] {
			found = true
		}
	})
	return found
}

func (t *Tree) hasRef() bool {
	found := false
	t.walk(func(n *Tree) {
		if n.K == "ref" {
			found = true
		}
	})
	return found
}

func (t *Tree) refs() map[string]bool {
	m := map[string]bool{}
	t.walk(func(n *Tree) {
		if n.K == "ref" {
			m[n.S] = true
		}
	})
	return m
}

// goValue is the Go value a node puts into a stateful.Scope for the binding.
func (v SV) goValue() (interface{}, bool) {
	switch v.T {
	case "int":
		return v.I, true
	case "float":
		return parseF(v.F), true
	case "string":
		return v.S, true
	case "bool":
		return v.B, true
	case "dur":
		return time.Duration(v.I), true
	case "time":
		return time.Unix(0, v.I).UTC(), true
	case "missing":
		return ast.MissingValue, true
	}
	return nil, false // unset
}

func mkScope(names []string, bind map[string]SV) *stateful.Scope {
	sc := stateful.NewScope()
	for _, n := range names {
		if gv, ok := bind[n].goValue(); ok {
			sc.Set(n, gv)
		}
	}
	return sc
}

func (v SV) String() string {
	switch v.T {
	case "int":
		return fmt.Sprintf("%di", v.I)
	case "float":
		return v.F + "f"
	case "string":
		return strconv.Quote(v.S)
	case "bool":
		return strconv.FormatBool(v.B)
	case "dur":
		return time.Duration(v.I).String()
	case "time":
		return time.Unix(0, v.I).UTC().Format(time.RFC3339Nano)
	}
	return v.T
}
