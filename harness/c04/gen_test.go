// gen_test.go: rapid generators of typed lambda trees and scope histories.
package c04

import (
	"math"
	"sort"
	"strconv"
	"time"

	"pgregory.net/rapid"
)

// ---------------------------------------------------------------- pools

var intLits = []int64{0, 1, 2, 3, 5, 10, 100, 1000, 1 << 53, 1<<53 + 1, math.MaxInt64, -1, -7, math.MinInt64}
var floatLits = []float64{0, 1, 0.5, 1.5, 2, 3.14, 100, 1e10, 9.223372036854775807e18, 1e308, 5e-324, -1, -0.5, -2.5}
var strLits = []string{"", "a", "abc", "hello world", "1", "0", "1.5", "true", "T", "-7", "1s", "10ms", "2h", "1h30m", "héllo", "日本語", " pad ", "aXbXc", "NaN", "abcabc", "ABC", "x",
	// numerals that are decimal only by convention: leading zeros, base prefixes, digit separators, signs, exponents
	"010", "-0012", "+7", "08", "0x10", "0b11", "0o17", "1_000", "1e3", "1E2", ".5", "5.", "0x1p-2", "Inf", "+Inf", "infinity", " 1", "1 ", "١٢"}
var durLits = []int64{0, 1, 1e3, 1e6, 1e9, 60e9, 3600e9, 24 * 3600e9, 7 * 24 * 3600e9, 90 * 60e9, 1500e6, -1e9, -1e6, 7}
var reLits = []string{"a", "^a", "b+", "^$", ".*", "[0-9]+", "(a)(b)?", "é", "^h.llo", "\\s+", "c$", "X"}

var intVals = []int64{0, 1, -1, 2, 3, 7, 10, 100, -100, 1 << 53, 1<<53 + 1, -(1<<53 + 1), math.MaxInt64, math.MinInt64, math.MaxInt64 - 1, 60}
var floatVals = []float64{0, math.Copysign(0, -1), 1, -1, 0.5, 1.5, 2.5, -2.5, 3, 10, 100, 1e-9, 1e300, -1e300, math.MaxFloat64, math.SmallestNonzeroFloat64,
	math.NaN(), math.Inf(1), math.Inf(-1), 9.223372036854775807e18, -9.223372036854775808e18, 1e19, 9007199254740992, 0.1, 7.25}
var strVals = strLits
var durVals = []int64{0, 1, -1, 1e3, 1e6, 1e9, -1e9, 60e9, 3600e9, 36 * 3600e9, 7 * 24 * 3600e9, 1500e6, math.MaxInt64, math.MinInt64, 3}
var timeVals = []int64{0, 1, -1, 951868799999999999 /* 2000-02-29T23:59:59.999999999Z */, 1e18, 1700000000123456789,
	-8520336000000000000 /* 1700-01-01 */, 9214646400000000000 /* 2262-01-01 */, 1609459200000000000 /* 2021-01-01 */, 86399e9}

var valueKinds = []VT{tInt, tFloat, tString, tBool, tDur, tTime}

// ---------------------------------------------------------------- typed tree generator

type nameInfo struct {
	Name string
	Kind VT
}

type genCtx struct {
	t        *rapid.T
	names    []nameInfo
	maxNames int
	used     []map[string]bool // stateful functions already placed, per lambda body
	noState  int               // > 0: no stateful call here (branch of if(), see assumptions)
	noNested bool              // no stateful call inside nested lambdas (exclusion)
	kinds    []VT              // kinds a new name may take
	timeName string            // name of the (single) time-valued reference ("" = ordinary names)
}

func (g *genCtx) pick(label string, weights ...int) int {
	tot := 0
	for _, w := range weights {
		tot += w
	}
	x := rapid.IntRange(0, tot-1).Draw(g.t, label)
	for i, w := range weights {
		if x < w {
			return i
		}
		x -= w
	}
	return 0
}

func (g *genCtx) kindAllowed(k VT) bool {
	for _, a := range g.kinds {
		if a == k {
			return true
		}
	}
	return false
}

func (g *genCtx) ref(want VT) *Tree {
	var cands []string
	for _, n := range g.names {
		if n.Kind == want {
			cands = append(cands, n.Name)
		}
	}
	if want == tTime && g.timeName != "" && len(cands) > 0 {
		return &Tree{K: "ref", S: cands[0]}
	}
	if len(g.names) < g.maxNames && g.kindAllowed(want) && (len(cands) == 0 || rapid.IntRange(0, 5).Draw(g.t, "newname") == 0) {
		n := nameInfo{Name: "v" + strconv.Itoa(len(g.names)), Kind: want}
		if want == tTime && g.timeName != "" {
			n.Name = g.timeName
		}
		g.names = append(g.names, n)
		return &Tree{K: "ref", S: n.Name}
	}
	if len(cands) == 0 {
		return nil
	}
	return &Tree{K: "ref", S: rapid.SampledFrom(cands).Draw(g.t, "ref")}
}

func (g *genCtx) literal(want VT) *Tree {
	switch want {
	case tInt:
		return &Tree{K: "int", I: rapid.SampledFrom(intLits).Draw(g.t, "ilit")}
	case tFloat:
		return &Tree{K: "float", F: fmtF(rapid.SampledFrom(floatLits).Draw(g.t, "flit"))}
	case tString:
		return &Tree{K: "str", S: rapid.SampledFrom(strLits).Draw(g.t, "slit")}
	case tBool:
		return &Tree{K: "bool", B: rapid.Bool().Draw(g.t, "blit")}
	case tDur:
		return &Tree{K: "dur", I: rapid.SampledFrom(durLits).Draw(g.t, "dlit")}
	case tRegex:
		return &Tree{K: "re", S: rapid.SampledFrom(reLits).Draw(g.t, "rlit")}
	}
	return nil
}

func (g *genCtx) leaf(want VT) *Tree {
	if want == tTime {
		if r := g.ref(tTime); r != nil {
			return r
		}
		return nil
	}
	if want != tRegex && rapid.IntRange(0, 9).Draw(g.t, "leafref") < 6 {
		if r := g.ref(want); r != nil {
			return r
		}
	}
	return g.literal(want)
}

func fn(name string, args ...*Tree) *Tree { return &Tree{K: "fn", S: name, A: args} }
func bin(op string, l, r *Tree) *Tree     { return &Tree{K: "bin", S: op, A: []*Tree{l, r}} }
func un(op string, x *Tree) *Tree         { return &Tree{K: "un", S: op, A: []*Tree{x}} }

func keys[V any](m map[string]V) []string {
	ks := make([]string, 0, len(m))
	for k := range m {
		ks = append(ks, k)
	}
	sort.Strings(ks)
	return ks
}

var math1Names = keys(math1)
var math2Names = keys(math2)
var str2boolNames = keys(str2bool)
var str2intNames = keys(str2int)
var str2strNames = keys(str2str)
var str1strNames = keys(str1str)
var timeFnNames = keys(timeFns)

func (g *genCtx) hasTime() bool {
	for _, n := range g.names {
		if n.Kind == tTime {
			return true
		}
	}
	return len(g.names) < g.maxNames && g.kindAllowed(tTime)
}

func (g *genCtx) canState(name string) bool {
	if g.noState > 0 || g.used[len(g.used)-1][name] {
		return false
	}
	if g.noNested && len(g.used) > 1 {
		return false
	}
	return true
}

func (g *genCtx) numKind() VT {
	if rapid.Bool().Draw(g.t, "numkind") {
		return tFloat
	}
	return tInt
}

func (g *genCtx) ifExpr(want VT, d int) *Tree {
	c := g.expr(tBool, d-1)
	g.noState++
	a, b := g.expr(want, d-1), g.expr(want, d-1)
	g.noState--
	return fn("if", c, a, b)
}

func (g *genCtx) lambda(want VT, d int) *Tree {
	g.used = append(g.used, map[string]bool{})
	x := g.expr(want, d-1)
	g.used = g.used[:len(g.used)-1]
	return &Tree{K: "lam", A: []*Tree{x}}
}

// expr generates an expression that has type want when every name holds its planned kind.
func (g *genCtx) expr(want VT, d int) *Tree {
	if d <= 0 || want == tTime || want == tRegex {
		if want == tTime || want == tRegex {
			if d > 1 && rapid.IntRange(0, 7).Draw(g.t, "ifleaf") == 0 {
				return g.ifExpr(want, d)
			}
		}
		if l := g.leaf(want); l != nil {
			return l
		}
		return g.literal(tInt) // no time value available: deliberately ill-typed leaf
	}
	sub := func(w VT) *Tree { return g.expr(w, d-1) }
	switch want {
	case tInt:
		switch g.pick("int", 3, 1, 5, 1, 2, 2, 2, 2, 1, 1) {
		case 0:
			return g.leaf(tInt)
		case 1:
			return un("-", sub(tInt))
		case 2:
			return bin(rapid.SampledFrom([]string{"+", "-", "*", "/", "%"}).Draw(g.t, "iop"), sub(tInt), sub(tInt))
		case 3:
			return bin("/", sub(tDur), sub(tDur))
		case 4:
			if rapid.IntRange(0, 5).Draw(g.t, "strlen") == 0 {
				return fn("strLength", sub(tString))
			}
			return fn(rapid.SampledFrom(str2intNames).Draw(g.t, "s2i"), sub(tString), sub(tString))
		case 5:
			return fn("int", sub(rapid.SampledFrom([]VT{tInt, tFloat, tString, tBool}).Draw(g.t, "convarg")))
		case 6:
			if g.hasTime() {
				return fn(rapid.SampledFrom(timeFnNames).Draw(g.t, "timefn"), g.expr(tTime, d-1))
			}
			return g.leaf(tInt)
		case 7:
			if g.canState("count") {
				g.used[len(g.used)-1]["count"] = true
				return fn("count")
			}
			return g.leaf(tInt)
		case 8:
			return g.ifExpr(tInt, d)
		default:
			return g.lambda(tInt, d)
		}
	case tFloat:
		switch g.pick("float", 3, 1, 5, 3, 2, 1, 1, 2, 3, 1, 1) {
		case 0:
			return g.leaf(tFloat)
		case 1:
			return un("-", sub(tFloat))
		case 2:
			return bin(rapid.SampledFrom([]string{"+", "-", "*", "/"}).Draw(g.t, "fop"), sub(tFloat), sub(tFloat))
		case 3:
			return fn(rapid.SampledFrom(math1Names).Draw(g.t, "m1"), sub(tFloat))
		case 4:
			return fn(rapid.SampledFrom(math2Names).Draw(g.t, "m2"), sub(tFloat), sub(tFloat))
		case 5:
			return fn("pow10", sub(tInt))
		case 6:
			n := &Tree{K: "int", I: int64(rapid.IntRange(-3, 6).Draw(g.t, "bessel-n"))}
			return fn(rapid.SampledFrom([]string{"jn", "yn"}).Draw(g.t, "bessel"), n, sub(tFloat))
		case 7:
			return fn("float", sub(rapid.SampledFrom([]VT{tInt, tFloat, tString, tBool}).Draw(g.t, "convarg")))
		case 8:
			name := rapid.SampledFrom([]string{"sigma", "spread"}).Draw(g.t, "statefn")
			if g.canState(name) {
				g.used[len(g.used)-1][name] = true
				return fn(name, sub(tFloat))
			}
			return g.leaf(tFloat)
		case 9:
			return g.ifExpr(tFloat, d)
		default:
			return g.lambda(tFloat, d)
		}
	case tString:
		switch g.pick("string", 3, 3, 2, 2, 1, 1, 1, 3, 1, 1, 1) {
		case 0:
			return g.leaf(tString)
		case 1:
			return bin("+", sub(tString), sub(tString))
		case 2:
			return fn(rapid.SampledFrom(str1strNames).Draw(g.t, "s1s"), sub(tString))
		case 3:
			return fn(rapid.SampledFrom(str2strNames).Draw(g.t, "s2s"), sub(tString), sub(tString))
		case 4:
			return fn("strReplace", sub(tString), sub(tString), sub(tString), &Tree{K: "int", I: int64(rapid.IntRange(-1, 3).Draw(g.t, "repl-n"))})
		case 5:
			a := int64(rapid.IntRange(-1, 4).Draw(g.t, "sub-a"))
			b := int64(rapid.IntRange(-1, 6).Draw(g.t, "sub-b"))
			return fn("strSubstring", sub(tString), &Tree{K: "int", I: a}, &Tree{K: "int", I: b})
		case 6:
			return fn("regexReplace", g.expr(tRegex, d-1), sub(tString), sub(tString))
		case 7:
			return fn("string", sub(rapid.SampledFrom([]VT{tInt, tFloat, tBool, tDur, tString}).Draw(g.t, "convarg")))
		case 8:
			return fn("humanBytes", sub(g.numKind()))
		case 9:
			return g.ifExpr(tString, d)
		default:
			return g.lambda(tString, d)
		}
	case tBool:
		switch g.pick("bool", 2, 1, 6, 2, 1, 2, 3, 2, 1, 2, 2, 1, 1) {
		case 0:
			return g.leaf(tBool)
		case 1:
			return un("!", sub(tBool))
		case 2:
			return bin(rapid.SampledFrom(cmpOps).Draw(g.t, "cmp"), sub(g.numKind()), sub(g.numKind()))
		case 3:
			return bin(rapid.SampledFrom(cmpOps).Draw(g.t, "cmp"), sub(tString), sub(tString))
		case 4:
			return bin(rapid.SampledFrom([]string{"==", "!="}).Draw(g.t, "beq"), sub(tBool), sub(tBool))
		case 5:
			return bin(rapid.SampledFrom(cmpOps).Draw(g.t, "cmp"), sub(tDur), sub(tDur))
		case 6:
			return bin(rapid.SampledFrom([]string{"AND", "OR"}).Draw(g.t, "logic"), sub(tBool), sub(tBool))
		case 7:
			return bin(rapid.SampledFrom([]string{"=~", "!~"}).Draw(g.t, "rematch"), sub(tString), g.expr(tRegex, d-1))
		case 8:
			return fn(rapid.SampledFrom(str2boolNames).Draw(g.t, "s2b"), sub(tString), sub(tString))
		case 9:
			return fn("bool", sub(rapid.SampledFrom([]VT{tBool, tString, tInt, tFloat}).Draw(g.t, "convarg")))
		case 10:
			k := rapid.SampledFrom([]VT{tInt, tFloat, tString, tBool}).Draw(g.t, "presentkind")
			if r := g.ref(k); r != nil {
				return fn("isPresent", r)
			}
			return g.leaf(tBool)
		case 11:
			return g.ifExpr(tBool, d)
		default:
			return g.lambda(tBool, d)
		}
	case tDur:
		switch g.pick("dur", 3, 1, 3, 5, 3, 1, 1) {
		case 0:
			return g.leaf(tDur)
		case 1:
			return un("-", sub(tDur))
		case 2:
			return bin(rapid.SampledFrom([]string{"+", "-"}).Draw(g.t, "dop"), sub(tDur), sub(tDur))
		case 3:
			switch rapid.IntRange(0, 5).Draw(g.t, "dscale") {
			case 0:
				return bin("*", sub(tDur), sub(tInt))
			case 1:
				return bin("*", sub(tInt), sub(tDur))
			case 2:
				return bin("*", sub(tDur), sub(tFloat))
			case 3:
				return bin("*", sub(tFloat), sub(tDur))
			case 4:
				return bin("/", sub(tDur), sub(tInt))
			default:
				return bin("/", sub(tDur), sub(tFloat))
			}
		case 4:
			switch rapid.IntRange(0, 3).Draw(g.t, "durconv") {
			case 0:
				return fn("duration", sub(tDur))
			case 1:
				return fn("duration", sub(tInt), sub(tDur))
			case 2:
				return fn("duration", sub(tFloat), sub(tDur))
			default:
				return fn("duration", sub(tString), sub(tDur))
			}
		case 5:
			return g.ifExpr(tDur, d)
		default:
			return g.lambda(tDur, d)
		}
	}
	return g.literal(tInt)
}

// ---------------------------------------------------------------- targeted classes

func (g *genCtx) kindOf(name string) VT {
	for _, n := range g.names {
		if n.Name == name {
			return n.Kind
		}
	}
	return tInvalid
}

// need returns a reference to the name, declaring it with the planned kind first.
func (g *genCtx) need(name string, k VT) *Tree {
	if g.kindOf(name) == tInvalid {
		g.names = append(g.names, nameInfo{name, k})
	}
	return &Tree{K: "ref", S: name}
}

// statefulLambda: a lambda variable of the wanted type whose body holds a stateful call
// (var c = lambda: count() ... used inside another lambda expression).
func (g *genCtx) statefulLambda(want VT) *Tree {
	t := g.t
	cnt := fn("count")
	var body *Tree
	switch want {
	case tInt:
		body = cnt
		if rapid.IntRange(0, 2).Draw(t, "lam-int") == 0 {
			body = bin("*", cnt, &Tree{K: "int", I: 3})
		}
	case tFloat:
		body = fn("float", cnt)
		if k := rapid.IntRange(0, 2).Draw(t, "lam-float"); k > 0 {
			if r := g.ref(tFloat); r != nil {
				body = fn([]string{"", "sigma", "spread"}[k], r)
			}
		}
	case tString:
		body = fn("string", cnt)
	case tBool:
		if rapid.Bool().Draw(t, "lam-bool") {
			body = bin(">", cnt, &Tree{K: "int", I: int64(rapid.IntRange(1, 3).Draw(t, "lam-k"))})
		} else {
			body = bin("==", bin("%", cnt, &Tree{K: "int", I: 2}), &Tree{K: "int", I: 0})
		}
	default:
		body = fn("duration", cnt, &Tree{K: "dur", I: 1e9})
	}
	return &Tree{K: "lam", A: []*Tree{body}}
}

// lambdaHost: a stateless well-typed expression in which one or two sub-expressions, at any
// position (either operand of an operator, any argument index of a call, under a unary operator,
// inside another lambda, the root), are replaced by a lambda variable of the same type that holds
// a stateful call. Positions that are arguments of calls are drawn three times as often.
func (g *genCtx) lambdaHost() *Tree {
	t := g.t
	want := rapid.SampledFrom([]VT{tBool, tInt, tFloat, tString, tDur}).Draw(t, "roottype")
	g.noState++
	host := g.expr(want, rapid.IntRange(1, 4).Draw(t, "depth"))
	g.noState--
	n := 1
	if rapid.IntRange(0, 3).Draw(t, "lam-two") == 0 {
		n = 2
	}
	type hole struct {
		n  *Tree
		vt VT
	}
	for k := 0; k < n; k++ {
		var holes []hole
		var rec func(n, parent *Tree, idx int)
		rec = func(n, parent *Tree, idx int) {
			if n.K == "lam" && n.hasStateful() {
				return // a lambda variable placed before
			}
			inCall := parent != nil && parent.K == "fn"
			if !(inCall && (parent.S == "jn" || parent.S == "yn") && idx == 0) { // the order of jn/yn stays a small literal
				if vt, ok := staticType(n, g.kindOf); ok && oneOf(vt, tInt, tFloat, tString, tBool, tDur) {
					holes = append(holes, hole{n, vt})
					if inCall {
						holes = append(holes, hole{n, vt}, hole{n, vt})
					}
				}
			}
			for i, a := range n.A {
				rec(a, n, i)
			}
		}
		rec(host, nil, 0)
		if len(holes) == 0 {
			break
		}
		h := holes[rapid.IntRange(0, len(holes)-1).Draw(t, "lam-pos")]
		*h.n = *g.statefulLambda(h.vt)
	}
	return host
}

// failing: every stateful call sits where left-to-right evaluation passes it BEFORE an operation
// that fails for some VALUES of a well-typed point: it is the left operand of an operator - any
// cell (operator, left type, right type) of the operator table - whose right operand is a zero-biased
// divisor "r" (integer and duration / and %) or a conversion of the string "s" (int(), float(), bool(),
// duration(, 1s), strSubstring(, 0, 1): fails unless the string parses / is long enough), or an
// earlier argument of a call whose later argument is such a conversion.
func (g *genCtx) failing() (*Tree, map[string][]VT) {
	t := g.t
	forced := map[string][]VT{}
	lit := func(k string, i int64) *Tree { return &Tree{K: k, I: i} }
	cnt := fn("count")
	var left *Tree
	var lt VT
	switch g.pick("fleft", 3, 1, 1, 1, 1, 1, 2, 1, 1) {
	case 0:
		left, lt = cnt, tInt
	case 1:
		left, lt = &Tree{K: "lam", A: []*Tree{cnt}}, tInt
	case 2:
		left, lt = bin("-", cnt, lit("int", 1)), tInt
	case 3:
		left, lt = fn("sigma", g.need("v", tFloat)), tFloat
	case 4:
		left, lt = fn("spread", g.need("v", tFloat)), tFloat
	case 5:
		left, lt = fn("float", cnt), tFloat
	case 6:
		left, lt = fn("duration", cnt, lit("dur", 1e9)), tDur
	case 7:
		left, lt = fn("string", cnt), tString
	default:
		left, lt = bin(">", cnt, lit("int", int64(rapid.IntRange(1, 3).Draw(t, "fk")))), tBool
	}
	conv := func(k VT) *Tree { // a conversion of "s" that yields the kind, or fails
		s := g.need("s", tString)
		switch k {
		case tInt:
			return fn("int", s)
		case tFloat:
			return fn("float", s)
		case tBool:
			return fn("bool", s)
		case tDur:
			return fn("duration", s, lit("dur", 1e9))
		}
		return fn("strSubstring", s, lit("int", 0), lit("int", 1))
	}
	// the cells of the operator table with this left type
	var cells []opKey
	for k := range opTable {
		if k.l == lt && oneOf(k.r, tInt, tFloat, tString, tBool, tDur) && !opUnspec[k] {
			cells = append(cells, k)
		}
	}
	sort.Slice(cells, func(i, j int) bool {
		if cells[i].op != cells[j].op {
			return cells[i].op < cells[j].op
		}
		return cells[i].r < cells[j].r
	})
	var divs []opKey // cells that fail on a zero right operand
	for _, k := range cells {
		if (k.op == "/" || k.op == "%") && oneOf(k.r, tInt, tDur) {
			divs = append(divs, k)
		}
	}
	var core *Tree
	var ct VT
	kind := g.pick("fkind", 2, 3, 1)
	switch {
	case kind == 0 && len(divs) > 0:
		k := divs[rapid.IntRange(0, len(divs)-1).Draw(t, "fdiv")]
		forced["r"] = []VT{k.r}
		core, ct = bin(k.op, left, g.need("r", k.r)), opTable[k]
	case kind == 2 && oneOf(lt, tInt, tFloat, tString): // argument order of a call
		switch lt {
		case tInt:
			core, ct = fn("duration", left, conv(tDur)), tDur
		case tFloat:
			core, ct = fn(rapid.SampledFrom(math2Names).Draw(t, "m2"), left, conv(tFloat)), tFloat
		default:
			core, ct = fn(rapid.SampledFrom(str2boolNames).Draw(t, "s2b"), left, conv(tString)), tBool
		}
	default:
		k := cells[rapid.IntRange(0, len(cells)-1).Draw(t, "fcell")]
		core, ct = bin(k.op, left, conv(k.r)), opTable[k]
	}
	switch rapid.IntRange(0, 3).Draw(t, "fwrap") {
	case 1:
		core = &Tree{K: "lam", A: []*Tree{core}}
	case 2:
		if oneOf(ct, tInt, tFloat, tDur, tBool) {
			core = fn("string", core)
		}
	}
	return core, forced
}

// biasVals: values that make the failing operation of the class fail (zero divisors, strings that do
// not parse) or succeed with small operands, drawn two times out of three.
func biasVals(class, name string, k VT) []SV {
	if class != "stateful-before-failure" {
		return nil
	}
	switch {
	case name == "r" && k == tInt:
		return []SV{{T: "int"}, {T: "int"}, {T: "int", I: 1}, {T: "int", I: 2}, {T: "int", I: 3}, {T: "int", I: -1}}
	case name == "r" && k == tDur:
		return []SV{{T: "dur"}, {T: "dur"}, {T: "dur", I: 1}, {T: "dur", I: 2}, {T: "dur", I: 1e9}}
	case name == "s" && k == tString:
		return []SV{{T: "string", S: "1"}, {T: "string", S: "0"}, {T: "string", S: "2"}, {T: "string", S: "3"}, {T: "string", S: "-7"}, {T: "string", S: "1.5"},
			{T: "string", S: "1s"}, {T: "string", S: "10ms"}, {T: "string", S: "abc"}, {T: "string", S: ""},
			{T: "string", S: "010"}, {T: "string", S: "0x10"}, {T: "string", S: "1_000"}, {T: "string", S: "1e3"}, {T: "string", S: "+7"}, {T: "string", S: "08"}}
	}
	return nil
}

var allOps = []string{"+", "-", "*", "/", "%", "AND", "OR", "==", "!=", "<", "<=", ">", ">=", "=~", "!~"}
var litKinds = []VT{tInt, tFloat, tString, tBool, tDur, tRegex}

// mutate makes the tree ill-typed (most of the time) at one position.
func (g *genCtx) mutate(root *Tree) *Tree {
	var nodes []*Tree
	root.walk(func(n *Tree) { nodes = append(nodes, n) })
	n := nodes[rapid.IntRange(0, len(nodes)-1).Draw(g.t, "mut-pos")]
	kind := rapid.IntRange(0, 6).Draw(g.t, "mut-kind")
	switch {
	case kind == 1 && n.K == "bin":
		n.S = rapid.SampledFrom(allOps).Draw(g.t, "mut-op")
	case kind == 2 && n.K == "fn" && n.S != "count" && n.S != "duration" && len(n.A) > 0:
		if rapid.Bool().Draw(g.t, "mut-drop") {
			n.A = n.A[:len(n.A)-1]
		} else {
			n.A = append(n.A, n.A[len(n.A)-1].clone())
		}
	case kind == 3 && n.K == "fn" && !statefulFn[n.S]:
		n.S = "nosuchfn"
	case kind == 4:
		*n = Tree{K: "ref", S: rapid.SampledFrom([]string{"zz", "gone"}).Draw(g.t, "mut-name")}
	case kind == 5 && n.K == "un":
		if n.S == "!" {
			n.S = "-"
		} else {
			n.S = "!"
		}
	default:
		*n = *g.literal(rapid.SampledFrom(litKinds).Draw(g.t, "mut-lit"))
	}
	return root
}

// fixBessel keeps the order argument of jn/yn small (math.Jn loops n times).
func fixBessel(root *Tree) {
	root.walk(func(n *Tree) {
		if n.K == "fn" && (n.S == "jn" || n.S == "yn") && len(n.A) > 0 {
			a := n.A[0]
			if a.K == "int" {
				a.I %= 50
			} else if a.K != "float" && a.K != "str" && a.K != "bool" && a.K != "dur" && a.K != "re" {
				*a = Tree{K: "int", I: 2}
			}
		}
	})
}

// dedupeStateful keeps at most one call site per stateful function and lambda body
// (mutations may duplicate an argument).
func dedupeStateful(root *Tree) {
	var rec func(t *Tree, used map[string]bool)
	rec = func(t *Tree, used map[string]bool) {
		if t.K == "lam" {
			used = map[string]bool{}
		}
		if t.K == "fn" && statefulFn[t.S] {
			if used[t.S] {
				*t = Tree{K: "float", F: "1"}
				return
			}
			used[t.S] = true
		}
		for _, a := range t.A {
			rec(a, used)
		}
	}
	rec(root, map[string]bool{})
}

// ---------------------------------------------------------------- scope values

func drawValue(t *rapid.T, k VT) SV {
	switch k {
	case tInt:
		return SV{T: "int", I: rapid.SampledFrom(intVals).Draw(t, "ival")}
	case tFloat:
		return SV{T: "float", F: fmtF(rapid.SampledFrom(floatVals).Draw(t, "fval"))}
	case tString:
		return SV{T: "string", S: rapid.SampledFrom(strVals).Draw(t, "sval")}
	case tBool:
		return SV{T: "bool", B: rapid.Bool().Draw(t, "bval")}
	case tDur:
		return SV{T: "dur", I: rapid.SampledFrom(durVals).Draw(t, "dval")}
	case tTime:
		return SV{T: "time", I: rapid.SampledFrom(timeVals).Draw(t, "tval")}
	case tMissing:
		return SV{T: "missing"}
	}
	return SV{T: "unset"}
}

var allKinds = []VT{tInt, tFloat, tString, tBool, tDur, tTime, tMissing, tInvalid}

// altKinds: for each name the other kinds it may take (alone) with the tree still well-typed.
func altKinds(tree *Tree, names []nameInfo, cand []VT) map[string][]VT {
	base := map[string]VT{}
	for _, n := range names {
		base[n.Name] = n.Kind
	}
	out := map[string][]VT{}
	for _, n := range names {
		for _, k := range cand {
			if k == n.Kind {
				continue
			}
			env := func(name string) VT {
				if name == n.Name {
					return k
				}
				return base[name]
			}
			if _, ok := staticType(tree, env); ok {
				out[n.Name] = append(out[n.Name], k)
			}
		}
	}
	return out
}

func wellTyped(tree *Tree, kinds map[string]VT) bool {
	_, ok := staticType(tree, func(n string) VT { return kinds[n] })
	return ok
}

var _ = time.Second
