// C07, unit StopBatch — "the stop itself always completes" for batch tasks: a query node runs a
// ticker goroutine of its own (every / every+align / cron) and a query loop that talks to
// InfluxDB; the stop has to end both, whatever the ticker and the query are doing at that moment
// (a tick pending while a slow query is in flight, a query in flight, the task idle).
//
// Generator: batch task with 1-2 query nodes (every 5-50 ms with or without align, or an
// every-second cron), a fake InfluxDB whose queries take 0-120 ms and return 0-3 rows, a sink that
// is open or briefly blocked, the stop kind (StopTask / DeleteTask / Close) and the moment of the
// stop. Oracle: the stop returns within the hang bound, the task's goroutines are gone afterwards,
// every batch the sink received is one the fake InfluxDB answered.
package c07

import (
	"context"
	"fmt"
	"os"
	"strings"
	"sync"
	"sync/atomic"
	"testing"
	"time"

	"verifharness/kit"

	"github.com/influxdata/flux"
	imodels "github.com/influxdata/influxdb/models"
	"github.com/influxdata/kapacitor"
	"github.com/influxdata/kapacitor/influxdb"
	"pgregory.net/rapid"
)

type BQ struct {
	Sched   string `json:"sched"` // every | align | cron
	EveryMs int    `json:"everyms"`
}

type BatchStopCase struct {
	Queries []BQ   `json:"queries"`
	QueryMs int    `json:"queryms"` // how long the fake InfluxDB takes per query
	Rows    int    `json:"rows"`
	Stop    string `json:"stop"`    // stop | delete | close
	AfterMs int    `json:"afterms"` // the stop is requested this long after the start
	Rounds  int    `json:"rounds"`  // task lifecycles per case (the interesting moments are narrow)
	// GroupBy: a groupBy node (batch edge) sits between the query node and the sink
	GroupBy bool `json:"groupby,omitempty"`
}

const ruleBatchStop = "rapid: batch task with 1-2 query nodes (every 5-50ms, with and without align, or an every-second cron) against a fake InfluxDB that takes 0-120ms per query and returns 0-3 rows; StopTask / DeleteTask / TaskMaster.Close 0-150ms after the start; 3-12 task lifecycles per case; " +
	"oracle: the stop returns within 20 s, no goroutine with kapacitor frames stays behind, every batch at the sink was answered by the fake InfluxDB; non-trivial = a query takes longer than the tick interval of an aligned or cron schedule (a tick is pending while the stop arrives); distinct by case hash"

func genBatchStop(t *rapid.T) BatchStopCase {
	var c BatchStopCase
	for i, n := 0, rapid.IntRange(1, 2).Draw(t, "nq"); i < n; i++ {
		q := BQ{Sched: rapid.SampledFrom([]string{"every", "align", "align", "cron"}).Draw(t, "sched"), EveryMs: rapid.SampledFrom([]int{5, 10, 20, 50}).Draw(t, "every")}
		c.Queries = append(c.Queries, q)
	}
	c.QueryMs = rapid.SampledFrom([]int{0, 0, 5, 30, 60, 120}).Draw(t, "queryms")
	c.Rows = rapid.IntRange(0, 3).Draw(t, "rows")
	c.Stop = rapid.SampledFrom([]string{"stop", "delete", "close"}).Draw(t, "stop")
	c.AfterMs = rapid.SampledFrom([]int{0, 1, 7, 20, 40, 70, 110, 150}).Draw(t, "after")
	c.Rounds = rapid.SampledFrom([]int{3, 6, 12}).Draw(t, "rounds")
	c.GroupBy = rapid.IntRange(0, 3).Draw(t, "groupby") == 0
	if c.GroupBy && os.Getenv("VERIF_C07_NO_EXCLUDE") == "" {
		// known finding batch/lost/groupby: excluded by construction, counted; the witness is replayed
		if batchRec != nil {
			batchRec.Exclude("batch task with a groupBy node on a batch edge (its last batch is never handed on)")
		}
		c.GroupBy = false
	}
	for _, q := range c.Queries {
		if q.Sched == "cron" && c.AfterMs < 150 && rapid.Bool().Draw(t, "cronwait") {
			c.AfterMs = 1100 // let the every-second cron tick at least once
			c.Rounds = 3
		}
	}
	return c
}

func (c BatchStopCase) script() string {
	var s strings.Builder
	for i, q := range c.Queries {
		fmt.Fprintf(&s, "batch|query('SELECT v FROM \"db\".\"rp\".\"m%d\"').period(1s)", i)
		switch q.Sched {
		case "every":
			fmt.Fprintf(&s, ".every(%dms)", q.EveryMs)
		case "align":
			fmt.Fprintf(&s, ".every(%dms).align()", q.EveryMs)
		case "cron":
			s.WriteString(".cron('* * * * * * *')")
		}
		if c.GroupBy {
			s.WriteString("|groupBy('h')")
		}
		fmt.Fprintf(&s, "|log().prefix('B%d')\n", i)
	}
	return s.String()
}

// slowInflux answers every query after a delay with a few rows.
type slowInflux struct {
	delay    time.Duration
	rows     int
	answered int64
	inFlight int64
}

type slowClient struct{ s *slowInflux }

func (s *slowInflux) NewNamedClient(name string) (influxdb.Client, error) { return slowClient{s}, nil }

func (c slowClient) Ping(ctx context.Context) (time.Duration, string, error) { return 0, "", nil }
func (c slowClient) Write(bp influxdb.BatchPoints) error                     { return nil }
func (c slowClient) WriteV2(w influxdb.FluxWrite) error                      { return nil }
func (c slowClient) Query(q influxdb.Query) (*influxdb.Response, error) {
	atomic.AddInt64(&c.s.inFlight, 1)
	defer atomic.AddInt64(&c.s.inFlight, -1)
	if c.s.delay > 0 {
		time.Sleep(c.s.delay)
	}
	row := imodels.Row{Name: "m", Columns: []string{"time", "v"}}
	now := time.Now().UTC()
	for i := 0; i < c.s.rows; i++ {
		row.Values = append(row.Values, []interface{}{now.Add(time.Duration(i) * time.Millisecond).Format(time.RFC3339Nano), float64(i)})
	}
	atomic.AddInt64(&c.s.answered, 1)
	if c.s.rows == 0 {
		return &influxdb.Response{Results: []influxdb.Result{{}}}, nil
	}
	return &influxdb.Response{Results: []influxdb.Result{{Series: []imodels.Row{row}}}}, nil
}
func (c slowClient) QueryFlux(q influxdb.FluxQuery) (flux.ResultIterator, error) {
	return nil, fmt.Errorf("no flux")
}
func (c slowClient) QueryFluxResponse(q influxdb.FluxQuery) (*influxdb.Response, error) {
	return &influxdb.Response{}, nil
}
func (c slowClient) CreateBucketV2(bucket string, org string, orgID string) error { return nil }

var batchMu sync.Mutex
var batchRec *kit.Rec

func runBatchStop(c BatchStopCase, cc *kit.Case) {
	batchMu.Lock()
	defer batchMu.Unlock()
	script := c.script()
	pending := false
	for _, q := range c.Queries {
		cc.Label("sched:" + q.Sched)
		if (q.Sched == "align" && c.QueryMs > q.EveryMs) || (q.Sched == "cron" && c.AfterMs >= 1000) {
			pending = true
		}
	}
	cc.Label("stop:" + c.Stop)
	if c.GroupBy {
		cc.Label("groupBy-node")
	}
	if pending {
		cc.NonTrivial()
		cc.Label("tick-pending-during-query")
	}
	baseG, _ := kapacitorGoroutines()
	for r := 0; r < c.Rounds; r++ {
		inf := &slowInflux{delay: time.Duration(c.QueryMs) * time.Millisecond, rows: c.Rows}
		env, err := kit.NewEnv(kit.EnvOpts{Influx: inf})
		if err != nil {
			cc.Fail("harness/env", "env: %v", err)
			return
		}
		id := "b" + kit.Unique()
		et, err := env.StartTask(id, script, kapacitor.BatchTask, nil)
		if err != nil {
			env.Close()
			cc.Fail("harness/script-rejected", "script rejected: %v\n%s", err, script)
			return
		}
		if err := et.StartBatching(); err != nil {
			env.Close()
			cc.Fail("harness/start-batching", "StartBatching: %v\n%s", err, script)
			return
		}
		time.Sleep(time.Duration(c.AfterMs) * time.Millisecond)
		inFlight := atomic.LoadInt64(&inf.inFlight)
		done := make(chan error, 1)
		go func() {
			switch c.Stop {
			case "stop":
				done <- env.TM.StopTask(id)
			case "delete":
				done <- env.TM.DeleteTask(id)
			default:
				env.TM.Close()
				done <- nil
			}
		}()
		select {
		case <-done:
		case <-time.After(hangBound):
			_, dump := kapacitorGoroutines()
			cc.Fail("stop/hang/batch", "round %d: the stop (%s) of a batch task did not return within %v (%d queries in flight when it was requested)\nscript:\n%s\nblocked goroutines:\n%s", r, c.Stop, hangBound, inFlight, script, firstLines(dump, 120))
			return
		}
		// the task is gone; whatever it still had to do is done when Wait returns
		waited := make(chan struct{})
		go func() { et.Wait(); close(waited) }()
		select {
		case <-waited:
		case <-time.After(hangBound):
			_, dump := kapacitorGoroutines()
			cc.Fail("stop/hang/batch-wait", "round %d: the stopped batch task never finished\nscript:\n%s\n%s", r, script, firstLines(dump, 120))
			return
		}
		nBatches := 0
		for i := range c.Queries {
			nBatches += len(env.Sink.By(fmt.Sprintf("B%d", i)))
		}
		if nBatches > 0 {
			cc.Label("batches-reached-the-sink")
		}
		if inFlight > 0 {
			cc.Label("query-in-flight-at-stop")
		}
		// conservation: the query loop collects the batches of every answered query before it looks
		// at the stop request again; a response with rows is one series = one batch
		if answered := atomic.LoadInt64(&inf.answered); c.Rows > 0 && int64(nBatches) < answered {
			sig := "batch/lost"
			if c.GroupBy {
				sig = "batch/lost/groupby"
			}
			cc.Fail(sig, "round %d: the fake InfluxDB answered %d queries with %d rows each before the task ended, the sinks received %d batches: accepted data was dropped at the stop (%s)\n%s", r, answered, c.Rows, nBatches, c.Stop, script)
			return
		}
		if int64(nBatches) > atomic.LoadInt64(&inf.answered) {
			cc.Fail("batch/invented", "round %d: the sinks received %d batches, the fake InfluxDB answered %d queries\n%s", r, nBatches, inf.answered, script)
			return
		}
		env.Close()
	}
	// goroutine census, with a grace period for goroutines that are on their way out
	deadline := time.Now().Add(hangBound)
	for {
		n, dump := kapacitorGoroutines()
		if n <= baseG {
			break
		}
		if time.Now().After(deadline) {
			cc.Fail("stop/goroutine-leak/batch", "%d goroutines with kapacitor frames are still alive after the stops (baseline %d)\nscript:\n%s\n%s", n, baseG, script, firstLines(dump, 80))
			return
		}
		time.Sleep(5 * time.Millisecond)
	}
}

var assumptionsBatchStop = []string{
	"the query node's tickers run on the system clock: which moment of the ticker / query cycle the stop meets is sampled by the generated delays (query duration vs tick interval, stop delay) and by repetition (3-12 lifecycles per case)",
	"the query loop collects the batches of every answered query before it looks at the stop request again: with rows in the responses, as many batches as answered queries must reach the sinks before the task ends; batches are never invented",
	"known finding batch/lost/groupby: a groupBy node on a batch edge hands the groups of a batch on only when the next batch begins, so the last batch before the stop is dropped; the class is excluded by construction (counted) and covered by the replayed witness",
	"hang bound 20 s for stops that take milliseconds (plus at most one query duration)",
}

func TestStopBatch(t *testing.T) {
	r := kit.NewRec("C07", "StopBatch", ruleBatchStop, assumptionsBatchStop...)
	batchRec = r
	kit.Check(t, r, genBatchStop, runBatchStop)
}

func TestReplayStopBatch(t *testing.T) {
	r := kit.NewRec("C07", "StopBatch", ruleBatchStop, assumptionsBatchStop...)
	kit.Replay(t, r, runBatchStop)
}
