// C07, unit StopUDF — a pipeline with a UDF node between the source and its output. The UDF is
// udf/agent's Agent with a mirroring handler behind kapacitor.UDFSocket (kit.EchoUDFs); the
// transport between the daemon and the UDF buffers a generated number of bytes per direction, as an
// OS pipe or a unix socket does.
//
// Oracle: as in unit Stop - the stop returns, every point that was accepted and routed to the task
// before the stop reaches the log sink below the UDF node, no goroutine is left behind.
//
// Two genuine defects live here (known findings, see known_findings.json): every stop ABORTS the
// UDF (udf.go stopUDF -> Abort: "data in-flight will not be processed"), so whatever is between the
// UDF node's input and its output at that moment is dropped (stop/lost/udf); and when the transport
// is full in both directions at that moment the abort never returns (stop/hang/udf: Server.abort
// waits, holding its lock, for its writer goroutine, which is blocked writing to a UDF that is
// blocked writing responses nobody reads any more). Both need data inside the UDF node at the
// moment of the stop: the generated cases wait until everything written has left the UDF node
// before they request the stop (the class "data inside the UDF node at the stop" is excluded by
// construction and counted; VERIF_C07_NO_EXCLUDE=1 generates it); the witnesses are replayed.
package c07

import (
	"fmt"
	"sort"
	"testing"
	"time"

	"verifharness/kit"

	"github.com/influxdata/kapacitor"
	"pgregory.net/rapid"
)

type UDFCase struct {
	N         int    `json:"n"`
	PipeBytes int    `json:"pipe_bytes"` // capacity of each direction of the transport (0 synchronous, < 0 unbounded)
	Batch     bool   `json:"batch"`      // window().periodCount(5).everyCount(5)@echoB() instead of @echo()
	Stop      string `json:"stop"`       // stop delete close
	Blocked   bool   `json:"blocked"`    // the sink is blocked until the stop has been requested
	DelayUS   int    `json:"delayus"`
	Pad       int    `json:"pad"` // bytes of the string field of every point
	// InFlight: the stop is requested while data is inside the UDF node (known findings)
	InFlight bool `json:"inflight,omitempty"`
}

const ruleUDF = "rapid: stream|from()[|window().periodCount(5).everyCount(5)]@echo()/@echoB()|log() with N in {1,10,300,3000} points of 10-2000 bytes, a UDF (udf/agent Agent, mirroring handler) behind kapacitor.UDFSocket over a transport that buffers 0 / 4 KiB / 64 KiB / unbounded bytes per direction, stop kind (StopTask, DeleteTask, TaskMaster.Close), sink open or blocked until the stop is requested; " +
	"the stop is requested after everything written has left the UDF node (the class 'data inside the UDF node at the stop' is two known findings and excluded by construction); " +
	"oracle: the stop returns, every point routed to the task before the stop reaches the sink, no goroutine stays behind; non-trivial = N >= 300 or the sink was blocked at the stop; distinct by case hash"

func genUDF(r *kit.Rec) func(t *rapid.T) UDFCase {
	return func(t *rapid.T) UDFCase {
		c := UDFCase{N: rapid.SampledFrom([]int{1, 10, 300, 300, 3000}).Draw(t, "n"),
			PipeBytes: rapid.SampledFrom([]int{0, 4096, 65536, -1}).Draw(t, "pipe"),
			Batch:     rapid.IntRange(0, 2).Draw(t, "batch") == 0,
			Stop:      rapid.SampledFrom([]string{"stop", "stop", "delete", "close"}).Draw(t, "stop"),
			Blocked:   rapid.Bool().Draw(t, "blocked"),
			DelayUS:   rapid.SampledFrom([]int{0, 200, 5000}).Draw(t, "delay"),
			Pad:       rapid.SampledFrom([]int{10, 100, 2000}).Draw(t, "pad")}
		c.InFlight = rapid.IntRange(0, 3).Draw(t, "inflight") == 0
		if c.InFlight && !noExclude {
			r.Exclude("data-inside-the-udf-node-at-the-stop")
			c.InFlight = false
		}
		if !c.InFlight && c.Blocked && c.N > 900 {
			// a blocked sink holds at most one edge buffer (1000 messages): with more, data stays
			// inside the UDF node until the sink opens, which is the excluded class
			c.N = 300
		}
		return c
	}
}

func (c UDFCase) script() string {
	if c.Batch {
		return "stream|from()|window().periodCount(5).everyCount(5)@echoB()|log().prefix('S')"
	}
	return "stream|from()@echo()|log().prefix('S')"
}

func runUDF(c UDFCase, cc *kit.Case) {
	baseG, _ := kapacitorGoroutines()
	cc.Label("stop:" + c.Stop)
	cc.Label(fmt.Sprintf("pipe-bytes:%d", c.PipeBytes))
	if c.Batch {
		cc.Label("batch-udf")
	}
	if c.Blocked {
		cc.Label("sink-blocked-at-stop")
	}
	if c.InFlight {
		cc.Label("data-inside-the-udf-node-at-the-stop")
	}
	if c.N >= 300 || c.Blocked {
		cc.NonTrivial()
	}
	udfs := &kit.EchoUDFs{PipeBytes: c.PipeBytes}
	g := newGate(c.Blocked)
	env, err := kit.NewEnv(kit.EnvOpts{Prepare: func(e *kit.Env) { e.TM.UDFService = udfs }})
	if err != nil {
		cc.Fail("harness/env", "env: %v", err)
		return
	}
	skipClose := false
	defer func() {
		g.release()
		if !skipClose {
			env.Close()
		}
	}()
	env.Sink.OnObs = func(prefix string) {
		if prefix == "S" {
			g.wait()
		}
	}
	script := c.script()
	id := "udf" + kit.Unique()
	et, err := env.StartTask(id, script, kapacitor.StreamTask, nil)
	if err != nil {
		cc.Fail("harness/script-rejected", "script rejected: %v\n%s", err, script)
		return
	}
	pad := make([]byte, c.Pad)
	for i := range pad {
		pad[i] = 'x'
	}
	wrote := make(chan error, 1)
	go func() {
		for i := 0; i < c.N; i++ {
			p := kit.Pt{Name: "m", DB: "db", RP: "rp", Tags: map[string]string{"host": "h"}, Fields: map[string]kit.FV{"n": kit.I(int64(i)), "s": kit.S(string(pad))}, Time: 1_500_000_000_000_000_000 + int64(i)*1e9}
			if err := env.TM.WriteKapacitorPoint(p.Msg()); err != nil {
				wrote <- err
				return
			}
		}
		wrote <- nil
	}()
	select {
	case err := <-wrote:
		if err != nil {
			cc.Fail("stop/write-error", "write failed: %v", err)
			return
		}
	case <-time.After(hangBound):
		cc.Label("writer-blocked-by-backpressure")
		g.release()
		<-wrote
		return
	}
	must := c.N
	if c.Stop != "close" {
		forkedNow := func() int {
			st, err := et.ExecutionStats()
			if err != nil {
				return 0
			}
			if v, ok := st.NodeStats["stream0"]["collected"].(int64); ok {
				return int(v)
			}
			return 0
		}
		deadline := time.Now().Add(2 * time.Second)
		for forkedNow() < c.N && time.Now().Before(deadline) {
			time.Sleep(100 * time.Microsecond)
		}
		must = forkedNow()
	}
	if !c.InFlight {
		// everything routed so far leaves the UDF node before the stop is requested: the points
		// have been echoed by the agent and, with a blocked sink, fit into the edge below the node
		// (bounded wait; a case that does not get there is not judged)
		want := int64(must)
		if c.Batch {
			want -= want % 5 // an incomplete count window stays in the window node
		}
		deadline := time.Now().Add(20 * time.Second)
		for udfs.Echoed.Load() < want && time.Now().Before(deadline) {
			time.Sleep(200 * time.Microsecond)
		}
		if udfs.Echoed.Load() < want {
			cc.Label("udf-not-idle-before-stop(not judged)")
			return
		}
		time.Sleep(20 * time.Millisecond)
	}

	if c.InFlight && c.Blocked {
		// let the pipeline run into the blocked sink: the stop is requested once the UDF makes no
		// more progress (bounded; no verdict depends on it)
		last, since := udfs.Echoed.Load(), time.Now()
		for deadline := time.Now().Add(5 * time.Second); time.Now().Before(deadline) && time.Since(since) < 100*time.Millisecond; {
			time.Sleep(time.Millisecond)
			if v := udfs.Echoed.Load(); v != last {
				last, since = v, time.Now()
			}
		}
	}

	done := make(chan error, 1)
	go func() {
		switch c.Stop {
		case "stop":
			done <- env.TM.StopTask(id)
		case "delete":
			done <- env.TM.DeleteTask(id)
		default:
			done <- env.TM.Close()
		}
	}()
	time.Sleep(time.Duration(c.DelayUS) * time.Microsecond)
	g.release()
	select {
	case err := <-done:
		if err != nil {
			// a stopped socket UDF reports "stopping UDF server: node aborted": the stop completed
			cc.Label("stop-returned-an-error")
		}
	case <-time.After(hangBound):
		_, dump := kapacitorGoroutines()
		cc.Fail("stop/hang/udf", "the stop (%s) did not return within %v although the sink is open (transport: %d bytes per direction, %d points of %d bytes)\nscript:\n%s\nblocked goroutines:\n%s", c.Stop, hangBound, c.PipeBytes, c.N, c.Pad, script, firstLines(dump, 120))
		skipClose = true
		return
	}
	got := udfSerials(env.Sink.By("S"))
	if c.Batch {
		must -= must % 5 // an incomplete count window is not emitted
	}
	missing, dup := complete(got, must)
	if len(missing) > 0 {
		cc.Fail("stop/lost/udf", "%d points were accepted and routed to the task before the %s; the log sink below the UDF node received %d points (missing serials %v ...)\nscript:\n%s", must, c.Stop, len(got), missing, script)
		return
	}
	if dup {
		cc.Fail("stop/duplicate/udf", "the sink received a point twice\n%s", script)
		return
	}
	env.Close()
	deadline := time.Now().Add(10 * time.Second)
	var n int
	var dump string
	for {
		n, dump = kapacitorGoroutines()
		if n <= baseG || time.Now().After(deadline) {
			break
		}
		time.Sleep(time.Millisecond)
	}
	if n > baseG {
		cc.Fail("stop/goroutine-leak/udf", "%d goroutines with kapacitor frames are still alive after the stop and Close (baseline %d)\nscript:\n%s\n%s", n, baseG, script, firstLines(dump, 80))
	}
}

// udfSerials: the serial numbers of the points (and of the points of the batches) a sink saw.
func udfSerials(obs []kit.Obs) []int64 {
	var out []int64
	add := func(f map[string]kit.FV) {
		if v, ok := f["n"]; ok {
			out = append(out, v.Go().(int64))
		}
	}
	for _, o := range obs {
		if o.P != nil {
			add(o.P.Fields)
		}
		if o.B != nil {
			for _, p := range o.B.Points {
				add(p.Fields)
			}
		}
	}
	sort.Slice(out, func(i, j int) bool { return out[i] < out[j] })
	return out
}

var assumptionsUDF = []string{
	"the UDF service of the task master is kit.EchoUDFs: kapacitor.NewUDFSocket on an in-process Socket to udf/agent's Agent with a mirroring handler; the transport buffers the generated number of bytes per direction (an OS pipe holds 64 KiB, a unix socket some hundred KiB; 0 = synchronous)",
	"accepted = WriteKapacitorPoint returned; for StopTask/DeleteTask the points that must reach the sink are those routed to the task when the stop was requested (as in unit Stop); below a count window only complete windows",
	"a StopTask that returns the UDF's 'node aborted' error has completed (labelled, not judged)",
	"generated cases request the stop only after the agent has echoed everything routed so far (+20 ms): data inside the UDF node at the stop is dropped by design of stopUDF (Abort) and can wedge the abort - known findings stop/lost/udf and stop/hang/udf, replayed from their witnesses",
}

func TestStopUDF(t *testing.T) {
	r := kit.NewRec("C07", "StopUDF", ruleUDF, assumptionsUDF...)
	kit.Check(t, r, genUDF(r), runUDF)
}

func TestReplayStopUDF(t *testing.T) {
	r := kit.NewRec("C07", "StopUDF", ruleUDF, assumptionsUDF...)
	kit.Replay(t, r, runUDF)
}
