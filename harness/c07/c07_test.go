// C07 — a graceful stop processes everything already accepted, then terminates.
//
// Generator: pipelines ending in output nodes (influxDBOut with buffer/flush settings, alert with a
// topic handler, kapacitorLoopback into a second task, plain sinks), optional pass-through nodes
// and forks, N in {1,10,1001,2500} accepted points, harness-owned gates on every sink (open, or
// blocked until the stop has been requested), the kind of stop (StopTask, DeleteTask,
// TaskMaster.Close) and a failing-node variant.
// Oracle: conservation (every acknowledged point reaches every output) and termination (the
// stop returns within a generous bound once the gates are open; no goroutine is left behind).
package c07

import (
	"context"
	"encoding/json"
	"fmt"
	"os"
	"regexp"
	"runtime"
	"sort"
	"strings"
	"sync"
	"testing"
	"time"

	"verifharness/kit"

	"github.com/influxdata/flux"
	"github.com/influxdata/kapacitor"
	"github.com/influxdata/kapacitor/alert"
	"github.com/influxdata/kapacitor/influxdb"
	"pgregory.net/rapid"
)

type Out struct {
	Kind     string `json:"kind"` // influx alert log loopback logloopback (gated log sink, then loopback)
	Buffer   int    `json:"buffer,omitempty"`
	FlushMS  int    `json:"flushms,omitempty"`
	Blocked  bool   `json:"blocked"` // sink blocked until the stop has been requested
	PassThru int    `json:"passthru"`
}

type Case struct {
	N        int    `json:"n"`
	Outs     []Out  `json:"outs"` // 1-2 outputs forked below the trunk
	Trunk    int    `json:"trunk"` // pass-through nodes between from() and the fork
	Stop     string `json:"stop"`  // stop delete close
	DelayUS  int    `json:"delayus"` // time between requesting the stop and opening the gates
	FailNode bool   `json:"failnode"`
	// Stats: a stats() node hangs on the source node: a second source of the task that runs on a
	// timer of its own and ends only when the task stops it
	Stats bool `json:"stats,omitempty"`
	// Watcher: a goroutine waits in ExecutingTask.Wait() from the start of the task, as
	// services/task_store does for every enabled task (it logs the task's end)
	Watcher bool `json:"watcher,omitempty"`
}

const rule = "rapid: pipelines with 1-2 forked outputs (influxDBOut buffer/flushInterval, alert->topic handler, kapacitorLoopback->second task, log sink) x N in {1,10,1001,2500} x gate state of each sink (open / blocked until the stop is requested) x stop kind (StopTask, DeleteTask, TaskMaster.Close) x failing-node variant x with/without a goroutine that waits in ExecutingTask.Wait() from the start (as the task store does); " +
	"oracle: every acknowledged point reaches every output, the stop returns, no goroutine stays behind; non-trivial = a sink was blocked at the moment of the stop (points buffered inside the task) or N exceeds one edge buffer; distinct by case hash"

// VERIF_C07_NO_EXCLUDE=1 generates the input classes of the known findings again.
var noExclude = os.Getenv("VERIF_C07_NO_EXCLUDE") != ""

func gen(r *kit.Rec) func(t *rapid.T) Case {
	return func(t *rapid.T) Case {
		var c Case
		c.N = rapid.SampledFrom([]int{1, 10, 10, 1001, 2500}).Draw(t, "n")
		c.Trunk = rapid.IntRange(0, 2).Draw(t, "trunk")
		c.Stop = rapid.SampledFrom([]string{"stop", "stop", "delete", "close"}).Draw(t, "stop")
		c.DelayUS = rapid.SampledFrom([]int{0, 200, 5000, 30000}).Draw(t, "delay")
		c.FailNode = rapid.IntRange(0, 7).Draw(t, "failnode") == 0
		c.Stats = rapid.IntRange(0, 3).Draw(t, "stats") == 0
		c.Watcher = rapid.Bool().Draw(t, "watcher")
		no := rapid.IntRange(1, 2).Draw(t, "nouts")
		for i := 0; i < no; i++ {
			o := Out{Kind: rapid.SampledFrom([]string{"influx", "influx", "alert", "alertlog", "log", "loopback", "logloopback"}).Draw(t, "kind"), PassThru: rapid.IntRange(0, 1).Draw(t, "pass")}
			if strings.HasSuffix(o.Kind, "loopback") && c.Stop == "close" {
				// a loopback writes back into the TaskMaster that is being closed: where those points
				// should go is not defined
				o.Kind = "log"
			}
			if strings.HasSuffix(o.Kind, "loopback") && c.N > 1000 && !noExclude {
				// known finding stop/hang/loopback: StopTask holds the TaskMaster lock while the task
				// drains; a loopback node that must write back more points than the ingest queue holds
				// (1000) blocks on that queue, whose reader needs the same lock
				r.Exclude("loopback-with-backlog-over-ingest-queue")
				c.N = 10
			}
			if o.Kind == "influx" {
				o.Buffer = rapid.SampledFrom([]int{0, 1, 10, 1000, 5000}).Draw(t, "buffer")
				o.FlushMS = rapid.SampledFrom([]int{0, 20, 1000}).Draw(t, "flush")
			}
			o.Blocked = rapid.Bool().Draw(t, "blocked")
			c.Outs = append(c.Outs, o)
		}
		return c
	}
}

var passNodes = []string{"|where(lambda: \"n\" >= 0)", "|eval(lambda: \"n\" + 0).as('e').keep()", "|default().field('d', 1)"}

// logPath is where the i-th output's alert log handler writes (set per run).
var logPath = func(i int) string { return "/dev/null" }

func (c Case) script() (main, second string) {
	var s strings.Builder
	s.WriteString("var p = stream|from().measurement('m')")
	for i := 0; i < c.Trunk; i++ {
		s.WriteString(passNodes[i%len(passNodes)])
	}
	if c.FailNode {
		// the id template fails at execution time: the alert node dies on its first point
		s.WriteString("|alert().crit(lambda: TRUE).id('{{ .NoSuchField }}')")
	}
	s.WriteString("\n")
	for i, o := range c.Outs {
		s.WriteString("p")
		for j := 0; j < o.PassThru; j++ {
			s.WriteString(passNodes[(i+j+1)%len(passNodes)])
		}
		switch o.Kind {
		case "influx":
			fmt.Fprintf(&s, "|influxDBOut().database('out%d').retentionPolicy('r')", i)
			if o.Buffer != 0 {
				fmt.Fprintf(&s, ".buffer(%d)", o.Buffer)
			}
			if o.FlushMS != 0 {
				fmt.Fprintf(&s, ".flushInterval(%dms)", o.FlushMS)
			}
		case "alert":
			fmt.Fprintf(&s, "|alert().crit(lambda: TRUE).topic('T%d')", i)
		case "alertlog":
			// a handler of the alert node itself (anonymous topic, closed when the node ends)
			fmt.Fprintf(&s, "|alert().crit(lambda: TRUE).log('%s')", logPath(i))
		case "log":
			fmt.Fprintf(&s, "|log().prefix('S%d')", i)
		case "loopback", "logloopback":
			if o.Kind == "logloopback" {
				fmt.Fprintf(&s, "|log().prefix('G%d')", i)
			}
			fmt.Fprintf(&s, "|kapacitorLoopback().database('db').retentionPolicy('rp2').measurement('lb%d')", i)
			second += fmt.Sprintf("stream|from().measurement('lb%d')|log().prefix('L%d')\n", i, i)
		}
		s.WriteString("\n")
	}
	if c.Stats {
		s.WriteString("p|stats(5ms)|log().prefix('ZS')\n")
	}
	return s.String(), second
}

// ---------------------------------------------------------------- fakes

type gate struct {
	mu   sync.Mutex
	open bool
	ch   chan struct{}
}

func newGate(blocked bool) *gate {
	g := &gate{open: !blocked, ch: make(chan struct{})}
	if !blocked {
		close(g.ch)
	}
	return g
}
func (g *gate) wait() { <-g.ch }
func (g *gate) release() {
	g.mu.Lock()
	if !g.open {
		g.open = true
		close(g.ch)
	}
	g.mu.Unlock()
}

type fakeClient struct {
	mu      sync.Mutex
	serials map[string][]int64 // database -> serials written
	gates   map[string]*gate
	calls   int
}

func (f *fakeClient) Ping(ctx context.Context) (time.Duration, string, error) { return 0, "", nil }
func (f *fakeClient) Write(bp influxdb.BatchPoints) error {
	f.mu.Lock()
	g := f.gates[bp.Database()]
	f.calls++
	f.mu.Unlock()
	if g != nil {
		g.wait()
	}
	f.mu.Lock()
	for _, p := range bp.Points() {
		if n, ok := p.Fields["n"].(int64); ok {
			f.serials[bp.Database()] = append(f.serials[bp.Database()], n)
		}
	}
	f.mu.Unlock()
	return nil
}
func (f *fakeClient) WriteV2(w influxdb.FluxWrite) error                 { return nil }
func (f *fakeClient) Query(q influxdb.Query) (*influxdb.Response, error) { return &influxdb.Response{}, nil }
func (f *fakeClient) QueryFlux(q influxdb.FluxQuery) (flux.ResultIterator, error) {
	return nil, fmt.Errorf("no flux")
}
func (f *fakeClient) QueryFluxResponse(q influxdb.FluxQuery) (*influxdb.Response, error) {
	return &influxdb.Response{}, nil
}
func (f *fakeClient) CreateBucketV2(bucket string, org string, orgID string) error { return nil }

type fakeInflux struct{ c *fakeClient }

func (f fakeInflux) NewNamedClient(name string) (influxdb.Client, error) { return f.c, nil }

type recHandler struct {
	mu      sync.Mutex
	g       *gate
	serials []int64
}

func (h *recHandler) Handle(e alert.Event) {
	h.g.wait()
	h.mu.Lock()
	if n, ok := e.Data.Fields["n"].(int64); ok {
		h.serials = append(h.serials, n)
	}
	h.mu.Unlock()
}
func (h *recHandler) get() []int64 {
	h.mu.Lock()
	defer h.mu.Unlock()
	return append([]int64(nil), h.serials...)
}

// ---------------------------------------------------------------- goroutine census

var kapFrame = regexp.MustCompile(`github\.com/influxdata/kapacitor[^\n]*`)

func kapacitorGoroutines() (n int, dump string) {
	buf := make([]byte, 1<<22)
	buf = buf[:runtime.Stack(buf, true)]
	var keep []string
	for _, g := range strings.Split(string(buf), "\n\n") {
		if strings.Contains(g, "c07.kapacitorGoroutines") || strings.Contains(g, "diagnostic.(*Service)") || strings.Contains(g, "testing.") && !kapFrame.MatchString(g) {
			continue
		}
		if kapFrame.MatchString(g) && !strings.Contains(g, "verifharness/kit.init") {
			keep = append(keep, g)
		}
	}
	return len(keep), strings.Join(keep, "\n\n")
}

const hangBound = 20 * time.Second

func complete(got []int64, n int) (missing []int64, dup bool) {
	seen := map[int64]int{}
	for _, x := range got {
		seen[x]++
		if seen[x] > 1 {
			dup = true
		}
	}
	for i := int64(0); i < int64(n); i++ {
		if seen[i] == 0 {
			missing = append(missing, i)
			if len(missing) > 10 {
				break
			}
		}
	}
	return
}

func run(c Case, cc *kit.Case) {
	baseG, _ := kapacitorGoroutines()
	dir, derr := os.MkdirTemp("", "c07")
	if derr != nil {
		cc.Fail("harness/tmp", "%v", derr)
		return
	}
	defer os.RemoveAll(dir)
	logPath = func(i int) string { return fmt.Sprintf("%s/alert%d.log", dir, i) }
	main, second := c.script()
	blockedAny := false
	for _, o := range c.Outs {
		cc.Label("out:" + o.Kind)
		if o.Blocked {
			blockedAny = true
		}
	}
	cc.Label("stop:" + c.Stop)
	if c.Stats {
		cc.Label("stats-node")
	}
	if c.FailNode {
		cc.Label("failing-node")
	}
	if blockedAny {
		cc.Label("sink-blocked-at-stop")
	}
	if c.N > 1000 {
		cc.Label("backlog>1000")
	}
	if blockedAny || c.N > 1000 {
		cc.NonTrivial()
	}

	cli := &fakeClient{serials: map[string][]int64{}, gates: map[string]*gate{}}
	var gates []*gate
	handlers := map[int]*recHandler{}
	logGates := map[string]*gate{}
	needAlert := c.FailNode
	for i, o := range c.Outs {
		g := newGate(o.Blocked)
		gates = append(gates, g)
		switch o.Kind {
		case "influx":
			cli.gates[fmt.Sprintf("out%d", i)] = g
		case "alert":
			handlers[i] = &recHandler{g: g}
			needAlert = true
		case "alertlog":
			needAlert = true
		case "log":
			logGates[fmt.Sprintf("S%d", i)] = g
		case "loopback":
			logGates[fmt.Sprintf("L%d", i)] = g
		case "logloopback":
			logGates[fmt.Sprintf("G%d", i)] = g
		}
	}
	env, err := kit.NewEnv(kit.EnvOpts{Alerts: needAlert, Influx: fakeInflux{cli}, Prepare: func(e *kit.Env) {
		for i, h := range handlers {
			e.Alert.RegisterAnonHandler(fmt.Sprintf("T%d", i), h)
		}
	}})
	if err != nil {
		cc.Fail("harness/env", "env: %v", err)
		return
	}
	releaseAll := func() {
		for _, g := range gates {
			g.release()
		}
	}
	skipClose := false
	defer func() {
		releaseAll()
		if !skipClose {
			env.Close()
		}
	}()
	env.Sink.OnObs = func(prefix string) {
		if g := logGates[prefix]; g != nil {
			g.wait()
		}
	}
	uniq := kit.Unique()
	dbrps := []kapacitor.DBRP{{Database: "db", RetentionPolicy: "rp"}}
	if second != "" {
		if _, err := env.StartTask("second"+uniq, second, kapacitor.StreamTask, []kapacitor.DBRP{{Database: "db", RetentionPolicy: "rp2"}}); err != nil {
			cc.Fail("harness/script-rejected", "second task rejected: %v\n%s", err, second)
			return
		}
	}
	id := "main" + uniq
	et, err := env.StartTask(id, main, kapacitor.StreamTask, dbrps)
	if err != nil {
		cc.Fail("harness/script-rejected", "script rejected: %v\n%s", err, main)
		return
	}
	if c.Watcher {
		cc.Label("waiter-in-et.Wait-from-the-start")
		go func() { _ = et.Wait() }()
	}

	// accepted points: every write is acknowledged before the stop is requested
	wrote := make(chan error, 1)
	go func() {
		for i := 0; i < c.N; i++ {
			p := kit.Pt{Name: "m", DB: "db", RP: "rp", Tags: map[string]string{"host": "h"}, Fields: map[string]kit.FV{"n": kit.I(int64(i))}, Time: 1_500_000_000_000_000_000 + int64(i)*1e9}
			if err := env.TM.WriteKapacitorPoint(p.Msg()); err != nil {
				wrote <- err
				return
			}
		}
		wrote <- nil
	}()
	select {
	case err := <-wrote:
		if err != nil {
			cc.Fail("stop/write-error", "write failed: %v", err)
			return
		}
	case <-time.After(hangBound):
		// the writer is blocked by back pressure from a blocked sink: not a stop scenario
		cc.Label("writer-blocked-by-backpressure")
		releaseAll()
		<-wrote
		return
	}

	// which of the acknowledged points must be carried through: for a daemon shutdown all of them
	// (Close drains the ingest queue first); for stopping/deleting one task those that had been
	// routed to the task when the stop was requested - a point still in the TaskMaster's ingest
	// queue at that instant may go either way (the property does not order them). Points are
	// routed in order, so these are the serials [0, must).
	must := c.N
	if c.Stop != "close" {
		forkedNow := func() int {
			st, err := et.ExecutionStats()
			if err != nil {
				return 0
			}
			if v, ok := st.NodeStats["stream0"]["collected"].(int64); ok {
				return int(v)
			}
			return 0
		}
		deadline := time.Now().Add(2 * time.Second)
		for forkedNow() < c.N && time.Now().Before(deadline) {
			time.Sleep(100 * time.Microsecond)
		}
		must = forkedNow()
		if must < c.N {
			cc.Label("not-all-routed-before-stop")
		}
	}

	// request the stop, then open the gates
	done := make(chan error, 1)
	go func() {
		switch c.Stop {
		case "stop":
			done <- env.TM.StopTask(id)
		case "delete":
			done <- env.TM.DeleteTask(id)
		default:
			done <- env.TM.Close()
		}
	}()
	time.Sleep(time.Duration(c.DelayUS) * time.Microsecond)
	releaseAll()
	var stopErr error
	select {
	case stopErr = <-done:
	case <-time.After(hangBound):
		_, dump := kapacitorGoroutines()
		sig := "stop/hang"
		for _, o := range c.Outs {
			if strings.HasSuffix(o.Kind, "loopback") {
				sig = "stop/hang/loopback"
			}
		}
		cc.Fail(sig, "the stop (%s) did not return within %v although every sink is open\nscript:\n%s\nblocked goroutines:\n%s", c.Stop, hangBound, main, firstLines(dump, 120))
		// the TaskMaster is wedged: closing it would wedge this process too
		skipClose = true
		return
	}
	if c.FailNode {
		// all that is required: the remaining nodes terminated (the stop returned) and nothing leaked
		cc.Label("stop-returned-after-node-failure")
	} else {
		if stopErr != nil {
			cc.Fail("stop/error", "the stop returned an error: %v\n%s", stopErr, main)
			return
		}
		// conservation
		for i, o := range c.Outs {
			var got func() []int64
			var what string
			eventually := false
			switch o.Kind {
			case "influx":
				db := fmt.Sprintf("out%d", i)
				got = func() []int64 {
					cli.mu.Lock()
					defer cli.mu.Unlock()
					return append([]int64(nil), cli.serials[db]...)
				}
				what = "influxDBOut"
			case "alert":
				h := handlers[i]
				got = h.get
				what = "alert topic handler"
				eventually = true // the topic hands events to its handlers asynchronously
			case "alertlog":
				path := logPath(i)
				got = func() []int64 { return serialsInLog(path) }
				what = "alert log handler"
			case "log":
				p := fmt.Sprintf("S%d", i)
				got = func() []int64 { return serialsOf(env.Sink.By(p)) }
				what = "log sink"
			case "loopback", "logloopback":
				p := fmt.Sprintf("L%d", i)
				got = func() []int64 { return serialsOf(env.Sink.By(p)) }
				what = "second task behind kapacitorLoopback"
				eventually = true
			}
			g := got()
			if eventually {
				deadline := time.Now().Add(hangBound)
				for len(g) < must && time.Now().Before(deadline) {
					time.Sleep(200 * time.Microsecond)
					g = got()
				}
			}
			missing, dup := complete(g, must)
			if len(missing) > 0 {
				sig := "stop/lost/" + o.Kind
				cc.Fail(sig, "%d points were accepted and routed to the task before the %s; output #%d (%s) received %d points (missing serials %v ...)\nscript:\n%s", must, c.Stop, i, what, len(g), missing, main)
				return
			}
			if dup {
				cc.Fail("stop/duplicate/"+o.Kind, "output #%d (%s) received a point twice\n%s", i, what, main)
				return
			}
		}
	}
	// termination: nothing of this case keeps running once everything is closed
	env.Close()
	deadline := time.Now().Add(10 * time.Second)
	var n int
	var dump string
	for {
		n, dump = kapacitorGoroutines()
		if n <= baseG || time.Now().After(deadline) {
			break
		}
		time.Sleep(time.Millisecond)
	}
	if n > baseG {
		cc.Fail("stop/goroutine-leak", "%d goroutines with kapacitor frames are still alive after the stop and Close (baseline %d)\nscript:\n%s\n%s", n, baseG, main, firstLines(dump, 80))
	}
}

// serialsInLog extracts the serial numbers (field n) from the JSON lines of an alert log file.
func serialsInLog(path string) []int64 {
	b, err := os.ReadFile(path)
	if err != nil {
		return nil
	}
	var out []int64
	for _, line := range strings.Split(string(b), "\n") {
		if strings.TrimSpace(line) == "" {
			continue
		}
		var ev struct {
			Data struct {
				Series []struct {
					Columns []string        `json:"columns"`
					Values  [][]interface{} `json:"values"`
				} `json:"series"`
			} `json:"data"`
		}
		dec := json.NewDecoder(strings.NewReader(line))
		dec.UseNumber()
		if dec.Decode(&ev) != nil {
			continue
		}
		for _, sr := range ev.Data.Series {
			for ci, col := range sr.Columns {
				if col != "n" {
					continue
				}
				for _, row := range sr.Values {
					if num, ok := row[ci].(json.Number); ok {
						if n, err := num.Int64(); err == nil {
							out = append(out, n)
						}
					}
				}
			}
		}
	}
	return out
}

func firstLines(s string, n int) string {
	l := strings.Split(s, "\n")
	if len(l) > n {
		l = l[:n]
	}
	return strings.Join(l, "\n")
}

func serialsOf(obs []kit.Obs) []int64 {
	var out []int64
	for _, o := range obs {
		if o.P != nil {
			if v, ok := o.P.Fields["n"]; ok {
				out = append(out, v.Go().(int64))
			}
		}
	}
	sort.Slice(out, func(i, j int) bool { return out[i] < out[j] })
	return out
}

var assumptions = []string{
	"accepted = WriteKapacitorPoint returned nil before the stop was requested; all N writes are acknowledged first (a writer blocked by back pressure of a blocked sink ends the case without a verdict)",
	"TaskMaster.Close must carry through all accepted points; StopTask/DeleteTask those that had been routed to the task (collected counter of its source node) when the stop was requested - points still in the ingest queue at that instant may go either way",
	"sinks are harness fakes: a counting InfluxDB client, an alert.Handler registered on the alert's topic, log() sinks; each is either open or blocked until the stop has been requested (the harness owns sink timing and the moment of the stop, not the Go scheduler)",
	"alert topic handlers and the task behind kapacitorLoopback receive their data asynchronously: they are given up to 20 s after the stop returned",
	"kapacitorLoopback is not combined with TaskMaster.Close (the loopback writes into the TaskMaster that is closing)",
	"a stats() node on the source (one case in four) is a second source of the task that runs on a 5 ms timer of its own: it takes part only in the termination checks (stop returns, goroutine census), its output is not counted",
	"hang bound 20 s for work that takes milliseconds; goroutine census = goroutines with kapacitor frames after Close, compared with the count before the case",
	"fewer than 5000 alert events per case (the topic's per-handler buffer; beyond it events are dropped with a logged error)",
}

func TestStop(t *testing.T) {
	r := kit.NewRec("C07", "Stop", rule, assumptions...)
	kit.Check(t, r, gen(r), run)
}

func TestReplayStop(t *testing.T) {
	r := kit.NewRec("C07", "Stop", rule, assumptions...)
	kit.Replay(t, r, run)
}
