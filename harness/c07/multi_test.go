// C07, unit StopMulti — the stop of pipelines with more than one way in.
//
// Two shapes the unit Stop (one trunk, forked outputs, one ingest path) does not build:
//
//   - union: 2-3 from() branches that select different measurements, optional pass-through nodes
//     and an optional gated log() sink inside a branch, joined by union() in front of the output.
//     The branches are written unevenly (generated count, first timestamp and step per branch,
//     generated write order), so that at the stop one parent of the union is behind the others
//     (or has never delivered anything) and the union node still buffers the points of the parents
//     that are ahead: a graceful stop has to hand them on.
//   - ingest: one branch, the points arrive over two ingest streams of the TaskMaster: the write
//     path (WriteKapacitorPoint, as the HTTP write API and the loopback use) and a second stream
//     collector (TaskMaster.Stream, as the stats service and replays use) that its owner closes before the
//     stop. In the back-pressure class the sink is blocked and the write path carries about as many
//     points as the edges up to the sink hold, so at the stop accepted points wait in both ingest
//     queues outside the task. Outputs: gated log sink, influxDBOut, gated log sink followed by
//     kapacitorLoopback (only with TaskMaster.Close here).
//
// Oracle: as in unit Stop - the stop returns within the hang bound once the gates are open, every
// accepted point reaches the output (for StopTask/DeleteTask: at least as many as had been routed
// to the task when the stop was requested), nothing twice, no goroutine stays behind.
package c07

import (
	"fmt"
	"os"
	"strings"
	"testing"
	"time"

	"verifharness/kit"

	"github.com/influxdata/kapacitor"
	"pgregory.net/rapid"
)

type Branch struct {
	N        int  `json:"n"`      // points written to the measurement of this branch
	StartS   int  `json:"starts"` // timestamp of its first point (seconds after the base)
	StepS    int  `json:"steps"`  // seconds between its points
	PassThru int  `json:"passthru"`
	Gate     bool `json:"gate"` // a log() sink inside the branch, blocked until the stop has been requested
}

type MCase struct {
	Shape    string   `json:"shape"` // union ingest
	Branches []Branch `json:"branches"`
	Order    string   `json:"order"` // seq rr rev: order in which the points of the branches are written
	After    int      `json:"after"` // pass-through nodes between union() and the output
	Out      Out      `json:"out"`   // kinds: log influx alert alertlog logloopback
	Stop     string   `json:"stop"`
	DelayUS  int      `json:"delayus"`
	// Extra: the last Extra points of the write order arrive over a second ingest stream
	// (TaskMaster.Stream) which its owner closes before the stop is requested
	Extra int `json:"extra"`
	// Pressure (ingest shape): the sink is blocked and the write path carries about as many points as
	// the edges up to the sink hold
	Pressure bool `json:"pressure,omitempty"`
}

const ruleMulti = "rapid: (a) 2-3 from() branches on different measurements (count in {0,1,5,10,300,1500}, first timestamp, step, pass-through nodes, optional gated log sink per branch), written in a generated order, joined by union() in front of one output (log sink, influxDBOut, alert topic handler, alert log handler); (b) one branch fed over the write path and a second TaskMaster.Stream collector, with a back-pressure class (sink blocked, write path filled to about the capacity of the edges up to the sink, up to 1000 more points over the second stream), outputs log sink / influxDBOut / gated log sink + kapacitorLoopback (Close only); x stop kind x delay between the stop request and opening the gates; " +
	"oracle: the stop returns, every accepted point reaches the output, nothing twice, no goroutine stays behind; non-trivial = a parent of the union lags behind another at the stop (points buffered in the union node), or a sink is blocked at the stop, or more than one edge buffer of points; distinct by case hash"

// edgeBuffer is the size of a kapacitor edge (kapacitor.defaultEdgeBufferSize); the generator uses it
// only to size the back-pressure class, no assertion depends on it.
const edgeBuffer = 1000

func genMulti(t *rapid.T) MCase {
	var c MCase
	c.Shape = rapid.SampledFrom([]string{"union", "union", "ingest"}).Draw(t, "shape")
	c.Stop = rapid.SampledFrom([]string{"stop", "delete", "close", "close"}).Draw(t, "stop")
	c.DelayUS = rapid.SampledFrom([]int{0, 200, 5000, 30000}).Draw(t, "delay")
	if c.Shape == "union" {
		nb := rapid.IntRange(2, 3).Draw(t, "nbranches")
		total := 0
		for i := 0; i < nb; i++ {
			b := Branch{
				N:        rapid.SampledFrom([]int{0, 1, 5, 10, 10, 300, 1500}).Draw(t, "bn"),
				StartS:   rapid.IntRange(0, 20).Draw(t, "bstart"),
				StepS:    rapid.IntRange(1, 3).Draw(t, "bstep"),
				PassThru: rapid.IntRange(0, 1).Draw(t, "bpass"),
				Gate:     rapid.IntRange(0, 3).Draw(t, "bgate") == 0,
			}
			total += b.N
			c.Branches = append(c.Branches, b)
		}
		c.Order = rapid.SampledFrom([]string{"seq", "rr", "rev"}).Draw(t, "order")
		c.After = rapid.IntRange(0, 1).Draw(t, "after")
		c.Out = Out{Kind: rapid.SampledFrom([]string{"log", "log", "influx", "alert", "alertlog"}).Draw(t, "kind")}
		c.Out.Blocked = rapid.Bool().Draw(t, "blocked")
		c.Extra = rapid.SampledFrom([]int{0, 0, 0, 7, 400}).Draw(t, "extra")
		if c.Extra > total {
			c.Extra = total
		}
	} else {
		b := Branch{StepS: 1, PassThru: rapid.IntRange(0, 1).Draw(t, "bpass")}
		c.Order = "seq"
		c.Out = Out{Kind: rapid.SampledFrom([]string{"log", "influx", "logloopback", "logloopback"}).Draw(t, "kind")}
		if c.Out.Kind == "logloopback" && c.Stop != "close" {
			// kapacitorLoopback under StopTask/DeleteTask belongs to unit Stop (and to its known finding
			// stop/hang/loopback); here the loopback meets the shutdown of the daemon only
			c.Out.Kind = "log"
		}
		c.Pressure = rapid.Bool().Draw(t, "pressure")
		if c.Pressure {
			c.Out.Blocked = true
			// edges in front of a blocked sink: the write path's ingest queue, the task's fork edge,
			// stream->from, from->(pass-through->)sink
			edges := 4 + b.PassThru
			b.N = edges*edgeBuffer - rapid.SampledFrom([]int{100, 100, 700}).Draw(t, "slack")
			c.Extra = rapid.SampledFrom([]int{1000, 1000, 300}).Draw(t, "extra")
		} else {
			b.N = rapid.SampledFrom([]int{1, 10, 1001, 2500}).Draw(t, "bn")
			c.Out.Blocked = rapid.Bool().Draw(t, "blocked")
			c.Extra = rapid.SampledFrom([]int{0, 1, 10, 1000}).Draw(t, "extra")
		}
		// the Extra points are counted on top of the write path's
		b.N += c.Extra
		c.Branches = []Branch{b}
	}
	if c.Out.Kind == "influx" {
		c.Out.Buffer = rapid.SampledFrom([]int{0, 1, 10, 1000, 5000}).Draw(t, "buffer")
		c.Out.FlushMS = rapid.SampledFrom([]int{0, 20, 1000}).Draw(t, "flush")
	}
	return c
}

func (c MCase) script(alertLog string) (main, second string) {
	var s strings.Builder
	for i, b := range c.Branches {
		fmt.Fprintf(&s, "var b%d = stream|from().measurement('m%d')", i, i)
		for j := 0; j < b.PassThru; j++ {
			s.WriteString(passNodes[(i+j)%len(passNodes)])
		}
		if b.Gate {
			fmt.Fprintf(&s, "|log().prefix('B%d')", i)
		}
		s.WriteString("\n")
	}
	s.WriteString("b0")
	if len(c.Branches) > 1 {
		s.WriteString("|union(")
		for i := 1; i < len(c.Branches); i++ {
			if i > 1 {
				s.WriteString(", ")
			}
			fmt.Fprintf(&s, "b%d", i)
		}
		s.WriteString(")")
	}
	for j := 0; j < c.After; j++ {
		s.WriteString(passNodes[(j+2)%len(passNodes)])
	}
	switch c.Out.Kind {
	case "influx":
		s.WriteString("|influxDBOut().database('out0').retentionPolicy('r')")
		if c.Out.Buffer != 0 {
			fmt.Fprintf(&s, ".buffer(%d)", c.Out.Buffer)
		}
		if c.Out.FlushMS != 0 {
			fmt.Fprintf(&s, ".flushInterval(%dms)", c.Out.FlushMS)
		}
	case "alert":
		s.WriteString("|alert().crit(lambda: TRUE).topic('T0')")
	case "alertlog":
		fmt.Fprintf(&s, "|alert().crit(lambda: TRUE).log('%s')", alertLog)
	case "log":
		s.WriteString("|log().prefix('S0')")
	case "logloopback":
		s.WriteString("|log().prefix('G0')|kapacitorLoopback().database('db').retentionPolicy('rp2').measurement('lb0')")
		second = "stream|from().measurement('lb0')|log().prefix('L0')\n"
	}
	s.WriteString("\n")
	return s.String(), second
}

type mpoint struct {
	branch int
	serial int64
	time   int64
}

// points lists the accepted points in write order; the serial is the position in that order.
func (c MCase) points() []mpoint {
	const base = int64(1_500_000_000)
	at := func(b, k int) int64 {
		return (base + int64(c.Branches[b].StartS) + int64(k)*int64(c.Branches[b].StepS)) * 1e9
	}
	var out []mpoint
	add := func(b, k int) { out = append(out, mpoint{branch: b, serial: int64(len(out)), time: at(b, k)}) }
	switch c.Order {
	case "rr":
		for k := 0; ; k++ {
			any := false
			for b := range c.Branches {
				if k < c.Branches[b].N {
					add(b, k)
					any = true
				}
			}
			if !any {
				break
			}
		}
	case "rev":
		for b := len(c.Branches) - 1; b >= 0; b-- {
			for k := 0; k < c.Branches[b].N; k++ {
				add(b, k)
			}
		}
	default:
		for b := range c.Branches {
			for k := 0; k < c.Branches[b].N; k++ {
				add(b, k)
			}
		}
	}
	return out
}

// lagging reports whether, once everything written has been delivered, some parent of the union is
// behind another one (its newest point is older, or it has none): the union node then still
// holds points when the stop arrives.
func (c MCase) lagging() (lag, silent bool) {
	if len(c.Branches) < 2 {
		return false, false
	}
	var lasts []int
	nonEmpty := 0
	for _, b := range c.Branches {
		if b.N == 0 {
			silent = true
			continue
		}
		nonEmpty++
		lasts = append(lasts, b.StartS+(b.N-1)*b.StepS)
	}
	for _, l := range lasts {
		if l != lasts[0] {
			lag = true
		}
	}
	if silent && nonEmpty > 0 {
		lag = true
	}
	return lag, silent
}

func runMulti(c MCase, cc *kit.Case) {
	baseG, _ := kapacitorGoroutines()
	dir, derr := os.MkdirTemp("", "c07m")
	if derr != nil {
		cc.Fail("harness/tmp", "%v", derr)
		return
	}
	defer os.RemoveAll(dir)
	alertLog := dir + "/alert0.log"
	main, second := c.script(alertLog)
	pts := c.points()
	total := len(pts)
	if c.Extra > total {
		c.Extra = total
	}
	viaWrite := total - c.Extra

	cc.Label("shape:" + c.Shape)
	cc.Label("out:" + c.Out.Kind)
	cc.Label("stop:" + c.Stop)
	lag, silent := c.lagging()
	if len(c.Branches) > 1 {
		cc.Label(fmt.Sprintf("union-of-%d", len(c.Branches)))
	}
	if lag {
		cc.Label("union-parent-lags-at-stop")
	}
	if silent {
		cc.Label("union-parent-without-data")
	}
	blockedAny := c.Out.Blocked
	for _, b := range c.Branches {
		if b.Gate {
			blockedAny = true
			cc.Label("branch-gate-blocked-at-stop")
		}
	}
	if c.Out.Blocked {
		cc.Label("sink-blocked-at-stop")
	}
	if c.Extra > 0 {
		cc.Label("second-ingest-stream")
	}
	if c.Pressure {
		cc.Label("backpressure:ingest-queues-loaded-at-stop")
	}
	if c.Out.Kind == "logloopback" {
		cc.Label("loopback-at-close")
	}
	if total > edgeBuffer {
		cc.Label("backlog>1000")
	}
	if lag || blockedAny || total > edgeBuffer {
		cc.NonTrivial()
	}

	cli := &fakeClient{serials: map[string][]int64{}, gates: map[string]*gate{}}
	outGate := newGate(c.Out.Blocked)
	gates := []*gate{outGate}
	logGates := map[string]*gate{}
	var handler *recHandler
	needAlert := false
	switch c.Out.Kind {
	case "influx":
		cli.gates["out0"] = outGate
	case "alert":
		handler = &recHandler{g: outGate}
		needAlert = true
	case "alertlog":
		needAlert = true
	case "log":
		logGates["S0"] = outGate
	case "logloopback":
		logGates["G0"] = outGate
	}
	for i, b := range c.Branches {
		if b.Gate {
			g := newGate(true)
			gates = append(gates, g)
			logGates[fmt.Sprintf("B%d", i)] = g
		}
	}
	env, err := kit.NewEnv(kit.EnvOpts{Alerts: needAlert, Influx: fakeInflux{cli}, Prepare: func(e *kit.Env) {
		if handler != nil {
			e.Alert.RegisterAnonHandler("T0", handler)
		}
	}})
	if err != nil {
		cc.Fail("harness/env", "env: %v", err)
		return
	}
	releaseAll := func() {
		for _, g := range gates {
			g.release()
		}
	}
	skipClose := false
	defer func() {
		releaseAll()
		if !skipClose {
			env.Close()
		}
	}()
	env.Sink.OnObs = func(prefix string) {
		if g := logGates[prefix]; g != nil {
			g.wait()
		}
	}
	uniq := kit.Unique()
	if second != "" {
		if _, err := env.StartTask("msecond"+uniq, second, kapacitor.StreamTask, []kapacitor.DBRP{{Database: "db", RetentionPolicy: "rp2"}}); err != nil {
			cc.Fail("harness/script-rejected", "second task rejected: %v\n%s", err, second)
			return
		}
	}
	id := "multi" + uniq
	et, err := env.StartTask(id, main, kapacitor.StreamTask, []kapacitor.DBRP{{Database: "db", RetentionPolicy: "rp"}})
	if err != nil {
		cc.Fail("harness/script-rejected", "script rejected: %v\n%s", err, main)
		return
	}
	// the second ingest stream exists from the start, as the one of the stats service does
	var extra kapacitor.StreamCollector
	if c.Extra > 0 {
		extra, err = env.TM.Stream("extra" + uniq)
		if err != nil {
			cc.Fail("harness/env", "TaskMaster.Stream: %v", err)
			return
		}
	}

	// accepted points: every write is acknowledged, and the second stream closed by its owner,
	// before the stop is requested
	wrote := make(chan error, 1)
	go func() {
		for i, mp := range pts {
			p := kit.Pt{Name: fmt.Sprintf("m%d", mp.branch), DB: "db", RP: "rp", Tags: map[string]string{"host": "h"}, Fields: map[string]kit.FV{"n": kit.I(mp.serial)}, Time: mp.time}
			var err error
			if i < viaWrite {
				err = env.TM.WriteKapacitorPoint(p.Msg())
			} else {
				err = extra.CollectPoint(p.Msg())
			}
			if err != nil {
				wrote <- err
				return
			}
		}
		if extra != nil {
			wrote <- extra.Close()
			return
		}
		wrote <- nil
	}()
	select {
	case err := <-wrote:
		if err != nil {
			cc.Fail("stop/write-error", "write failed: %v", err)
			return
		}
	case <-time.After(hangBound):
		// the writer is blocked by back pressure from a blocked sink: not a stop scenario
		cc.Label("writer-blocked-by-backpressure")
		releaseAll()
		<-wrote
		return
	}

	// what must be carried through: for a daemon shutdown everything accepted (Close drains the
	// ingest streams first); for stopping/deleting one task at least as many points as had been
	// routed to the task when the stop was requested (two ingest streams are not ordered among each
	// other, so only the number is known, unless everything had been routed)
	must := total
	if c.Stop != "close" {
		forkedNow := func() int {
			st, err := et.ExecutionStats()
			if err != nil {
				return 0
			}
			if v, ok := st.NodeStats["stream0"]["collected"].(int64); ok {
				return int(v)
			}
			return 0
		}
		// wait until the routing has come to rest (all routed, or back pressure holds the rest in the
		// ingest queues); this only chooses the moment of the stop
		deadline := time.Now().Add(2 * time.Second)
		last, lastChange := -1, time.Now()
		for time.Now().Before(deadline) {
			f := forkedNow()
			if f >= total {
				break
			}
			if f != last {
				last, lastChange = f, time.Now()
			} else if time.Since(lastChange) > 50*time.Millisecond {
				break
			}
			time.Sleep(200 * time.Microsecond)
		}
		must = forkedNow()
		if must < total {
			cc.Label("not-all-routed-before-stop")
		}
	}

	done := make(chan error, 1)
	go func() {
		switch c.Stop {
		case "stop":
			done <- env.TM.StopTask(id)
		case "delete":
			done <- env.TM.DeleteTask(id)
		default:
			done <- env.TM.Close()
		}
	}()
	time.Sleep(time.Duration(c.DelayUS) * time.Microsecond)
	releaseAll()
	var stopErr error
	select {
	case stopErr = <-done:
	case <-time.After(hangBound):
		_, dump := kapacitorGoroutines()
		sig := "stop/hang/multi"
		if c.Stop == "close" {
			sig = "stop/hang/close"
		}
		cc.Fail(sig, "the stop (%s) did not return within %v although every sink is open (%d points over the write path, %d over a second ingest stream that was closed before the stop)\nscript:\n%s\nblocked goroutines:\n%s", c.Stop, hangBound, viaWrite, c.Extra, main, firstLines(dump, 120))
		skipClose = true
		return
	}
	if stopErr != nil {
		cc.Fail("stop/error", "the stop returned an error: %v\n%s", stopErr, main)
		return
	}

	// conservation at the output
	var got func() []int64
	var what string
	eventually := false
	switch c.Out.Kind {
	case "influx":
		got = func() []int64 {
			cli.mu.Lock()
			defer cli.mu.Unlock()
			return append([]int64(nil), cli.serials["out0"]...)
		}
		what = "influxDBOut"
	case "alert":
		got = handler.get
		what = "alert topic handler"
		eventually = true // the topic hands events to its handlers asynchronously
	case "alertlog":
		got = func() []int64 { return serialsInLog(alertLog) }
		what = "alert log handler"
	case "log":
		got = func() []int64 { return serialsOf(env.Sink.By("S0")) }
		what = "log sink"
	case "logloopback":
		// the sink in front of the loopback node; what the loopback writes into the closing
		// TaskMaster is not defined and not counted
		got = func() []int64 { return serialsOf(env.Sink.By("G0")) }
		what = "log sink in front of kapacitorLoopback"
	}
	check := func(g []int64, where, what string, want []mpoint, mustN int) bool {
		seen := map[int64]int{}
		for _, x := range g {
			seen[x]++
			if seen[x] > 1 {
				cc.Fail("stop/duplicate/"+where, "%s received the point with serial %d twice\n%s", what, x, main)
				return false
			}
		}
		if mustN >= len(want) {
			var missing []string
			for _, mp := range want {
				if seen[mp.serial] == 0 {
					missing = append(missing, fmt.Sprintf("#%d(m%d t=+%ds)", mp.serial, mp.branch, mp.time/1e9-1_500_000_000))
					if len(missing) > 10 {
						break
					}
				}
			}
			if len(missing) > 0 {
				cc.Fail("stop/lost/"+where, "%d points were accepted (and routed to the task) before the %s; %s received %d of them (missing %v ...)\nbranches: %+v order %s, %d over the second ingest stream\nscript:\n%s", len(want), c.Stop, what, len(seen), missing, c.Branches, c.Order, c.Extra, main)
				return false
			}
		} else if len(seen) < mustN {
			cc.Fail("stop/lost/"+where, "%d of %d accepted points had been routed to the task when the %s was requested; %s received only %d points\nbranches: %+v order %s, %d over the second ingest stream\nscript:\n%s", mustN, len(want), c.Stop, what, len(seen), c.Branches, c.Order, c.Extra, main)
			return false
		}
		return true
	}
	g := got()
	if eventually {
		deadline := time.Now().Add(hangBound)
		for len(g) < must && time.Now().Before(deadline) {
			time.Sleep(200 * time.Microsecond)
			g = got()
		}
	}
	where := c.Out.Kind
	if len(c.Branches) > 1 {
		where = "union-" + c.Out.Kind
	}
	if !check(g, where, fmt.Sprintf("the output (%s)", what), pts, must) {
		return
	}
	// the log sinks inside the branches have seen everything of their branch (when all of it is known to
	// have been routed)
	if must >= total {
		for i, b := range c.Branches {
			if !b.Gate {
				continue
			}
			var want []mpoint
			for _, mp := range pts {
				if mp.branch == i {
					want = append(want, mp)
				}
			}
			if !check(serialsOf(env.Sink.By(fmt.Sprintf("B%d", i))), "branch-log", fmt.Sprintf("the log sink inside branch %d", i), want, len(want)) {
				return
			}
		}
	}

	// termination: nothing of this case keeps running once everything is closed
	env.Close()
	deadline := time.Now().Add(10 * time.Second)
	var n int
	var dump string
	for {
		n, dump = kapacitorGoroutines()
		if n <= baseG || time.Now().After(deadline) {
			break
		}
		time.Sleep(time.Millisecond)
	}
	if n > baseG {
		cc.Fail("stop/goroutine-leak", "%d goroutines with kapacitor frames are still alive after the stop and Close (baseline %d)\nscript:\n%s\n%s", n, baseG, main, firstLines(dump, 80))
	}
}

var assumptionsMulti = []string{
	"accepted = WriteKapacitorPoint / StreamCollector.CollectPoint returned nil before the stop was requested; all writes are acknowledged first (a writer blocked by back pressure of a blocked sink ends the case without a verdict)",
	"the owner of the second ingest stream (TaskMaster.Stream) closes it before the stop is requested, as the stats service and the replay service do with theirs (TaskMaster.Drain waits for the forwarding goroutine of every stream, which ends when the stream is closed)",
	"TaskMaster.Close must carry through all accepted points (it drains every ingest stream first); StopTask/DeleteTask at least as many points as the task's source node had collected when the stop was requested (points still in an ingest queue at that instant may go either way; with two ingest streams only their number is known), and all of them when all had been collected",
	"union() forwards every point of every parent (pipeline/union.go: 'Takes the union of all of its parents. The union is just a simple pass through.'); the order in which it emits is not asserted; the timestamps within one branch increase in write order",
	"kapacitorLoopback is combined only with TaskMaster.Close in this unit; what the loopback writes into the closing TaskMaster is not defined and not counted: the gated log sink in front of it is the output that is counted, and Close has to return",
	"sinks are harness fakes as in unit Stop, each open or blocked until the stop has been requested; alert topic handlers get up to 20 s after the stop returned; fewer than 5000 alert events per case",
	"edge buffer size 1000 (kapacitor.defaultEdgeBufferSize) is used only to size the back-pressure class of the generator",
	"hang bound 20 s for work that takes milliseconds; goroutine census as in unit Stop",
}

func TestStopMulti(t *testing.T) {
	r := kit.NewRec("C07", "StopMulti", ruleMulti, assumptionsMulti...)
	kit.Check(t, r, genMulti, runMulti)
}

func TestReplayStopMulti(t *testing.T) {
	r := kit.NewRec("C07", "StopMulti", ruleMulti, assumptionsMulti...)
	kit.Replay(t, r, runMulti)
}
