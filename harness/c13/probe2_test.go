package c13

import (
	"encoding/json"
	"fmt"
	"github.com/influxdata/kapacitor/tick/ast"
	"os"
	"testing"
)

// TestProbeTick prints the script pipeline/tick renders for C13_PROBE.
func TestProbeTick(t *testing.T) {
	f := os.Getenv("C13_PROBE")
	if f == "" {
		t.Skip()
	}
	b, _ := os.ReadFile(f)
	p, err := create(string(b), os.Getenv("C13_EDGE"), nil)
	if err != nil {
		t.Fatal(err)
	}
	s2, err := buildTick(p)
	fmt.Printf("err=%v\n%s\n", err, s2)
	fp := fingerprint(p)
	p2, err := create(s2, os.Getenv("C13_EDGE"), nil)
	fmt.Println("create rendered:", err)
	if p2 != nil {
		f2 := fingerprint(p2)
		fmt.Println("same canon:", fp.Canon == f2.Canon)
		if fp.Canon != f2.Canon {
			fmt.Println(canonDiff(fp.Canon, f2.Canon))
			fmt.Println("A:\n" + fp.Canon + "\nB:\n" + f2.Canon)
		}
	}
}

// TestProbeProgramJSON: is a program AST readable from its own JSON?
func TestProbeProgramJSON(t *testing.T) {
	if os.Getenv("C13_PROBE_PJ") == "" {
		t.Skip()
	}
	for _, s := range []string{"var x = 5", "var l = lambda: \"a\" > 1", "stream|from()", "stream\n|from().measurement('m')", "var t string", "dbrp \"a\".\"b\"", "// c\nvar x = 1"} {
		root, err := ast.Parse(s)
		if err != nil {
			t.Fatal(err)
		}
		b, err := json.Marshal(root)
		if err != nil {
			fmt.Printf("%q: marshal error %v\n", s, err)
			continue
		}
		var p ast.ProgramNode
		err = json.Unmarshal(b, &p)
		fmt.Printf("%q: unmarshal err=%v equal=%v\n", s, err, err == nil && p.Equal(root))
	}
}
