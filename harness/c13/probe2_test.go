package c13

import (
	"fmt"
	"os"
	"testing"
)

// TestProbeTick prints the script pipeline/tick renders for C13_PROBE.
func TestProbeTick(t *testing.T) {
	f := os.Getenv("C13_PROBE")
	if f == "" {
		t.Skip()
	}
	b, _ := os.ReadFile(f)
	p, err := create(string(b), os.Getenv("C13_EDGE"), nil)
	if err != nil {
		t.Fatal(err)
	}
	s2, err := buildTick(p)
	fmt.Printf("err=%v\n%s\n", err, s2)
	fp := fingerprint(p)
	p2, err := create(s2, os.Getenv("C13_EDGE"), nil)
	fmt.Println("create rendered:", err)
	if p2 != nil {
		f2 := fingerprint(p2)
		fmt.Println("same canon:", fp.Canon == f2.Canon)
		if fp.Canon != f2.Canon {
			fmt.Println(canonDiff(fp.Canon, f2.Canon))
			fmt.Println("A:\n" + fp.Canon + "\nB:\n" + f2.Canon)
		}
	}
}
