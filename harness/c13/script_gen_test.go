package c13

import (
	"fmt"
	"sort"
	"strconv"
	"strings"

	"verifharness/kit"

	"pgregory.net/rapid"
)

// ScriptCase is one generated task script (Script and Pipeline units).
type ScriptCase struct {
	Script  string    `json:"script"`
	Edge    string    `json:"edge"` // stream | batch
	Vars    []VarSpec `json:"vars,omitempty"`
	Labels  []string  `json:"labels,omitempty"` // generator-side classes (literal forms, comment positions, ...)
	CmtAdj  bool      `json:"cmt_adj,omitempty"`
	Witness bool      `json:"witness,omitempty"` // saved witness of a known defect: no law is skipped
	Law     string    `json:"law,omitempty"`     // Pipeline unit: json | tick (which round trip is checked)
	Mixed   bool      `json:"mixed,omitempty"`   // some lambda has >= 2 operators of different precedence
}

type prop struct {
	name string
	args string // space separated arg kinds; trailing '?' = optional
}

type nodeVar struct {
	name  string
	edge  string
	props []prop // properties of the node the var refers to (nil: unknown)
	kind  string
}

type sg struct {
	r         *kit.Rec
	t         *rapid.T
	o         *out
	edge      string
	vars      map[string][]string // int float dur str bool re lbool lnum list star
	nodes     []nodeVar
	tmpl      []VarSpec
	nvar      int
	mixed     bool
	stmt      bool            // the next identifier starts a statement (canonical layout: new line)
	last      []prop          // properties of the node emitted last
	piped     bool            // the previous token was '|': the next identifier names a node
	cur       string          // node (or alert.handler) whose properties are being written
	fromWhere bool            // the from() node being written already has a .where()
	emptyRe   map[string]bool // regex vars whose value is the empty regex (L2)
	concat    int             // > 0: writing the pieces of a constant string concatenation (L1)
	law       string          // Pipeline unit: "json" | "tick"; the generator avoids what that round trip is known to lose (counted)
}

var varNames = []string{"x", "period", "crit", "db", "lambda", "Über", "v", "threshold", "name_1", "w", "data", "idVar", "every", "where_filter"}

func (s *sg) newName() string {
	s.nvar++
	return rapid.SampledFrom(varNames).Draw(s.t, "varName") + strconv.Itoa(s.nvar)
}

func (s *sg) eg() *eg {
	var bad map[string]string
	if s.law == "tick" {
		bad = map[string]string{}
		for _, v := range s.vars["lnum"] {
			bad[v] = classT3
		}
		for _, v := range s.vars["lbool"] {
			bad[v] = classT3
		}
		for _, v := range s.vars["re"] {
			bad[v] = classK2
		}
	}
	return &eg{t: s.t, badVars: bad, emptyRe: s.emptyRe, inConcat: s.concat, noCalls: s.law == "json", noBigInt: s.law == "json", nonzero: s.law == "tick", count: s.r.Exclude, vars: map[string][]string{
		"num":  append(append([]string{}, s.vars["int"]...), append(s.vars["float"], s.vars["lnum"]...)...),
		"bool": append(append([]string{}, s.vars["bool"]...), s.vars["lbool"]...),
		"str":  s.vars["str"],
		"re":   s.vars["re"],
		"dur":  s.vars["dur"],
		"cint": s.vars["int"],
	}}
}

func (s *sg) noteExpr(e *Expr) {
	_, lv := exprStats(e)
	if len(lv) >= 2 {
		s.mixed = true
	}
}

func (s *sg) kw(w string) { s.o.emit(tk{s: w, cls: "var"}) }
func (s *sg) asgn()       { s.o.emit(tk{s: "=", cls: "asgn", ncb: true, nca: true}) }
func (s *sg) pipe()       { s.o.emit(tk{s: "|", cls: "pipe"}); s.piped = true }
func (s *sg) dot()        { s.o.emit(tk{s: ".", cls: "dot"}) }
func (s *sg) id(n string) {
	if s.piped {
		s.piped = false
		s.cur = n
		s.fromWhere = false
	}
	if s.stmt {
		s.stmt = false
		s.o.emit(tk{s: n, cls: "stmt"})
		return
	}
	s.o.ident(n)
}
func (s *sg) lambdaKw()                { s.o.emit(tk{s: "lambda:", cls: "lambda"}) }
func (s *sg) pick(n int, l string) int { return rapid.IntRange(0, n-1).Draw(s.t, l) }

// ---- arguments by type

func (s *sg) useVar(typ string) bool {
	vs := s.vars[typ]
	if len(vs) == 0 || s.pick(3, "argVar") != 0 {
		return false
	}
	s.o.label("arg:var-" + typ)
	s.id(rapid.SampledFrom(vs).Draw(s.t, "argVarName"))
	return true
}

func (s *sg) argStr() {
	if s.useVar("str") {
		return
	}
	if s.pick(12, "strExpr") == 0 {
		s.concat++
		e := &Expr{K: "bin", Op: "+", A: []*Expr{s.eg().strLit(), s.eg().strLit()}}
		s.concat--
		s.o.label("arg:inline-expr")
		s.o.expr(e)
		return
	}
	s.o.expr(s.eg().strLit())
}

var namePool = []string{"host", "cpu", "value", "a", "b", "dc", "sp ace", "it's", "µ", "m.v", `q"q`, "x,y", "k=v"}

// lookalikePool: field / tag names whose text is a literal of another type (duration, integer, float,
// boolean, regex, star, reference, lambda). TICKscript writes names as string literals, so any text is a
// legal name (load averages are commonly stored as fields 1m, 5m, 15m); the JSON and TICKscript forms of
// a pipeline carry the type of a value in its position or syntax, and a name must come back as a name.
var lookalikePool = []string{"1m", "5m", "15m", "1h", "10s", "500ms", "2w", "1µs", "0s", "10", "-1", "1.5", "1e3", "TRUE", "FALSE", "true", "null", "/re/", "*", `"ref"`, "lambda: TRUE"}

func (s *sg) argName() {
	if s.pick(6, "nameVar") == 0 && s.useVar("str") {
		return
	}
	if s.pick(5, "nameLookalike") == 0 {
		v := rapid.SampledFrom(lookalikePool).Draw(s.t, "lookalike")
		s.o.label("arg:name-looks-like-literal")
		s.o.strLit(v, s.pick(6, "nameTQ") == 0)
		return
	}
	v := rapid.SampledFrom(namePool).Draw(s.t, "name")
	s.o.strLit(v, s.pick(6, "nameTQ") == 0)
}

func (s *sg) argInt() {
	if s.useVar("int") {
		return
	}
	switch s.pick(10, "intShape") {
	case 0:
		s.o.label("arg:negative")
		s.o.expr(&Expr{K: "un", Op: "-", A: []*Expr{s.eg().intLit()}})
	case 1:
		s.o.label("arg:inline-expr")
		e := s.constInt(2)
		s.noteConst(e)
		s.o.expr(e)
	default:
		s.o.expr(s.eg().intLit())
	}
}

func (s *sg) argFloat() {
	if s.useVar("float") {
		return
	}
	switch s.pick(10, "fltShape") {
	case 0:
		s.o.label("arg:negative")
		s.o.expr(&Expr{K: "un", Op: "-", A: []*Expr{s.eg().fltLit()}})
	case 1:
		s.o.label("arg:inline-expr")
		e := s.constFloat(2)
		s.noteConst(e)
		s.o.expr(e)
	default:
		s.o.expr(s.eg().fltLit())
	}
}

func (s *sg) argDur() {
	if s.useVar("dur") {
		return
	}
	switch s.pick(10, "durShape") {
	case 0:
		s.o.label("arg:negative")
		s.o.expr(&Expr{K: "un", Op: "-", A: []*Expr{s.eg().durLit()}})
	case 1:
		s.o.label("arg:inline-expr")
		e := s.constDur(2)
		s.noteConst(e)
		s.o.expr(e)
	default:
		s.o.expr(s.eg().durLit())
	}
}

func (s *sg) argBool() {
	if s.useVar("bool") {
		return
	}
	s.o.expr(&Expr{K: "bool", V: rapid.SampledFrom([]string{"TRUE", "FALSE"}).Draw(s.t, "b")})
}

func (s *sg) argLambda(root string) {
	typ := "lbool"
	if root == "num" {
		typ = "lnum"
	}
	if s.useVar(typ) {
		return
	}
	s.lambdaKw()
	e := s.lambdaExpr(root)
	s.o.expr(e)
}

func (s *sg) lambdaExpr(root string) *Expr {
	g := s.eg()
	d := rapid.IntRange(0, 4).Draw(s.t, "lambdaDepth")
	var e *Expr
	switch root {
	case "num":
		e = g.num(d)
	case "any":
		e = g.any(d)
	default:
		e = g.boolean(d)
	}
	s.noteExpr(e)
	return e
}

func (s *sg) argAny() {
	k := s.pick(4, "anyT")
	if k == 0 && s.avoided("~any-int") {
		k = 1
	}
	switch k {
	case 0:
		s.argInt()
	case 1:
		s.argFloat()
	case 2:
		s.argStr()
	default:
		if s.law == "tick" {
			// FALSE is the zero value of bool: dropped by pipeline/tick (T1)
			if !rapid.Bool().Draw(s.t, "anyBool") {
				s.r.Exclude(classT1)
			}
			s.o.expr(&Expr{K: "bool", V: "TRUE"})
			return
		}
		s.argBool()
	}
}

// variadic strings: separate arguments, one list literal, or a list var
func (s *sg) argStrings(min, max int, names bool) int {
	if len(s.vars["list"]) > 0 && min <= 2 && s.pick(5, "listVar") == 0 {
		s.o.label("arg:var-list")
		s.id(rapid.SampledFrom(s.vars["list"]).Draw(s.t, "listVarName"))
		return 2
	}
	n := rapid.IntRange(min, max).Draw(s.t, "nStrings")
	asList := n > 0 && s.pick(4, "asList") == 0
	if asList {
		s.o.label("arg:list-literal")
		s.o.emit(tk{s: "[", cls: "lbr"})
	}
	for i := 0; i < n; i++ {
		if i > 0 {
			s.o.comma()
		}
		if names {
			// inside a list literal only string literals, identifiers and '*' are allowed
			if asList {
				v := rapid.SampledFrom(namePool).Draw(s.t, "name")
				s.o.strLit(v, false)
			} else {
				s.argName()
			}
		} else {
			if asList {
				s.o.expr(s.eg().strLit())
			} else {
				s.argStr()
			}
		}
	}
	if asList {
		s.o.emit(tk{s: "]", cls: "rbr"})
	}
	return n
}

func (s *sg) argDims() (star bool) {
	k := s.pick(5, "dims")
	if k <= 1 && s.avoided("~star") {
		k = 2
	}
	switch k {
	case 0:
		if s.useVar("star") {
			return true
		}
		s.o.expr(&Expr{K: "star"})
		s.o.label("arg:star")
		return true
	case 1:
		if s.pick(2, "starList") == 0 {
			s.o.emit(tk{s: "[", cls: "lbr"})
			s.o.expr(&Expr{K: "star"})
			s.o.emit(tk{s: "]", cls: "rbr"})
			s.o.label("arg:star-in-list")
			return true
		}
		fallthrough
	default:
		s.argStrings(1, 3, true)
		return false
	}
}

func (s *sg) args(kinds string) {
	first := true
	for _, k := range strings.Fields(kinds) {
		opt := strings.HasSuffix(k, "?")
		k = strings.TrimSuffix(k, "?")
		if opt && s.pick(2, "optArg") == 0 {
			continue
		}
		if !first {
			s.o.comma()
		}
		first = false
		switch k {
		case "s":
			s.argStr()
		case "n":
			s.argName()
		case "i":
			s.argInt()
		case "f":
			s.argFloat()
		case "d":
			s.argDur()
		case "b":
			s.argBool()
		case "l":
			s.argLambda("bool")
		case "ln":
			s.argLambda("num")
		case "any":
			s.argAny()
		case "S":
			if s.argStrings(0, 3, false) == 0 {
				first = true
			}
		case "N":
			if s.argStrings(0, 3, true) == 0 {
				first = true
			}
		case "N1":
			s.argStrings(1, 3, true)
		case "dims":
			s.argDims()
		case "mode":
			// a file permission: positive, conventionally written in octal
			s.o.expr(&Expr{K: "int", V: rapid.SampledFrom([]string{"0644", "0600", "0755", "420", "0777"}).Draw(s.t, "fileMode")})
		default:
			panic("arg kind " + k)
		}
	}
}

func (s *sg) call(name, kinds string) {
	s.id(name)
	s.o.lparen()
	s.args(kinds)
	s.o.rparen()
}

// unsupported: per law of the Pipeline unit, the properties / handlers (key node.prop, alert.handler,
// alert.handler.prop; "*" as node matches every node) that the round trip is known to lose (defect
// families J2 and T2). The generator does not write them for that law and counts each avoided draw.
var unsupported = map[string]map[string]string{
	"json": {
		"|holtWinters": "J11 pipeline JSON: MarshalJSON replaces the duration arguments of the live elapsed/holtWinters node by strings (marshalling changes the pipeline)", "|holtWintersWithFit": "J11 pipeline JSON: MarshalJSON replaces the duration arguments of the live elapsed/holtWinters node by strings (marshalling changes the pipeline)",
		"~child-of-shadowing-node": "J10 pipeline JSON: children of combine / k8sAutoscale cannot be read back (a struct field named like a chain method, Max/Min, makes the node fail the chain-node interface check)",
		"~any-int":       "J7 pipeline JSON: an integer value of an untyped property (default/sideload field, fill, handler attribute) is read back as a float",
		"|barrier":       "J6 pipeline JSON: node kind unknown to Unmarshal: barrier",
		"|trickle":       "J6 pipeline JSON: node kind unknown to Unmarshal: trickle",
		"~star":          "J4 pipeline JSON: a '*' group-by dimension is read back as a generic map, not a star node",
		"|queryFlux":     "J3 pipeline JSON: node cannot be read back, a duration is written as a string and decoded as a number: queryFlux.period",
		"|httpPost":      "J3 pipeline JSON: node cannot be read back, a duration is written as a string and decoded as a number: httpPost.timeout",
		"*.quiet":        classJ2 + "quiet (nodes whose embedded chainnode is tagged json:\"-\")",
		"+groupBy.quiet": "", "+alert.quiet": "", "+barrier.quiet": "", "+combine.quiet": "", "+httpOut.quiet": "", "+httpPost.quiet": "", "+log.quiet": "", "+sideload.quiet": "",
	},
	"tick": {
		"~combined-lambda":        "K3 format of an AST built without the parser: lambdas combined by the pipeline itself (deadman(…, lambda), repeated from().where()) are joined with AND without parentheses",
		"alert.email.toTemplates": "T9 pipeline/tick AST.Build fails on an email handler with toTemplates (unsupported literal type []string)",
		"alert.discord":           classT2 + "alert discord handler", "alert.category": classT2 + "alert.category",
		"alert.opsGenie2.recoveryAction": classT2 + "opsGenie2.recoveryAction", "alert.opsGenie2.details": classT2 + "opsGenie2.details",
		"alert.teams":         "T6 pipeline/tick renders handlers in a fixed order: a .teams() handler written after .opsGenie()/.opsGenie2() is taken as that handler's teams property",
		"|holtWintersWithFit": "T5 pipeline/tick renders holtWintersWithFit as holtWinters(field, h, m, interval, TRUE) (rejected: too many arguments)",
		"*.quiet":             classT2 + "quiet (rendered for eval only)", "+eval.quiet": "",
	},
}

const (
	// J8 is not avoided by the generator: the nodes are generated for the json law as well and compared
	// under the argsOnly view (fp_test.go nodeProps), see pipelineJSONLaw.
	classJ8 = "J8 pipeline JSON: InfluxQL function nodes with parameters (percentile, top/bottom, movingAverage, elapsed, holtWinters) are read back with zero parameters in their reducers (only the args list is restored)"
	classK9 = "K9 dbrp statement whose database or retention policy name contains a double quote (printed unescaped)"
	classJ2 = "J2 pipeline JSON does not carry the property: "
	classT2 = "T2 pipeline/tick does not render the property: "
)

func (s *sg) avoided(key string) bool {
	if s.law == "" {
		return false
	}
	tbl := unsupported[s.law]
	class, bad := tbl[key]
	if !bad {
		if i := strings.Index(key, "."); i >= 0 {
			class, bad = tbl["*"+key[i:]]
		}
	}
	if ok, isOK := tbl["+"+key]; isOK && ok == "" { // explicit exception to a wildcard
		bad = false
	}
	if bad && off(class) {
		bad = false
	}
	if bad {
		s.r.Exclude(class)
	}
	return bad
}

func (s *sg) prop(p prop) {
	key := s.cur + "." + p.name
	if s.avoided(key) {
		return
	}
	if key == "from.where" {
		// a second .where() on the same from() is AND-ed onto the first one by the pipeline
		if s.fromWhere && s.avoided("~combined-lambda") {
			return
		}
		s.fromWhere = true
	}
	s.dot()
	s.call(p.name, p.args)
	s.o.label("prop-args:" + p.args)
	s.o.label("prop:" + key)
}

func (s *sg) someProps(ps []prop, max int) {
	if len(ps) == 0 {
		return
	}
	n := rapid.IntRange(0, max).Draw(s.t, "nProps")
	for i := 0; i < n; i++ {
		s.prop(rapid.SampledFrom(ps).Draw(s.t, "prop"))
	}
}

// ---- constant expressions (evaluated when the task is defined)

func (s *sg) noteConst(e *Expr) {
	s.o.label("const-expr")
	if _, lv := exprStats(e); len(lv) >= 2 {
		s.o.label("const-expr:mixed-precedence")
	}
}

var smallInts = []string{"1", "2", "3", "5", "7", "10", "010", "60"}

func (s *sg) constInt(d int) *Expr {
	g := s.eg()
	if d <= 0 || s.pick(3, "ciLeaf") == 0 {
		if s.law != "tick" { // tick law: the value must stay non-zero (T1), vars may hold negative numbers
			if v := g.pickVar("cint"); v != nil {
				return v
			}
		}
		return &Expr{K: "int", V: rapid.SampledFrom(smallInts).Draw(s.t, "ci")}
	}
	op := rapid.SampledFrom([]string{"+", "-", "*", "/", "%"}).Draw(s.t, "ciOp")
	if s.law == "tick" && op != "*" {
		op = "+" // the value must not become zero (T1)
	}
	l := s.constInt(d - 1)
	var r *Expr
	if op == "/" || op == "%" {
		r = &Expr{K: "int", V: rapid.SampledFrom(smallInts).Draw(s.t, "ciDiv")} // never a zero divisor (C05)
	} else {
		r = s.constInt(d - 1)
	}
	return g.paren(&Expr{K: "bin", Op: op, A: []*Expr{l, r}})
}

func (s *sg) constFloat(d int) *Expr {
	g := s.eg()
	if d <= 0 || s.pick(3, "cfLeaf") == 0 {
		return &Expr{K: "flt", V: rapid.SampledFrom([]string{"1.0", "0.5", ".5", "2.", "3.25", "10.0", "001.5"}).Draw(s.t, "cf")}
	}
	op := rapid.SampledFrom([]string{"+", "-", "*", "/"}).Draw(s.t, "cfOp")
	if s.law == "tick" && op == "-" {
		op = "+"
	}
	if op == "/" {
		// the divisor is a non-zero literal: no Inf/NaN constants
		return g.paren(&Expr{K: "bin", Op: op, A: []*Expr{s.constFloat(d - 1), s.constFloat(0)}})
	}
	return g.paren(&Expr{K: "bin", Op: op, A: []*Expr{s.constFloat(d - 1), s.constFloat(d - 1)}})
}

func (s *sg) constDur(d int) *Expr {
	g := s.eg()
	if d <= 0 || s.pick(3, "cdLeaf") == 0 {
		return g.durLit()
	}
	k := s.pick(4, "cdOp")
	if s.law == "tick" && (k == 1 || k == 3) {
		k = 0 // no zero and no sub-microsecond values
	}
	switch k {
	case 0:
		return g.paren(&Expr{K: "bin", Op: "+", A: []*Expr{s.constDur(d - 1), s.constDur(d - 1)}})
	case 1:
		return g.paren(&Expr{K: "bin", Op: "-", A: []*Expr{s.constDur(d - 1), s.constDur(d - 1)}})
	case 2:
		// small factors on a literal only: the value must not overflow int64 nanoseconds
		f := &Expr{K: "int", V: rapid.SampledFrom([]string{"2", "3", "5", "010"}).Draw(s.t, "cdMul")}
		l := g.durLit()
		if strings.HasPrefix(l.V, "1000") {
			l.V = l.V[3:] + "" // 1000<unit> -> 0<unit>? keep it small instead
			l.V = "9" + strings.TrimLeft(l.V, "0")
		}
		if s.pick(2, "cdSide") == 0 {
			return g.paren(&Expr{K: "bin", Op: "*", A: []*Expr{f, l}})
		}
		return g.paren(&Expr{K: "bin", Op: "*", A: []*Expr{l, f}})
	default:
		return g.paren(&Expr{K: "bin", Op: "/", A: []*Expr{s.constDur(d - 1), {K: "int", V: rapid.SampledFrom(smallInts).Draw(s.t, "cdDiv")}}})
	}
}

func (s *sg) constStr(d int) *Expr {
	g := s.eg()
	if d <= 0 || s.pick(3, "csLeaf") == 0 {
		return g.strLit()
	}
	s.concat++
	l, r := s.constStr(d-1), s.constStr(d-1)
	s.concat--
	return g.paren(&Expr{K: "bin", Op: "+", A: []*Expr{l, r}})
}

func (s *sg) constBool(d int) *Expr {
	g := s.eg()
	if d <= 0 || s.pick(4, "cbLeaf") == 0 {
		return &Expr{K: "bool", V: rapid.SampledFrom([]string{"TRUE", "FALSE"}).Draw(s.t, "cb")}
	}
	switch s.pick(5, "cbOp") {
	case 0, 1:
		op := rapid.SampledFrom([]string{"AND", "OR"}).Draw(s.t, "cbL")
		return g.paren(&Expr{K: "bin", Op: op, A: []*Expr{s.constBool(d - 1), s.constBool(d - 1)}})
	case 2:
		op := rapid.SampledFrom([]string{"<", ">", "<=", ">=", "==", "!="}).Draw(s.t, "cbC")
		return g.paren(&Expr{K: "bin", Op: op, A: []*Expr{s.constInt(d - 1), s.constInt(d - 1)}})
	case 3:
		op := rapid.SampledFrom([]string{"<", ">", "==", "!="}).Draw(s.t, "cbF")
		return g.paren(&Expr{K: "bin", Op: op, A: []*Expr{s.constFloat(d - 1), s.constFloat(d - 1)}})
	default:
		return g.paren(&Expr{K: "un", Op: "!", A: []*Expr{s.constBool(d - 1)}})
	}
}

// ---- declarations

// constRHS writes the right-hand side of a `var x = <constant expression>` declaration.
// K7: a comment before a - AND OR operator on the left spine of the expression is printed by
// the formatter directly after '=', where the lexer reads "//" as an empty regex: such
// comment positions are not generated (counted when comments are enabled and the class applies).
func (s *sg) constRHS(e *Expr) {
	if off(classK7) {
		s.o.expr(e)
		return
	}
	applies := false
	x := e
	for x != nil && x.K == "bin" && x.P == 0 {
		if x.Op == "-" || x.Op == "AND" || x.Op == "OR" {
			if s.o.ncbOps == nil {
				s.o.ncbOps = map[*Expr]bool{}
			}
			s.o.ncbOps[x] = true
			applies = true
		}
		if needParens(x, x.A[0], false) {
			x = nil
			break
		}
		x = x.A[0]
	}
	// the parser hands a comment that precedes the ')' closing a unary operator's operand to the
	// unary node; at the start of the expression it is again printed directly after '='
	for x != nil && x.K == "un" && x.P == 0 {
		if s.o.noCmtIn == nil {
			s.o.noCmtIn = map[*Expr]bool{}
		}
		s.o.noCmtIn[x] = true
		applies = true
		x = x.A[0]
	}
	if applies && s.o.comments && s.r != nil {
		s.r.Exclude(classK7)
	}
	s.o.expr(e)
}

func (s *sg) declare(typ string, rhs func()) string {
	name := s.newName()
	s.kw("var")
	s.id(name)
	s.asgn()
	rhs()
	s.vars[typ] = append(s.vars[typ], name)
	s.o.label("decl:" + typ)
	// a task may override the declared default with a predefined var of the same type
	if s.pick(8, "override") == 0 {
		v := VarSpec{Name: name}
		switch typ {
		case "int":
			v.Type, v.Val = "int", strconv.Itoa(rapid.IntRange(1, 50).Draw(s.t, "ovInt"))
		case "float":
			v.Type, v.Val = "float", rapid.SampledFrom([]string{"0.75", "12.5"}).Draw(s.t, "ovFloat")
		case "dur":
			v.Type, v.Val = "duration", rapid.SampledFrom([]string{"1000000000", "60000000000"}).Draw(s.t, "ovDur")
		case "str":
			v.Type, v.Val = "string", rapid.SampledFrom([]string{"override", "o'v"}).Draw(s.t, "ovStr")
		case "bool":
			v.Type, v.Val = "bool", "true"
		}
		if v.Type != "" {
			s.tmpl = append(s.tmpl, v)
			s.o.label("decl:overridden-default")
		}
	}
	return name
}

func (s *sg) declStatement() {
	g := s.eg()
	switch s.pick(16, "declKind") {
	case 0:
		s.declare("int", func() {
			if s.pick(4, "neg") == 0 {
				s.o.expr(&Expr{K: "un", Op: "-", A: []*Expr{g.intLit()}})
			} else {
				s.o.expr(g.intLit())
			}
		})
	case 1:
		s.declare("float", func() {
			if s.pick(4, "neg") == 0 {
				s.o.expr(&Expr{K: "un", Op: "-", A: []*Expr{g.fltLit()}})
			} else {
				s.o.expr(g.fltLit())
			}
		})
	case 2:
		s.declare("dur", func() {
			if s.pick(5, "neg") == 0 {
				s.o.expr(&Expr{K: "un", Op: "-", A: []*Expr{g.durLit()}})
			} else {
				s.o.expr(g.durLit())
			}
		})
	case 3:
		s.declare("str", func() { s.o.expr(g.strLit()) })
	case 4:
		s.declare("bool", func() { s.argBool() })
	case 5:
		re := g.regex(true)
		name := s.declare("re", func() { s.o.expr(re) })
		if re.V == "" {
			s.emptyRe[name] = true
		}
	case 6:
		s.declare("list", func() {
			n := rapid.IntRange(2, 2).Draw(s.t, "listN")
			s.o.emit(tk{s: "[", cls: "lbr"})
			for i := 0; i < n; i++ {
				if i > 0 {
					s.o.comma()
				}
				s.o.strLit(rapid.SampledFrom(namePool).Draw(s.t, "name"), false)
			}
			s.o.emit(tk{s: "]", cls: "rbr"})
		})
	case 7:
		s.declare("star", func() { s.o.expr(&Expr{K: "star"}) })
	case 8:
		e := s.constInt(3)
		s.noteConst(e)
		s.declare("int", func() { s.constRHS(e) })
	case 9:
		e := s.constFloat(3)
		s.noteConst(e)
		s.declare("float", func() { s.constRHS(e) })
	case 10:
		e := s.constDur(3)
		s.noteConst(e)
		s.declare("dur", func() { s.constRHS(e) })
	case 11:
		e := s.constStr(2)
		s.noteConst(e)
		s.declare("str", func() { s.constRHS(e) })
	case 12:
		e := s.constBool(3)
		s.noteConst(e)
		s.declare("bool", func() { s.constRHS(e) })
	case 13:
		s.declare("lbool", func() { s.lambdaKw(); s.o.expr(s.lambdaExpr("bool")) })
	case 14:
		s.declare("lnum", func() { s.lambdaKw(); s.o.expr(s.lambdaExpr("num")) })
	default:
		s.templateDecl()
	}
}

// template declaration `var name type` with the value supplied as predefined var
func (s *sg) templateDecl() {
	name := s.newName()
	typ := rapid.SampledFrom([]string{"int", "float", "bool", "string", "regex", "duration", "lambda", "list", "star"}).Draw(s.t, "tmplType")
	s.kw("var")
	s.id(name)
	s.o.emit(tk{s: typ, cls: "ident"})
	v := VarSpec{Name: name, Type: typ}
	switch typ {
	case "int":
		v.Val = strconv.Itoa(rapid.IntRange(-5, 100).Draw(s.t, "tmplInt"))
		if v.Val == "0" && s.law == "tick" {
			v.Val = "4"
		}
		s.vars["int"] = append(s.vars["int"], name)
	case "float":
		v.Val = rapid.SampledFrom([]string{"0.5", "1", "-2.25", "1e21", "3.0000000000000004"}).Draw(s.t, "tmplFloat")
		s.vars["float"] = append(s.vars["float"], name)
	case "bool":
		v.Val = strconv.FormatBool(rapid.Bool().Draw(s.t, "tmplBool"))
		s.vars["bool"] = append(s.vars["bool"], name)
	case "string":
		v.Val = rapid.SampledFrom(strPool).Draw(s.t, "tmplStr")
		if s.law == "tick" && (v.Val == "" || strings.HasSuffix(v.Val, `\`)) {
			v.Val = "nz"
		}
		s.vars["str"] = append(s.vars["str"], name)
	case "regex":
		v.Val = rapid.SampledFrom(regexPool).Draw(s.t, "tmplRe")
		s.vars["re"] = append(s.vars["re"], name)
		if v.Val == "" {
			s.emptyRe[name] = true
		}
	case "duration":
		v.Val = strconv.FormatInt(int64(rapid.SampledFrom([]int64{0, 1000, 1500000, 1e9, 90e9, 3600e9, -5e9}).Draw(s.t, "tmplDur")), 10)
		if v.Val == "0" && s.law == "tick" {
			v.Val = "2000"
		}
		s.vars["dur"] = append(s.vars["dur"], name)
	case "lambda":
		o := newOut(s.t, 0, false)
		g := s.eg()
		g.vars, g.badVars = nil, nil
		e := g.boolean(2)
		o.expr(e)
		v.Val = o.b.String()
		s.vars["lbool"] = append(s.vars["lbool"], name)
	case "list":
		v.List = []string{rapid.SampledFrom(namePool).Draw(s.t, "name"), rapid.SampledFrom(namePool).Draw(s.t, "name")}
		s.vars["list"] = append(s.vars["list"], name)
	case "star":
		s.vars["star"] = append(s.vars["star"], name)
	}
	s.tmpl = append(s.tmpl, v)
	s.o.label("decl:template-" + typ)
}

// ---- nodes

var fromProps = []prop{{"database", "s"}, {"retentionPolicy", "s"}, {"measurement", "s"}, {"where", "l"}, {"groupBy", "dims"}, {"groupByMeasurement", ""}, {"truncate", "d"}, {"round", "d"}, {"quiet", ""}}
var queryProps = []prop{{"period", "d"}, {"every", "d"}, {"align", ""}, {"cron", "s"}, {"offset", "d"}, {"alignGroup", ""}, {"groupBy", "dims"}, {"groupByMeasurement", ""}, {"fill", "any"}, {"cluster", "s"}}
var queryFluxProps = []prop{{"period", "d"}, {"every", "d"}, {"align", ""}, {"cron", "s"}, {"offset", "d"}, {"cluster", "s"}, {"org", "s"}, {"orgID", "s"}}
var influxqlFuncs = []string{"count", "distinct", "mean", "median", "mode", "spread", "sum", "first", "last", "min", "max", "stddev", "difference", "cumulativeSum"}

var alertProps = []prop{{"topic", "s"}, {"id", "s"}, {"message", "s"}, {"details", "s"}, {"info", "l"}, {"warn", "l"}, {"crit", "l"}, {"infoReset", "l"}, {"warnReset", "l"}, {"critReset", "l"},
	{"flapping", "f f"}, {"history", "i"}, {"levelTag", "n"}, {"levelField", "n"}, {"messageField", "n"}, {"durationField", "n"}, {"idTag", "n"}, {"idField", "n"}, {"all", ""}, {"noRecoveries", ""},
	{"stateChangesOnly", "d?"}, {"inhibit", "s N"}, {"category", "s"}, {"quiet", ""}}

type handler struct {
	name  string
	args  string
	props []prop
}

var handlers = []handler{
	{"post", "s?", []prop{{"endpoint", "s"}, {"header", "n s"}, {"captureResponse", ""}, {"timeout", "d"}, {"skipSSLVerification", ""}}},
	{"tcp", "s", nil},
	{"email", "S", []prop{{"to", "S"}, {"toTemplates", "S"}}},
	{"exec", "s S", nil},
	{"log", "s", []prop{{"mode", "mode"}}},
	{"victorOps", "", []prop{{"routingKey", "s"}}},
	{"pagerDuty", "", []prop{{"serviceKey", "s"}}},
	{"pagerDuty2", "", []prop{{"routingKey", "s"}, {"link", "s s?"}, {"serviceKey", "s"}}},
	{"pushover", "", []prop{{"userKey", "s"}, {"device", "s"}, {"title", "s"}, {"sound", "s"}}},
	{"sensu", "", []prop{{"source", "s"}, {"handlers", "S"}, {"metadata", "n any"}}},
	{"slack", "", []prop{{"workspace", "s"}, {"channel", "s"}, {"username", "s"}, {"iconEmoji", "s"}}},
	{"discord", "", []prop{{"workspace", "s"}, {"username", "s"}, {"embedTitle", "s"}}},
	{"bigPanda", "", []prop{{"appKey", "s"}, {"host", "s"}, {"primaryProperty", "s"}, {"secondaryProperty", "s"}, {"attribute", "n any"}}},
	{"telegram", "", []prop{{"chatId", "s"}, {"parseMode", "s"}, {"disableWebPagePreview", ""}, {"disableNotification", ""}}},
	{"hipChat", "", []prop{{"room", "s"}, {"token", "s"}}},
	{"alerta", "", []prop{{"token", "s"}, {"resource", "s"}, {"event", "s"}, {"environment", "s"}, {"group", "s"}, {"value", "s"}, {"origin", "s"}, {"services", "S"}, {"correlated", "S"}, {"attribute", "n any"}, {"timeout", "d"}}},
	{"opsGenie", "", []prop{{"teams", "S"}, {"recipients", "S"}}},
	{"opsGenie2", "", []prop{{"teams", "S"}, {"recipients", "S"}, {"recoveryAction", "s"}, {"details", ""}}},
	{"talk", "", nil},
	{"mqtt", "s", []prop{{"brokerName", "s"}, {"qos", "i"}, {"retained", "b"}}},
	{"kafka", "", []prop{{"cluster", "s"}, {"kafkaTopic", "s"}, {"disablePartitionById", ""}, {"partitionHashAlgorithm", "s"}, {"template", "s"}}},
	{"teams", "", []prop{{"channelURL", "s"}}},
	{"serviceNow", "", []prop{{"source", "s"}, {"node", "s"}, {"type", "s"}, {"resource", "s"}, {"metricName", "s"}, {"messageKey", "s"}, {"additionalInfo", "n any"}}},
	{"zenoss", "", []prop{{"action", "s"}, {"method", "s"}, {"type", "s"}, {"tid", "i"}, {"collector", "s"}, {"summary", "s"}, {"device", "s"}, {"component", "s"}, {"message", "s"}, {"customField", "n any"}}},
}

// simple nodes: name, call args, required input edge (""=any), output edge ("="=same), properties
type nodeSpec struct {
	name  string
	args  string
	in    string
	out   string
	props []prop
}

var simpleNodes = []nodeSpec{
	{"where", "l", "", "=", []prop{{"quiet", ""}}},
	{"stateCount", "l", "", "=", []prop{{"as", "n"}}},
	{"stateDuration", "l", "", "=", []prop{{"as", "n"}, {"unit", "d"}}},
	{"derivative", "n", "", "=", []prop{{"as", "n"}, {"unit", "d"}, {"nonNegative", ""}}},
	{"shift", "d", "", "=", nil},
	{"delete", "", "", "=", []prop{{"field", "n"}, {"tag", "n"}}},
	{"default", "", "", "=", []prop{{"field", "n any"}, {"tag", "n s"}}},
	{"flatten", "", "", "=", []prop{{"on", "N"}, {"delimiter", "s"}, {"tolerance", "d"}, {"dropOriginalFieldName", "b?"}}},
	{"log", "", "", "=", []prop{{"level", "s"}, {"prefix", "s"}}},
	{"httpOut", "s", "", "=", nil},
	{"changeDetect", "N", "", "=", nil},
	{"sideload", "", "", "=", []prop{{"source", "s"}, {"order", "S"}, {"field", "n any"}, {"tag", "n s"}}},
	{"influxDBOut", "", "", "-", []prop{{"cluster", "s"}, {"database", "s"}, {"retentionPolicy", "s"}, {"measurement", "s"}, {"writeConsistency", "s"}, {"precision", "s"}, {"buffer", "i"}, {"flushInterval", "d"}, {"tag", "n s"}, {"create", ""}}},
	{"percentile", "n f", "", "s", []prop{{"as", "n"}, {"usePointTimes", ""}}},
	{"elapsed", "n d", "", "=", []prop{{"as", "n"}}},
	{"movingAverage", "n i", "", "=", []prop{{"as", "n"}}},
	{"holtWinters", "n i i d", "", "b", []prop{{"as", "n"}}},
	{"holtWintersWithFit", "n i i d", "", "b", []prop{{"as", "n"}, {"usePointTimes", ""}}},
	{"top", "i n N", "", "b", []prop{{"as", "n"}}},
	{"bottom", "i n N", "", "b", []prop{{"as", "n"}}},
	{"stats", "d", "", "s", []prop{{"align", ""}}},
	{"trickle", "", "b", "s", nil},
}

var customNodes = map[int]string{22: "window", 23: "window", 24: "eval", 25: "eval", 26: "groupBy", 27: "alert", 28: "alert", 29: "alert", 30: "sample",
	31: "influxql", 32: "influxql", 33: "combine", 34: "barrier", 35: "httpPost", 36: "kapacitorLoopback", 37: "deadman", 38: "k8sAutoscale", 39: "join-union"}

func (s *sg) node(edge string) (out string) {
	t := s.t
	out = edge
	s.last = nil
	k := s.pick(40, "nodeKind")
	name := customNodes[k]
	if k < len(simpleNodes) {
		name = simpleNodes[k].name
	}
	if s.avoided("|" + name) {
		return s.node(edge)
	}
	switch {
	case k < len(simpleNodes):
		ns := simpleNodes[k]
		if ns.in != "" && ns.in != edge {
			return s.node(edge)
		}
		s.pipe()
		s.call(ns.name, ns.args)
		s.someProps(ns.props, 3)
		s.last = ns.props
		switch ns.out {
		case "=":
		default:
			out = ns.out
		}
	case k == 22 || k == 23:
		if edge != "s" {
			return s.node(edge)
		}
		s.pipe()
		s.call("window", "")
		if s.pick(3, "winCount") == 0 {
			s.prop(prop{"periodCount", "i"})
			s.prop(prop{"everyCount", "i"})
			s.someProps([]prop{{"fillPeriod", ""}, {"everyCount", "i"}}, 1)
		} else {
			s.someProps([]prop{{"period", "d"}, {"every", "d"}, {"align", ""}, {"fillPeriod", ""}, {"period", "d"}}, 4)
		}
		out = "b"
	case k == 24 || k == 25:
		s.pipe()
		n := rapid.IntRange(1, 3).Draw(t, "evalN")
		s.id("eval")
		s.o.lparen()
		for i := 0; i < n; i++ {
			if i > 0 {
				s.o.comma()
			}
			s.argLambda([]string{"num", "bool", "num"}[i%3])
		}
		s.o.rparen()
		var names []string
		s.dot()
		s.id("as")
		s.o.lparen()
		for i := 0; i < n; i++ {
			if i > 0 {
				s.o.comma()
			}
			nm := fmt.Sprintf("e%d", i)
			names = append(names, nm)
			s.o.strLit(nm, s.pick(5, "asTQ") == 0)
		}
		s.o.rparen()
		switch s.pick(4, "evalExtra") {
		case 0:
			s.dot()
			s.id("tags")
			s.o.lparen()
			s.o.strLit(names[0], false)
			s.o.rparen()
		case 1:
			s.prop(prop{"keep", "N"})
		case 2:
			s.prop(prop{"quiet", ""})
		}
	case k == 26:
		s.pipe()
		s.id("groupBy")
		s.o.lparen()
		star := s.argDims()
		s.o.rparen()
		if star && s.pick(2, "excl") == 0 {
			s.prop(prop{"exclude", "N1"})
		}
		s.someProps([]prop{{"byMeasurement", ""}}, 1)
	case k == 27 || k == 28 || k == 29:
		s.alert()
	case k == 30:
		s.pipe()
		s.id("sample")
		s.o.lparen()
		if s.pick(2, "sampleT") == 0 {
			s.argInt()
		} else {
			s.argDur()
		}
		s.o.rparen()
	case k == 31 || k == 32:
		s.pipe()
		fn := rapid.SampledFrom(influxqlFuncs).Draw(t, "influxql")
		s.call(fn, "n")
		s.someProps([]prop{{"as", "n"}, {"usePointTimes", ""}}, 2)
		out = "s"
		switch fn {
		case "distinct":
			out = "b"
		case "difference", "cumulativeSum":
			out = edge
		}
	case k == 33:
		s.pipe()
		n := rapid.IntRange(1, 2).Draw(t, "combineN")
		s.id("combine")
		s.o.lparen()
		for i := 0; i < n; i++ {
			if i > 0 {
				s.o.comma()
			}
			s.argLambda("bool")
		}
		s.o.rparen()
		s.dot()
		s.id("as")
		s.o.lparen()
		for i := 0; i < n; i++ {
			if i > 0 {
				s.o.comma()
			}
			s.o.strLit(fmt.Sprintf("c%d", i), false)
		}
		s.o.rparen()
		s.someProps([]prop{{"tolerance", "d"}, {"max", "i"}, {"delimiter", "s"}}, 2)
		out = "s"
		if s.avoided("~child-of-shadowing-node") {
			out = "-"
		}
	case k == 34:
		s.pipe()
		s.call("barrier", "")
		if s.pick(2, "barrierK") == 0 {
			s.prop(prop{"idle", "d"})
		} else {
			s.prop(prop{"period", "d"})
		}
		s.someProps([]prop{{"delete", "b"}}, 1)
	case k == 35:
		s.pipe()
		if s.pick(2, "postK") == 0 {
			s.call("httpPost", "s")
		} else {
			s.call("httpPost", "")
			s.prop(prop{"endpoint", "s"})
		}
		s.someProps([]prop{{"header", "n s"}, {"codeField", "n"}, {"captureResponse", ""}, {"timeout", "d"}}, 2)
	case k == 36:
		s.pipe()
		s.call("kapacitorLoopback", "")
		s.prop(prop{"database", "n"})
		s.prop(prop{"retentionPolicy", "n"})
		s.someProps([]prop{{"measurement", "s"}, {"tag", "n s"}}, 2)
		out = "-"
	case k == 37:
		s.pipe()
		s.id("deadman")
		s.o.lparen()
		s.argFloat()
		s.o.comma()
		s.argDur()
		if s.pick(2, "deadmanL") == 0 && !s.avoided("~combined-lambda") {
			s.o.comma()
			s.argLambda("bool")
		}
		s.o.rparen()
		s.cur = "alert" // deadman returns the alert node it builds
		s.someProps(alertProps, 2)
		out = "s"
	case k == 38:
		s.pipe()
		s.call("k8sAutoscale", "")
		if s.pick(2, "k8sName") == 0 {
			s.prop(prop{"resourceName", "n"})
		} else {
			s.prop(prop{"resourceNameTag", "n"})
		}
		s.prop(prop{"replicas", "ln"})
		s.someProps([]prop{{"min", "i"}, {"max", "i"}, {"increaseCooldown", "d"}, {"decreaseCooldown", "d"}, {"namespace", "s"}, {"currentField", "n"}}, 2)
		out = "s"
		if s.avoided("~child-of-shadowing-node") {
			out = "-"
		}
	default:
		// join / union with previously declared node vars of the same edge
		var cands []nodeVar
		for _, nv := range s.nodes {
			if nv.edge == edge {
				cands = append(cands, nv)
			}
		}
		if len(cands) == 0 {
			return s.node(edge)
		}
		n := rapid.IntRange(1, min(2, len(cands))).Draw(t, "joinN")
		s.pipe()
		if s.pick(2, "joinOrUnion") == 0 {
			s.id("join")
			s.o.lparen()
			for i := 0; i < n; i++ {
				if i > 0 {
					s.o.comma()
				}
				s.id(cands[(i+s.pick(len(cands), "joinWho"))%len(cands)].name)
			}
			s.o.rparen()
			s.dot()
			s.id("as")
			s.o.lparen()
			for i := 0; i <= n; i++ {
				if i > 0 {
					s.o.comma()
				}
				s.o.strLit(fmt.Sprintf("j%d", i), false)
			}
			s.o.rparen()
			s.someProps([]prop{{"on", "N"}, {"tolerance", "d"}, {"fill", "any"}, {"streamName", "s"}, {"deleteAll", "b"}, {"delimiter", "s"}}, 3)
			s.o.label("node-ref:join")
		} else {
			s.id("union")
			s.o.lparen()
			for i := 0; i < n; i++ {
				if i > 0 {
					s.o.comma()
				}
				s.id(cands[(i+s.pick(len(cands), "unionWho"))%len(cands)].name)
			}
			s.o.rparen()
			s.someProps([]prop{{"rename", "s"}}, 1)
			s.o.label("node-ref:union")
		}
	}
	return out
}

func (s *sg) alert() {
	s.pipe()
	s.call("alert", "")
	s.someProps(alertProps, 4)
	nh := rapid.IntRange(0, 2).Draw(s.t, "nHandlers")
	for i := 0; i < nh; i++ {
		h := rapid.SampledFrom(handlers).Draw(s.t, "handler")
		if s.avoided("alert." + h.name) {
			continue
		}
		s.dot()
		s.call(h.name, h.args)
		s.o.label("handler:" + h.name)
		s.cur = "alert." + h.name
		s.someProps(h.props, 2)
	}
	s.cur = "alert"
	if nh > 0 && s.pick(3, "alertTail") == 0 {
		s.someProps([]prop{{"crit", "l"}, {"warn", "l"}, {"stateChangesOnly", "d?"}, {"all", ""}, {"idTag", "n"}}, 2)
	}
}

var queries = []string{
	`SELECT mean("value") FROM "db"."rp"."cpu"`,
	`SELECT * FROM "telegraf"."autogen"."m" WHERE "host" = 'a'`,
	"SELECT count(v) FROM db.rp.m",
	"select 1",
}

func (s *sg) source() (edge string) {
	if s.edge == "stream" {
		s.id("stream")
		s.pipe()
		s.call("from", "")
		s.someProps(fromProps, 4)
		s.last = fromProps
		return "s"
	}
	s.id("batch")
	s.pipe()
	if s.pick(5, "flux") == 0 && !s.avoided("|queryFlux") {
		s.id("queryFlux")
		s.o.lparen()
		s.o.strLit("from(bucket: \"b\") |> range(start: -1m)", s.pick(2, "fluxTQ") == 0)
		s.o.rparen()
		s.someProps(queryFluxProps, 3)
		s.last = queryFluxProps
		return "b"
	}
	s.id("query")
	s.o.lparen()
	s.o.strLit(rapid.SampledFrom(queries).Draw(s.t, "query"), s.pick(2, "queryTQ") == 0)
	s.o.rparen()
	s.someProps(queryProps, 4)
	s.last = queryProps
	return "b"
}

func (s *sg) chain() {
	t := s.t
	asVar := s.pick(3, "chainVar") != 0
	name := ""
	if asVar {
		name = s.newName()
		s.kw("var")
		s.id(name)
		s.asgn()
	}
	var edge string
	s.stmt = !asVar
	s.last = nil
	if len(s.nodes) > 0 && s.pick(2, "fromVar") == 0 {
		nv := rapid.SampledFrom(s.nodes).Draw(t, "chainFrom")
		s.id(nv.name)
		edge = nv.edge
		s.o.label("chain:from-var")
		if len(nv.props) > 0 && s.pick(3, "propStmt") == 0 {
			// a property set on a node held in a var: w.period(10s)
			s.cur = nv.kind
			s.fromWhere = true // unknown: assume the node already has one
			s.someProps(nv.props, 2)
			s.o.label("chain:property-on-var")
		}
	} else {
		edge = s.source()
	}
	n := rapid.IntRange(0, 5).Draw(t, "chainLen")
	for i := 0; i < n && edge != "-"; i++ {
		edge = s.node(edge)
	}
	if asVar && edge != "-" {
		s.nodes = append(s.nodes, nodeVar{name, edge, s.last, s.cur})
	}
}

func genScriptWith(r *kit.Rec) func(t *rapid.T) ScriptCase {
	return func(t *rapid.T) ScriptCase { return genScript(r, t, "") }
}

// genPipelineWith: cases of the Pipeline unit; each case is checked against one law ("json" or "tick").
func genPipelineWith(r *kit.Rec) func(t *rapid.T) ScriptCase {
	return func(t *rapid.T) ScriptCase {
		law := rapid.SampledFrom([]string{"json", "tick"}).Draw(t, "law")
		return genScript(r, t, law)
	}
}

func genScript(r *kit.Rec, t *rapid.T, law string) ScriptCase {
	noise := rapid.SampledFrom([]int{0, 1, 1, 2}).Draw(t, "noise")
	comments := rapid.IntRange(0, 3).Draw(t, "comments") != 0
	if law != "" {
		// layout is the Script unit's subject
		noise, comments = 0, rapid.IntRange(0, 3).Draw(t, "comments") == 0
	}
	s := &sg{r: r, t: t, o: newOut(t, noise, comments), vars: map[string][]string{}, law: law, emptyRe: map[string]bool{}}
	s.o.exclude = r.Exclude
	s.edge = rapid.SampledFrom([]string{"stream", "stream", "batch"}).Draw(t, "edge")
	if rapid.IntRange(0, 9).Draw(t, "dbrp") == 0 {
		s.o.emit(tk{s: "dbrp", cls: "var"})
		db := rapid.SampledFrom([]string{"telegraf", "my db", "d.b", `q"db`}).Draw(t, "dbrpDB")
		if strings.Contains(db, `"`) && !off(classK9) {
			// K9: the formatter does not escape a double quote in a dbrp statement
			r.Exclude(classK9)
			db = "qdb"
		}
		s.o.emit(tk{s: encRef(db), cls: "lit-reference"})
		s.o.emit(tk{s: ".", cls: "dot"})
		s.o.emit(tk{s: encRef(rapid.SampledFrom([]string{"autogen", "rp one"}).Draw(t, "dbrpRP")), cls: "lit-reference"})
		s.o.label("stmt:dbrp")
	}
	nd := rapid.IntRange(0, 6).Draw(t, "nDecl")
	for i := 0; i < nd; i++ {
		s.declStatement()
	}
	nc := rapid.IntRange(1, 3).Draw(t, "nChains")
	for i := 0; i < nc; i++ {
		s.chain()
	}
	c := ScriptCase{Script: s.o.finish(), Edge: s.edge, Vars: s.tmpl, CmtAdj: s.o.cmtAdj, Mixed: s.mixed, Law: law}
	for l := range s.o.labels {
		c.Labels = append(c.Labels, l)
	}
	sort.Strings(c.Labels)
	return c
}
