package c13

import (
	"fmt"
	"strconv"
	"strings"
	"unicode/utf8"

	"pgregory.net/rapid"
)

// ---------------------------------------------------------------- expression trees

// Expr is a lambda / constant expression as data. The tree is the meaning; the rendered text
// adds only what the tree needs (parentheses required by precedence) plus noise.
type Expr struct {
	K  string  `json:"k"`            // bin un int flt str ref bool dur re call id star
	Op string  `json:"op,omitempty"` // operator text for bin/un
	V  string  `json:"v,omitempty"`  // int/flt/dur: source text; str/ref/re: value; call: function; id: name; bool: TRUE|FALSE
	A  []*Expr `json:"a,omitempty"`
	TQ bool    `json:"tq,omitempty"` // str: rendered with triple quotes
	P  int     `json:"p,omitempty"`  // redundant parenthesis pairs around this node in the text
}

var binPrec = map[string]int{
	"OR": 0, "AND": 1,
	"==": 2, "!=": 2, "=~": 2, "!~": 2,
	">": 3, ">=": 3, "<": 3, "<=": 3,
	"+": 4, "-": 4,
	"*": 5, "/": 5, "%": 5,
}

// needParens: does child c need parentheses as operand of parent p (left-associative
// binary operators; unary operators bind tighter than any binary operator).
func needParens(p *Expr, c *Expr, right bool) bool {
	if c.K != "bin" {
		return false
	}
	if p.K == "un" {
		return true
	}
	if p.K != "bin" {
		return false
	}
	pp, cp := binPrec[p.Op], binPrec[c.Op]
	if cp < pp || (cp == pp && right) {
		return true
	}
	// lexical requirement: after a regex literal the lexer recognises no binary operator other
	// than - AND OR, so `x =~ /re/ == y` must be written `(x =~ /re/) == y`
	if !right && (c.Op == "=~" || c.Op == "!~") && c.A[1].K == "re" && p.Op != "-" && p.Op != "AND" && p.Op != "OR" {
		return true
	}
	return false
}

// exprStats: number of binary/unary operators and number of distinct binary precedence levels.
func exprStats(e *Expr) (ops int, levels map[int]bool) {
	levels = map[int]bool{}
	var walk func(*Expr)
	walk = func(x *Expr) {
		if x == nil {
			return
		}
		switch x.K {
		case "bin":
			ops++
			levels[binPrec[x.Op]] = true
		case "un":
			ops++
		}
		for _, a := range x.A {
			walk(a)
		}
	}
	walk(e)
	return
}

func exprNeedsAnyParens(e *Expr) bool {
	if e == nil {
		return false
	}
	for i, a := range e.A {
		if (e.K == "bin" || e.K == "un") && needParens(e, a, i == 1) {
			return true
		}
		if exprNeedsAnyParens(a) {
			return true
		}
	}
	return false
}

func exprHas(e *Expr, f func(*Expr) bool) bool {
	if e == nil {
		return false
	}
	if f(e) {
		return true
	}
	for _, a := range e.A {
		if exprHas(a, f) {
			return true
		}
	}
	return false
}

// ---------------------------------------------------------------- token writer with layout noise

type tk struct {
	s   string
	cls string // class for labels: pipe dot at lparen rparen comma lbr rbr op kw ident lambda var lit-<kind> eof
	ncb bool   // no comment directly before this token (after a comment the lexer is in its
	// top-level state, where + * / % == != < > <= >= =~ !~ = are not recognised)
	nca bool // no comment directly after this token ('=', '=~', '!~': a following "//" is lexed as an empty regex)
}

type out struct {
	t        *rapid.T
	b        strings.Builder
	prev     tk
	have     bool
	noise    int // 0: canonical layout only, 1: some noise, 2: heavy noise
	comments bool
	labels   map[string]bool
	nComment int
	cmtAdj   bool           // a comment was placed directly before or after a literal
	ncbOps   map[*Expr]bool // binary nodes whose operator must not be preceded by a comment (known defect K7)
	noCmtIn  map[*Expr]bool // unary nodes inside whose operand no comment is placed (known defect K7)
	suppress int            // > 0: no comments
	exclude  func(class string)
}

func newOut(t *rapid.T, noise int, comments bool) *out {
	return &out{t: t, noise: noise, comments: comments, labels: map[string]bool{}}
}

func (o *out) label(l string) { o.labels[l] = true }

func wordy(r rune) bool {
	return r == '_' || r >= 0x80 || (r >= '0' && r <= '9') || (r >= 'a' && r <= 'z') || (r >= 'A' && r <= 'Z')
}

func needSpace(a, b string) bool {
	if a == "" || b == "" {
		return false
	}
	ra, _ := utf8.DecodeLastRuneInString(a)
	rb, _ := utf8.DecodeRuneInString(b)
	if wordy(ra) && wordy(rb) {
		return true
	}
	// "1" "." would glue into a float, ". 5"/".5" likewise; "lambda:" is one token already
	if (ra >= '0' && ra <= '9' && rb == '.') || (ra == '.' && rb >= '0' && rb <= '9') {
		return true
	}
	return false
}

var commentTexts = []string{"c", " c", "  spaced out  ", "", "/ slash", " 'quoted' \"ref\" /re/", " |pipe .dot()", " µ unicode ✓", " lambda: x", "\t tab"}

func (o *out) comment() string {
	t := o.t
	var sb strings.Builder
	n := 1
	switch rapid.IntRange(0, 9).Draw(t, "cmtShape") {
	case 0:
		n = 2
	case 1:
		n = 3
	}
	for i := 0; i < n; i++ {
		if i > 0 && rapid.IntRange(0, 3).Draw(t, "cmtBlank") == 0 {
			sb.WriteString("\n") // blank line inside a comment block
		}
		if i > 0 && rapid.Bool().Draw(t, "cmtIndent") {
			sb.WriteString("   ")
		}
		sb.WriteString("//" + rapid.SampledFrom(commentTexts).Draw(t, "cmtText") + "\n")
	}
	return sb.String()
}

// canonical separator between two tokens
func canonSep(a, b tk) string {
	switch {
	case a.cls == "lparen" || a.cls == "lbr" || b.cls == "rparen" || b.cls == "rbr" || b.cls == "comma":
		return ""
	case a.cls == "pipe" || a.cls == "dot" || a.cls == "at" || a.cls == "unop":
		return ""
	case b.cls == "lparen" && a.cls == "ident":
		return ""
	case b.cls == "pipe":
		return "\n    "
	case b.cls == "dot":
		return "\n        "
	case b.cls == "var" || b.cls == "stmt":
		return "\n"
	}
	return " "
}

func (o *out) sep(tok tk) string {
	a := o.prev
	def := canonSep(a, tok)
	if needSpace(a.s, tok.s) && def == "" {
		def = " "
	}
	if !o.have {
		def = ""
	}
	if o.noise == 0 && !o.comments {
		return def
	}
	hi := 99
	r := rapid.IntRange(0, hi).Draw(o.t, "sep")
	thr := 80
	if o.noise == 2 {
		thr = 40
	}
	if o.noise == 0 {
		thr = 92
	}
	if r < thr {
		return def
	}
	cmtOK := o.comments && !tok.ncb && !(o.have && a.nca) && o.suppress == 0
	if r >= 92 {
		if cmtOK {
			c := o.comment()
			o.nComment++
			before := a.cls
			if !o.have {
				before = "start"
			}
			o.label("cmt:after-" + before)
			o.label("cmt:before-" + tok.cls)
			if strings.HasPrefix(a.cls, "lit-") || strings.HasPrefix(tok.cls, "lit-") {
				o.cmtAdj = true
			}
			lead := " "
			if !o.have || rapid.Bool().Draw(o.t, "cmtOwnLine") {
				lead = "\n"
			}
			if !o.have {
				lead = ""
			}
			return lead + c + rapid.SampledFrom([]string{"", "  ", "\t", "        "}).Draw(o.t, "cmtTail")
		}
		return def
	}
	if o.noise == 0 {
		return def
	}
	alt := rapid.SampledFrom([]string{"", " ", "  ", "\n", "\n\t", "\n      ", "\t", " \n \n ", "\r\n", "\r\n  "}).Draw(o.t, "ws")
	if alt == "" && (needSpace(a.s, tok.s) || !o.have) {
		if !o.have {
			return ""
		}
		return " "
	}
	return alt
}

func (o *out) emit(tok tk) {
	o.b.WriteString(o.sep(tok))
	o.b.WriteString(tok.s)
	o.prev = tok
	o.have = true
}

func (o *out) finish() string {
	// trailing layout / comment at end of input
	if o.comments && rapid.IntRange(0, 9).Draw(o.t, "eofCmt") == 0 {
		o.b.WriteString("\n" + o.comment())
		o.label("cmt:before-eof")
		o.nComment++
	} else if o.noise > 0 {
		o.b.WriteString(rapid.SampledFrom([]string{"", "\n", " ", "\n\n"}).Draw(o.t, "eofWs"))
	}
	return o.b.String()
}

func (o *out) ident(s string) { o.emit(tk{s: s, cls: "ident"}) }
func (o *out) lparen()        { o.emit(tk{s: "(", cls: "lparen"}) }
func (o *out) rparen()        { o.emit(tk{s: ")", cls: "rparen"}) }
func (o *out) comma()         { o.emit(tk{s: ",", cls: "comma"}) }

// ---------------------------------------------------------------- literal source forms

func encSingle(v string) string { return "'" + strings.ReplaceAll(v, "'", `\'`) + "'" }
func encTriple(v string) string { return "'''" + v + "'''" }
func encRegex(p string) string  { return "/" + strings.ReplaceAll(p, "/", `\/`) + "/" }
func encRef(v string) string    { return `"` + strings.ReplaceAll(v, `"`, `\"`) + `"` }

func canSingle(v string) bool { return !strings.HasSuffix(v, `\`) }
func canTriple(v string) bool { return !strings.Contains(v, "'''") && !strings.HasSuffix(v, "'") }

func (o *out) strLit(v string, tq bool) {
	if tq && canTriple(v) {
		o.label("lit:str-triple")
		o.emit(tk{s: encTriple(v), cls: "lit-string"})
		return
	}
	if strings.Contains(v, "'") {
		o.label("lit:str-escaped-quote")
	}
	if strings.Contains(v, `\`) {
		o.label("lit:str-backslash")
	}
	if strings.Contains(v, "\n") {
		o.label("lit:str-newline")
	}
	if v == "" {
		o.label("lit:str-empty")
	}
	o.emit(tk{s: encSingle(v), cls: "lit-string"})
}

// renderExpr writes an expression; required parentheses are derived from the tree.
func (o *out) expr(e *Expr) {
	for i := 0; i < e.P; i++ {
		if e.K == "re" {
			// K10: a comment before a parenthesised regex is printed directly before the bare regex,
			// where the lexer takes the regex line as a continuation of the comment
			if o.comments && o.exclude != nil && !off(classK10) {
				o.exclude(classK10)
			}
			o.emit(tk{s: "(", cls: "lparen", ncb: !off(classK10)})
			o.label("lit:regex-parenthesised")
			continue
		}
		o.lparen()
		o.label("lambda:redundant-parens")
	}
	switch e.K {
	case "bin":
		o.operand(e, e.A[0], false)
		op := tk{s: e.Op, cls: "op", ncb: true}
		switch e.Op {
		case "-":
			op.ncb = false // '-' is lexed as an operator from every lexer state
		case "AND", "OR":
			op.ncb = false
			op.cls = "kw"
		case "=~", "!~":
			op.nca = true
		}
		if o.ncbOps[e] {
			op.ncb = true
		}
		o.label("op:" + e.Op)
		o.emit(op)
		o.operand(e, e.A[1], true)
	case "un":
		o.label("op:unary" + e.Op)
		o.emit(tk{s: e.Op, cls: "unop"})
		if o.noCmtIn[e] {
			o.suppress++
		}
		o.operand(e, e.A[0], false)
		if o.noCmtIn[e] {
			o.suppress--
		}
	case "int":
		if len(e.V) > 1 && e.V[0] == '0' {
			o.label("lit:int-octal")
		}
		o.emit(tk{s: e.V, cls: "lit-number"})
	case "flt":
		switch {
		case strings.HasPrefix(e.V, "."):
			o.label("lit:float-leading-dot")
		case strings.HasSuffix(e.V, "."):
			o.label("lit:float-trailing-dot")
		case len(e.V) > 1 && e.V[0] == '0' && e.V[1] != '.':
			o.label("lit:float-leading-zeros")
		}
		o.emit(tk{s: e.V, cls: "lit-number"})
	case "dur":
		u := strings.TrimLeft(e.V, "0123456789")
		o.label("lit:dur-" + u)
		o.emit(tk{s: e.V, cls: "lit-duration"})
	case "str":
		o.strLit(e.V, e.TQ)
	case "ref":
		if strings.Contains(e.V, `"`) {
			o.label("lit:ref-escaped-quote")
		}
		o.emit(tk{s: encRef(e.V), cls: "lit-reference"})
	case "bool":
		o.emit(tk{s: e.V, cls: "lit-bool"})
	case "re":
		if strings.Contains(e.V, "/") {
			o.label("lit:regex-escaped-slash")
		}
		// no comment directly before a regex: a comment line followed by a line starting with '/' is
		// lexed as one comment block (lexComment continues on any '/')
		// (K10, repaired: with the exclusion off a comment may precede a regex wherever the lexer expects an operand;
		// directly after =~ !~ = the previous token forbids it)
		o.emit(tk{s: encRegex(e.V), cls: "lit-regex", ncb: !off(classK10)})
	case "star":
		o.emit(tk{s: "*", cls: "lit-star"})
	case "id":
		o.label("lambda:var-reference")
		o.ident(e.V)
	case "call":
		o.label("lambda:call")
		o.ident(e.V)
		o.lparen()
		for i, a := range e.A {
			if i > 0 {
				o.comma()
			}
			o.expr(a)
		}
		o.rparen()
	default:
		panic("unknown expr kind " + e.K)
	}
	for i := 0; i < e.P; i++ {
		o.rparen()
	}
}

func (o *out) operand(p, c *Expr, right bool) {
	if needParens(p, c, right) && c.P == 0 {
		o.label("lambda:required-parens")
		o.lparen()
		o.expr(c)
		o.rparen()
		return
	}
	o.expr(c)
}

// ---------------------------------------------------------------- expression generators

var (
	intForms   = []string{"0", "1", "2", "3", "7", "10", "42", "100", "007", "010", "0644", "00", "9223372036854775807", "9007199254740993", "1000000"}
	fltForms   = []string{"0.0", "1.0", "0.5", ".5", "1.", "2.50", "001.50", "3.14159", "100000000000000000000.0", "0.000001", "1.0000000000000002", "00.0", "99.9"}
	durUnits   = []string{"u", "µ", "ms", "s", "m", "h", "d", "w"}
	durNums    = []string{"0", "1", "2", "5", "10", "30", "90", "010", "1000", "007"}
	strPool    = []string{"", "a", "value", "cpu", "it's", "'", "''", "a'b'c", `back\slash`, `\'`, `a\'b`, `tail\`, "two\nlines", "sp ace", "µ✓", `"dq"`, "{{ .ID }} is {{ .Level }}", "/slash/", "// not a comment", "x'''y", "SELECT mean(\"v\") FROM \"db\".\"rp\".\"m\"", `a\\`, "%", "tab\there"}
	refPool    = []string{"value", "usage_idle", "a", "b", "host", "m.v", "sp ace", `q"uote`, "µ", "count", "a-b", "x'y", `b\s`, "//c"}
	regexPool  = []string{".*", "^a", "a|b", `\d+`, "[a-z]+", "a/b", "^/var/(log|tmp)/", `\/esc`, "", "x{2,3}", `a\.b`, "(?i)host", "µ+", "//"}
	numFuncs1  = []string{"abs", "float", "int", "floor", "sqrt", "sigma"}
	strFuncs1  = []string{"strToUpper", "strToLower", "strTrimSpace"}
	boolFuncs2 = []string{"strContains", "strHasPrefix", "strHasSuffix"}
	identPool  = []string{"x", "crit", "threshold", "lambda", "v1", "a_b", "Über"}
)

// eg generates typed-looking expressions. vars: identifiers usable per type ("num", "bool", "str", "re", "dur").
type eg struct {
	t      *rapid.T
	vars   map[string][]string
	idents bool // free identifiers allowed (Lambda unit: ParseLambda does not resolve them)
	noParn bool // no redundant parentheses
	// known defect classes avoided by construction (Pipeline unit); count is called for every avoided draw
	noCalls  bool
	noBigInt bool
	noRegex  bool
	nonzero  bool              // no literal has the zero value of its type ("", 0, 0.0, 0s)
	badVars  map[string]string // var name -> known defect class: not referenced inside lambdas
	emptyRe  map[string]bool   // regex vars holding the empty regex (L2)
	inConcat int               // > 0: the literal is a piece of a constant string concatenation (L1)
	count    func(class string)
}

const (
	classK1  = "K1 JSON of a lambda: function call (the function name is not serialised)"
	classK12 = "K12 JSON of a lambda: function call without arguments (\"args\": null cannot be read back)"
	classK4  = "K4 JSON of a lambda: integer literal beyond 2^53 (decoded through float64)"
	classK10 = "K10 comment directly before a parenthesised regex literal (the formatter drops the parentheses; the regex line is then lexed as part of the comment)"
	classK5  = "K5 format of an AST built without the parser: string ending in a backslash (needs triple quotes, StringNode.TripleQuotes unset)"
	classK2  = "K2 format of an AST built without the parser: regex literal (RegexNode.Literal unset prints //)"
	classT3  = "T3 pipeline/tick: a lambda var referenced inside a lambda is rendered as a nested 'lambda:' (unparseable)"
	classT1  = "T1 pipeline/tick drops arguments that have the zero value of their type (and a node or property whose arguments are all zero)"
)

func (g *eg) zero(e *Expr, repl string) *Expr {
	if !g.nonzero || off(classT1) {
		return e
	}
	z := false
	switch e.K {
	case "int":
		v, _, err := intValue(e.V)
		z = err == nil && v == 0
	case "flt":
		f, err := strconv.ParseFloat(e.V, 64)
		z = err == nil && f == 0
	case "dur":
		d, err := durValue(e.V)
		z = err == nil && d == 0
	case "str":
		z = e.V == ""
	}
	if z {
		if g.count != nil {
			g.count(classT1)
		}
		e.V = repl
	}
	return e
}

func (g *eg) filter(e *Expr) *Expr {
	if g.noCalls && e.K == "call" && !off(classK1) {
		if g.count != nil {
			g.count(classK1)
		}
		return g.ref()
	}
	// redundant parentheses around a primary that is not an operator node: ("a"), (1), (f(x))
	if !g.noParn && e.P == 0 && e.K != "bin" && e.K != "un" && e.K != "re" && rapid.IntRange(0, 19).Draw(g.t, "leafParens") == 0 {
		e.P = 1
	}
	return e
}

func (g *eg) num(d int) *Expr     { return g.filter(g.num0(d)) }
func (g *eg) str(d int) *Expr     { return g.filter(g.str0(d)) }
func (g *eg) boolean(d int) *Expr { return g.filter(g.boolean0(d)) }

func (g *eg) paren(e *Expr) *Expr {
	if g.noParn {
		return e
	}
	switch rapid.IntRange(0, 11).Draw(g.t, "rp") {
	case 0:
		e.P = 1
	case 1:
		if e.K == "bin" {
			e.P = 2
		}
	}
	return e
}

func (g *eg) pickVar(typ string) *Expr {
	vs := g.vars[typ]
	if len(vs) > 0 && rapid.IntRange(0, 2).Draw(g.t, "useVar") == 0 {
		v := rapid.SampledFrom(vs).Draw(g.t, "var")
		if class, bad := g.badVars[v]; bad && !off(class) {
			if g.count != nil {
				g.count(class)
			}
			return nil
		}
		return &Expr{K: "id", V: v}
	}
	return nil
}

func (g *eg) intLit() *Expr {
	e := &Expr{K: "int", V: rapid.SampledFrom(intForms).Draw(g.t, "int")}
	if g.noBigInt && isBigInt(e) && !off(classK4) {
		if g.count != nil {
			g.count(classK4)
		}
		e.V = "42"
	}
	return g.zero(e, "7")
}
func (g *eg) fltLit() *Expr {
	return g.zero(&Expr{K: "flt", V: rapid.SampledFrom(fltForms).Draw(g.t, "flt")}, "0.25")
}
func (g *eg) durLit() *Expr {
	return g.zero(&Expr{K: "dur", V: rapid.SampledFrom(durNums).Draw(g.t, "durN") + rapid.SampledFrom(durUnits).Draw(g.t, "durU")}, "3m")
}
func (g *eg) strLit() *Expr {
	v := rapid.SampledFrom(strPool).Draw(g.t, "str")
	if g.nonzero && g.inConcat > 0 && strings.HasSuffix(v, `\`) {
		if g.count != nil {
			g.count(classL1)
		}
		v += "x"
	}
	if g.nonzero && strings.HasSuffix(v, `\`) && !off(classK5) {
		if g.count != nil {
			g.count(classK5)
		}
		v += "x"
	}
	tq := rapid.IntRange(0, 3).Draw(g.t, "tq") == 0
	if !canSingle(v) {
		tq = true
	}
	if tq && !canTriple(v) {
		tq = false
	}
	if !tq && !canSingle(v) {
		v = v + "x"
	}
	return g.zero(&Expr{K: "str", V: v, TQ: tq}, "nz")
}
func (g *eg) ref() *Expr { return &Expr{K: "ref", V: rapid.SampledFrom(refPool).Draw(g.t, "ref")} }

// regex: the empty pattern can only be written directly after =~ !~ = (elsewhere "//" starts a comment)
func (g *eg) regex(allowEmpty bool) *Expr {
	v := rapid.SampledFrom(regexPool).Draw(g.t, "re")
	if v == "" && !allowEmpty {
		v = "x"
	}
	e := &Expr{K: "re", V: v}
	if !g.noParn && v != "" && rapid.IntRange(0, 7).Draw(g.t, "reParens") == 0 {
		e.P = 1 // (/re/): legal, the formatter drops the parentheses
	}
	return e
}

func (g *eg) num0(d int) *Expr {
	t := g.t
	if v := g.pickVar("num"); v != nil {
		return v
	}
	lo := 0
	if d >= 2 {
		lo = 5 // composite near the root
	}
	k := rapid.IntRange(lo, 11).Draw(t, "numK")
	if d <= 0 && k >= 5 {
		k = k % 5
	}
	switch k {
	case 0, 1:
		return g.ref()
	case 2:
		return g.intLit()
	case 3:
		return g.fltLit()
	case 4:
		if g.idents && rapid.Bool().Draw(t, "freeId") {
			return &Expr{K: "id", V: rapid.SampledFrom(identPool).Draw(t, "ident")}
		}
		return g.ref()
	case 5, 6, 7, 8:
		op := rapid.SampledFrom([]string{"+", "-", "*", "/", "%", "+", "-", "*"}).Draw(t, "arith")
		return g.paren(&Expr{K: "bin", Op: op, A: []*Expr{g.num(d - 1), g.num(d - 1)}})
	case 9:
		return g.paren(&Expr{K: "un", Op: "-", A: []*Expr{g.num(d - 1)}})
	case 10:
		return &Expr{K: "call", V: rapid.SampledFrom(numFuncs1).Draw(t, "fn"), A: []*Expr{g.num(d - 1)}}
	default:
		switch rapid.IntRange(0, 2).Draw(t, "numCall") {
		case 0:
			return &Expr{K: "call", V: "if", A: []*Expr{g.boolean(d - 1), g.num(d - 1), g.num(d - 1)}}
		case 1:
			return &Expr{K: "call", V: "strLength", A: []*Expr{g.str(d - 1)}}
		default:
			return &Expr{K: "call", V: "count", A: nil}
		}
	}
}

func (g *eg) str0(d int) *Expr {
	t := g.t
	if v := g.pickVar("str"); v != nil {
		return v
	}
	lo := 0
	if d >= 2 {
		lo = 4
	}
	k := rapid.IntRange(lo, 7).Draw(t, "strK")
	if d <= 0 && k >= 4 {
		k = k % 4
	}
	switch k {
	case 0, 1:
		return g.strLit()
	case 2, 3:
		return g.ref()
	case 4, 5:
		return g.paren(&Expr{K: "bin", Op: "+", A: []*Expr{g.str(d - 1), g.str(d - 1)}})
	case 6:
		return &Expr{K: "call", V: rapid.SampledFrom(strFuncs1).Draw(t, "sfn"), A: []*Expr{g.str(d - 1)}}
	default:
		if rapid.Bool().Draw(t, "strCall") {
			return &Expr{K: "call", V: "string", A: []*Expr{g.num(d - 1)}}
		}
		return &Expr{K: "call", V: "regexReplace", A: []*Expr{g.str(d - 1), g.regexOrVar(false), g.strLit()}}
	}
}

func (g *eg) regexOrVar(allowEmpty bool) *Expr {
	if v := g.pickVar("re"); v != nil {
		if !allowEmpty && g.nonzero && g.emptyRe[v.V] {
			if g.count != nil {
				g.count(classL2)
			}
		} else {
			return v
		}
	}
	return g.regex(allowEmpty)
}

func (g *eg) boolean0(d int) *Expr {
	t := g.t
	if v := g.pickVar("bool"); v != nil {
		return v
	}
	lo := 0
	if d >= 2 {
		lo = 3
	}
	k := rapid.IntRange(lo, 13).Draw(t, "boolK")
	if d <= 0 {
		k = k % 4
	}
	switch k {
	case 0:
		return &Expr{K: "bool", V: rapid.SampledFrom([]string{"TRUE", "FALSE"}).Draw(t, "b")}
	case 1:
		return g.ref()
	case 2:
		return &Expr{K: "call", V: "isPresent", A: []*Expr{g.ref()}}
	case 3:
		op := rapid.SampledFrom([]string{"==", "!=", "<", ">", "<=", ">="}).Draw(t, "cmp")
		return g.paren(&Expr{K: "bin", Op: op, A: []*Expr{g.num(0), g.num(0)}})
	case 4, 5, 6:
		op := rapid.SampledFrom([]string{"==", "!=", "<", ">", "<=", ">="}).Draw(t, "cmp")
		if rapid.IntRange(0, 3).Draw(t, "cmpT") == 0 {
			if rapid.Bool().Draw(t, "cmpDur") {
				return g.paren(&Expr{K: "bin", Op: op, A: []*Expr{g.ref(), g.dur()}})
			}
			return g.paren(&Expr{K: "bin", Op: op, A: []*Expr{g.str(d - 1), g.str(d - 1)}})
		}
		return g.paren(&Expr{K: "bin", Op: op, A: []*Expr{g.num(d - 1), g.num(d - 1)}})
	case 7:
		op := rapid.SampledFrom([]string{"=~", "!~"}).Draw(t, "rop")
		return g.paren(&Expr{K: "bin", Op: op, A: []*Expr{g.str(d - 1), g.regexOrVar(true)}})
	case 8, 9, 10:
		op := rapid.SampledFrom([]string{"AND", "OR"}).Draw(t, "lop")
		return g.paren(&Expr{K: "bin", Op: op, A: []*Expr{g.boolean(d - 1), g.boolean(d - 1)}})
	case 11:
		return g.paren(&Expr{K: "un", Op: "!", A: []*Expr{g.boolean(d - 1)}})
	case 12:
		// comparison chains and comparisons of comparisons: (a < b) == (c < d), a == b == c
		op := rapid.SampledFrom([]string{"==", "!=", "<", ">"}).Draw(t, "cmp2")
		return g.paren(&Expr{K: "bin", Op: op, A: []*Expr{g.boolean(d - 1), g.boolean(d - 1)}})
	default:
		return &Expr{K: "call", V: rapid.SampledFrom(boolFuncs2).Draw(t, "bfn"), A: []*Expr{g.str(d - 1), g.str(d - 1)}}
	}
}

func (g *eg) dur() *Expr {
	if v := g.pickVar("dur"); v != nil {
		return v
	}
	return g.durLit()
}

// any: an expression of a random root type
func (g *eg) any(d int) *Expr {
	switch rapid.IntRange(0, 5).Draw(g.t, "rootT") {
	case 0, 1, 2:
		return g.boolean(d)
	case 3, 4:
		return g.num(d)
	default:
		return g.str(d)
	}
}

func exprString(e *Expr) string {
	if e == nil {
		return "<nil>"
	}
	switch e.K {
	case "bin":
		return "(" + exprString(e.A[0]) + " " + e.Op + " " + exprString(e.A[1]) + ")"
	case "un":
		return "(" + e.Op + " " + exprString(e.A[0]) + ")"
	case "call":
		var as []string
		for _, a := range e.A {
			as = append(as, exprString(a))
		}
		return fmt.Sprintf("%s(%s)", e.V, strings.Join(as, ", "))
	default:
		return e.K + ":" + e.V
	}
}
