package c13

import (
	"crypto/sha256"
	"encoding/hex"
	"encoding/json"
	"fmt"
	"reflect"
	"regexp"
	"sort"
	"strconv"
	"strings"
	"time"

	"github.com/influxdata/kapacitor/pipeline"
	"github.com/influxdata/kapacitor/tick"
	"github.com/influxdata/kapacitor/tick/ast"
	"github.com/influxdata/kapacitor/tick/stateful"
)

// deadman is the DeadmanService handed to CreatePipeline (not global; the id/message
// templates do not contain the NODE_NAME marker so that no node id leaks into properties).
type deadman struct{}

func (deadman) Interval() time.Duration { return 10 * time.Second }
func (deadman) Threshold() float64      { return 0 }
func (deadman) Id() string              { return "deadman-id" }
func (deadman) Message() string         { return "deadman INTERVAL" }
func (deadman) Global() bool            { return false }

// VarSpec is one predefined (template) var handed to CreatePipeline.
type VarSpec struct {
	Name string   `json:"name"`
	Type string   `json:"type"` // int float bool string regex duration lambda list star
	Val  string   `json:"val"`  // textual value (lambda: expression text; regex: pattern; duration: ns)
	List []string `json:"list,omitempty"`
}

func buildVars(vs []VarSpec) (map[string]tick.Var, error) {
	if len(vs) == 0 {
		return nil, nil
	}
	m := map[string]tick.Var{}
	for _, v := range vs {
		var tv tick.Var
		switch v.Type {
		case "int":
			i, err := strconv.ParseInt(v.Val, 10, 64)
			if err != nil {
				return nil, err
			}
			tv = tick.Var{Type: ast.TInt, Value: i}
		case "float":
			f, err := strconv.ParseFloat(v.Val, 64)
			if err != nil {
				return nil, err
			}
			tv = tick.Var{Type: ast.TFloat, Value: f}
		case "bool":
			tv = tick.Var{Type: ast.TBool, Value: v.Val == "true"}
		case "string":
			tv = tick.Var{Type: ast.TString, Value: v.Val}
		case "regex":
			re, err := regexp.Compile(v.Val)
			if err != nil {
				return nil, err
			}
			tv = tick.Var{Type: ast.TRegex, Value: re}
		case "duration":
			i, err := strconv.ParseInt(v.Val, 10, 64)
			if err != nil {
				return nil, err
			}
			tv = tick.Var{Type: ast.TDuration, Value: time.Duration(i)}
		case "lambda":
			l, err := ast.ParseLambda(v.Val)
			if err != nil {
				return nil, err
			}
			tv = tick.Var{Type: ast.TLambda, Value: l}
		case "list":
			var l []tick.Var
			for _, s := range v.List {
				l = append(l, tick.Var{Type: ast.TString, Value: s})
			}
			tv = tick.Var{Type: ast.TList, Value: l}
		case "star":
			tv = tick.Var{Type: ast.TStar, Value: &ast.StarNode{}}
		default:
			return nil, fmt.Errorf("unknown var type %q", v.Type)
		}
		m[v.Name] = tv
	}
	return m, nil
}

// create runs the real definition path of a task script: pipeline.CreatePipeline on a
// fresh scope. A panic that escapes CreatePipeline is reported as an error whose text
// starts with "panic:" (crashes are C05's subject; here they only matter as a difference).
func create(script, edge string, vars []VarSpec) (p *pipeline.Pipeline, err error) {
	defer func() {
		if r := recover(); r != nil {
			p, err = nil, fmt.Errorf("panic: %v", r)
		}
	}()
	pv, err := buildVars(vars)
	if err != nil {
		return nil, err
	}
	et := pipeline.StreamEdge
	if edge == "batch" {
		et = pipeline.BatchEdge
	}
	return pipeline.CreatePipeline(script, et, stateful.NewScope(), deadman{}, pv)
}

// ---------------------------------------------------------------- reflective dump

var (
	lambdaType = reflect.TypeOf((*ast.LambdaNode)(nil))
	regexType  = reflect.TypeOf((*regexp.Regexp)(nil))
	nodeIface  = reflect.TypeOf((*pipeline.Node)(nil)).Elem()
	astIface   = reflect.TypeOf((*ast.Node)(nil)).Elem()
	durType    = reflect.TypeOf(time.Duration(0))
)

type dumper struct {
	b       strings.Builder
	visited map[uintptr]bool
	nodeRef func(pipeline.Node) (string, bool) // how a reference to another pipeline node is printed (false: not a node of the pipeline)
	skip    map[string]bool                    // exported struct fields left out of the dump (argsOnly view of InfluxQL function nodes)
}

func (d *dumper) value(v reflect.Value, tagged bool) {
	if !v.IsValid() {
		d.b.WriteString("nil")
		return
	}
	t := v.Type()
	switch v.Kind() {
	case reflect.Ptr:
		if v.IsNil() {
			d.b.WriteString("nil")
			return
		}
		if t == lambdaType && v.CanInterface() {
			d.b.WriteString(pp(v.Interface().(*ast.LambdaNode)))
			return
		}
		if t == regexType && v.CanInterface() {
			d.b.WriteString("regexp:" + strconv.Quote(v.Interface().(*regexp.Regexp).String()))
			return
		}
		if t.Implements(astIface) && v.CanInterface() {
			d.b.WriteString("ast:" + pp(v.Interface().(ast.Node)))
			return
		}
		if t.Implements(nodeIface) && v.CanInterface() && d.nodeRef != nil {
			// alert handlers also satisfy pipeline.Node (through their embedded *AlertNodeData):
			// only pointers that are nodes of the pipeline are printed as references
			if s, ok := d.nodeRef(v.Interface().(pipeline.Node)); ok {
				d.b.WriteString("node:" + s)
				return
			}
		}
		if d.visited[v.Pointer()] {
			d.b.WriteString("<seen>")
			return
		}
		d.visited[v.Pointer()] = true
		d.b.WriteString("&")
		d.value(v.Elem(), false)
	case reflect.Interface:
		if v.IsNil() {
			d.b.WriteString("nil")
			return
		}
		d.value(v.Elem(), true)
	case reflect.Struct:
		d.b.WriteString(t.Name() + "{")
		d.fields(v)
		d.b.WriteString("}")
	case reflect.Slice, reflect.Array:
		d.b.WriteString("[")
		for i := 0; i < v.Len(); i++ {
			if i > 0 {
				d.b.WriteString(" ")
			}
			d.value(v.Index(i), false)
		}
		d.b.WriteString("]")
	case reflect.Map:
		type kv struct{ k, v string }
		var kvs []kv
		it := v.MapRange()
		for it.Next() {
			kd := &dumper{visited: d.visited, nodeRef: d.nodeRef, skip: d.skip}
			kd.value(it.Key(), false)
			vd := &dumper{visited: d.visited, nodeRef: d.nodeRef, skip: d.skip}
			vd.value(it.Value(), false)
			kvs = append(kvs, kv{kd.b.String(), vd.b.String()})
		}
		sort.Slice(kvs, func(i, j int) bool { return kvs[i].k < kvs[j].k })
		d.b.WriteString("map[")
		for i, e := range kvs {
			if i > 0 {
				d.b.WriteString(" ")
			}
			d.b.WriteString(e.k + ":" + e.v)
		}
		d.b.WriteString("]")
	case reflect.Func, reflect.Chan, reflect.UnsafePointer:
		d.b.WriteString("-")
	case reflect.Bool:
		d.b.WriteString(strconv.FormatBool(v.Bool()))
	case reflect.Int, reflect.Int8, reflect.Int16, reflect.Int32, reflect.Int64:
		if tagged || t == durType {
			d.b.WriteString(t.String() + ":")
		}
		d.b.WriteString(strconv.FormatInt(v.Int(), 10))
	case reflect.Uint, reflect.Uint8, reflect.Uint16, reflect.Uint32, reflect.Uint64:
		if tagged {
			d.b.WriteString(t.String() + ":")
		}
		d.b.WriteString(strconv.FormatUint(v.Uint(), 10))
	case reflect.Float32, reflect.Float64:
		// floats are compared bit-exactly (shortest round-trip representation)
		if tagged {
			d.b.WriteString(t.String() + ":")
		}
		d.b.WriteString(strconv.FormatFloat(v.Float(), 'g', -1, 64))
	case reflect.String:
		if tagged {
			d.b.WriteString(t.String() + ":")
		}
		d.b.WriteString(strconv.Quote(v.String()))
	default:
		d.b.WriteString("?" + t.String())
	}
}

func (d *dumper) fields(v reflect.Value) {
	t := v.Type()
	for i := 0; i < t.NumField(); i++ {
		f := t.Field(i)
		fv := v.Field(i)
		if f.Anonymous {
			// embedded: node/chainnode (unexported structs holding the exported Quiet flag)
			// or the back pointer of an alert handler to its AlertNodeData (skipped when seen).
			switch fv.Kind() {
			case reflect.Struct:
				d.fields(fv)
			case reflect.Ptr:
				if fv.IsNil() || d.visited[fv.Pointer()] {
					continue
				}
				d.visited[fv.Pointer()] = true
				if fv.Elem().Kind() == reflect.Struct {
					d.fields(fv.Elem())
				}
			}
			continue
		}
		if f.PkgPath != "" || f.Name == "_" { // unexported
			continue
		}
		if fv.Kind() == reflect.Func {
			continue
		}
		if d.skip[f.Name] {
			continue
		}
		d.b.WriteString(f.Name + "=")
		d.value(fv, false)
		d.b.WriteString(" ")
	}
}

func isNoOp(n pipeline.Node) bool {
	_, ok := n.(*pipeline.NoOpNode)
	return ok
}

// hasCallParameters: an InfluxQL function node whose call takes parameters besides the field
// (percentile, top/bottom, movingAverage, elapsed, holtWinters): the parameters are kept twice, as
// literals in the exported Args list and inside the closures of its reducers.
func hasCallParameters(n pipeline.Node) bool {
	q, ok := n.(*pipeline.InfluxQLNode)
	return ok && len(q.Args) > 0
}

// nodeProps dumps a node. argsOnly: of an InfluxQL function node with call parameters only what the
// pipeline itself holds as data is dumped (type, edges, Method, Field, As, PointTimes and the Args
// list with the dynamic type of every argument); the copies of the parameters inside the reducers
// (the reducer probe, ReduceCreater.TopBottomCallInfo) are left out. That is the view under which
// the pipeline JSON law is checked while defect class J8 (reducers rebuilt with zero parameters) is open.
func nodeProps(n pipeline.Node, ref func(pipeline.Node) (string, bool), argsOnly bool) string {
	d := &dumper{visited: map[uintptr]bool{}, nodeRef: ref}
	argsOnly = argsOnly && hasCallParameters(n)
	if argsOnly {
		d.skip = map[string]bool{"TopBottomCallInfo": true}
	}
	rv := reflect.ValueOf(n)
	if rv.Kind() == reflect.Ptr && !rv.IsNil() {
		d.visited[rv.Pointer()] = true
		rv = rv.Elem()
	}
	d.b.WriteString(fmt.Sprintf("%T wants=%v provides=%v quiet=%v ", n, n.Wants(), n.Provides(), n.IsQuiet()))
	d.value(rv, false)
	if q, ok := n.(*pipeline.InfluxQLNode); ok && !argsOnly {
		d.b.WriteString(" Probe=" + reducerProbe(q))
	}
	return d.b.String()
}

// Fingerprint of a pipeline.
type Fingerprint struct {
	Strict  string // DOT + pipeline JSON + per-node dump in walk order (names and ids included)
	Canon   string // id-independent: multiset of node signatures (type, properties, ordered parent signatures)
	CanonA  string // Canon with InfluxQL function nodes that have call parameters dumped argsOnly (see nodeProps); == Canon if there is no such node
	Nodes   int
	Kinds   []string
	Mutated string // non-empty: json.Marshal(pipeline) changed the pipeline's own nodes (first difference of the dumps)
}

func safeJSON(p *pipeline.Pipeline) (s string) {
	defer func() {
		if r := recover(); r != nil {
			s = fmt.Sprintf("json-panic: %v", r)
		}
	}()
	b, err := json.Marshal(p)
	if err != nil {
		return "json-error: " + err.Error()
	}
	return string(b)
}

func names(ns []pipeline.Node) string {
	var s []string
	for _, n := range ns {
		s = append(s, n.Name())
	}
	return "[" + strings.Join(s, " ") + "]"
}

func fingerprint(p *pipeline.Pipeline) (fp Fingerprint) {
	var sb strings.Builder
	var nodes []pipeline.Node
	_ = p.Walk(func(n pipeline.Node) error {
		nodes = append(nodes, n)
		return nil
	})
	isNode := map[pipeline.Node]bool{}
	for _, n := range nodes {
		isNode[n] = true
	}
	// canonical form. Parents()/Children() hand out pointers to the embedded base struct of a node
	// (linkChild is a method of the embedded `node`): they are mapped back to the full nodes.
	full := map[uintptr]pipeline.Node{}
	for _, n := range nodes {
		if a := baseAddr(n); a != 0 {
			full[a] = n
		}
	}
	resolve := func(q pipeline.Node) pipeline.Node {
		if isNode[q] {
			return q
		}
		v := reflect.ValueOf(q)
		if v.Kind() == reflect.Ptr {
			if n, ok := full[v.Pointer()]; ok {
				return n
			}
		}
		return q
	}
	dump := func() string {
		var db strings.Builder
		for _, n := range nodes {
			db.WriteString(fmt.Sprintf("%s id=%d desc=%s parents=%s children=%s :: ", n.Name(), n.ID(), n.Desc(), names(n.Parents()), names(n.Children())))
			db.WriteString(nodeProps(n, func(o pipeline.Node) (string, bool) {
				o = resolve(o)
				if !isNode[o] {
					return "", false // e.g. an alert handler (its back pointer is nil after Unmarshal)
				}
				return o.Name(), true
			}, false))
			db.WriteString("\n")
		}
		return db.String()
	}
	for _, n := range nodes {
		fp.Kinds = append(fp.Kinds, n.Desc())
	}
	// the dump is taken before the pipeline is marshalled: MarshalJSON is not free of side effects
	before := dump()
	fp.Nodes = len(nodes)
	defer func() {
		sb.WriteString("DOT:\n" + string(p.Dot("t")) + "\nJSON:\n" + safeJSON(p) + "\nNODES:\n" + before)
		fp.Strict = sb.String()
		if after := dump(); after != before {
			fp.Mutated = firstDiff(before, after)
		}
	}()

	canon := func(argsOnly bool) string {
		sig := map[pipeline.Node]string{}
		var sigOf func(n pipeline.Node) string
		busy := map[pipeline.Node]bool{}
		sigOf = func(n pipeline.Node) string {
			if s, ok := sig[n]; ok {
				return s
			}
			if busy[n] {
				return "<cycle>"
			}
			busy[n] = true
			var ps []string
			for _, q := range n.Parents() {
				ps = append(ps, short(sigOf(resolve(q))))
			}
			if _, ok := n.(*pipeline.UnionNode); ok {
				sort.Strings(ps) // a union is a pass-through of all its parents: their order carries no meaning
			}
			s := nodeProps(n, func(o pipeline.Node) (string, bool) {
				o = resolve(o)
				if !isNode[o] {
					return "", false
				}
				return short(sigOf(o)), true
			}, argsOnly) + " <- [" + strings.Join(ps, " ") + "]"
			busy[n] = false
			sig[n] = s
			return s
		}
		var all []string
		for _, n := range nodes {
			if isNoOp(n) {
				continue
			}
			all = append(all, short(sigOf(n))+" = "+sigOf(n))
		}
		sort.Strings(all)
		return strings.Join(all, "\n")
	}
	fp.Canon = canon(false)
	fp.CanonA = fp.Canon
	for _, n := range nodes {
		if hasCallParameters(n) {
			fp.CanonA = canon(true)
			break
		}
	}
	return fp
}

func short(s string) string {
	h := sha256.Sum256([]byte(s))
	return hex.EncodeToString(h[:5])
}

// firstDiff renders the first differing line of two multi-line strings.
func firstDiff(a, b string) string {
	la, lb := strings.Split(a, "\n"), strings.Split(b, "\n")
	for i := 0; i < len(la) || i < len(lb); i++ {
		var x, y string
		if i < len(la) {
			x = la[i]
		}
		if i < len(lb) {
			y = lb[i]
		}
		if x != y {
			return fmt.Sprintf("line %d:\n  - %s\n  + %s", i+1, clip(x, 1500), clip(y, 1500))
		}
	}
	return "(no difference)"
}

func clip(s string, n int) string {
	if len(s) > n {
		return s[:n] + "…"
	}
	return s
}

// canonDiff explains the difference of two canonical fingerprints: first the node
// descriptions (type + properties, parents left out) present on one side only, and if the
// nodes are the same, the full lines (wiring differences).
func canonDiff(a, b string) string {
	local := func(l string) string {
		if i := strings.Index(l, " = "); i >= 0 {
			l = l[i+3:]
		}
		if i := strings.LastIndex(l, " <- ["); i >= 0 {
			l = l[:i]
		}
		return l
	}
	diff := func(x, y []string) (onlyX []string) {
		m := map[string]int{}
		for _, l := range y {
			m[l]++
		}
		for _, l := range x {
			if m[l] > 0 {
				m[l]--
				continue
			}
			onlyX = append(onlyX, l)
		}
		return
	}
	la, lb := strings.Split(a, "\n"), strings.Split(b, "\n")
	var xa, xb []string
	for _, l := range la {
		xa = append(xa, local(l))
	}
	for _, l := range lb {
		xb = append(xb, local(l))
	}
	oa, ob := diff(xa, xb), diff(xb, xa)
	if len(oa)+len(ob) == 0 {
		oa, ob = diff(la, lb), diff(lb, la)
	}
	var sb strings.Builder
	for i := 0; i < len(oa) || i < len(ob); i++ {
		var x, y string
		if i < len(oa) {
			x = oa[i]
		}
		if i < len(ob) {
			y = ob[i]
		}
		sb.WriteString("\n  - " + clip(x, 6000) + "\n  + " + clip(y, 6000) + "\n    " + fieldDiff(x, y))
		if i >= 2 {
			break
		}
	}
	return sb.String()
}

// canonFirstPair returns the first pair of differing node lines of two canonical fingerprints (see canonDiff).
func canonFirstPair(a, b string) (x, y string) {
	d := canonDiff(a, b)
	ls := strings.Split(d, "\n")
	for _, l := range ls {
		if strings.HasPrefix(l, "  - ") && x == "" {
			x = strings.TrimPrefix(l, "  - ")
		}
		if strings.HasPrefix(l, "  + ") {
			y = strings.TrimPrefix(l, "  + ")
			break
		}
	}
	strip := func(l string) string {
		// wiring mode lines carry "<sig> = " and " <- [..]": keep the node description
		if i := strings.Index(l, " = *pipeline."); i >= 0 && i < 12 {
			l = l[i+3:]
		}
		return l
	}
	return strip(x), strip(y)
}

// fieldDiff points at the first differing position of two one-line dumps.
func fieldDiff(x, y string) string {
	i := 0
	for i < len(x) && i < len(y) && x[i] == y[i] {
		i++
	}
	lo := i - 40
	if lo < 0 {
		lo = 0
	}
	hx, hy := i+60, i+60
	if hx > len(x) {
		hx = len(x)
	}
	if hy > len(y) {
		hy = len(y)
	}
	return fmt.Sprintf("at %d: …%s… vs …%s…", i, x[lo:hx], y[lo:hy])
}

// baseAddr is the address of the `node` struct embedded (possibly through chainnode / AlertNodeData) in a pipeline node.
func baseAddr(n pipeline.Node) uintptr {
	var find func(v reflect.Value, depth int) uintptr
	find = func(v reflect.Value, depth int) uintptr {
		for v.Kind() == reflect.Ptr || v.Kind() == reflect.Interface {
			if v.IsNil() {
				return 0
			}
			v = v.Elem()
		}
		if v.Kind() != reflect.Struct || depth > 4 {
			return 0
		}
		t := v.Type()
		if t.Name() == "node" && t.PkgPath() == "github.com/influxdata/kapacitor/pipeline" && v.CanAddr() {
			return v.UnsafeAddr()
		}
		for i := 0; i < t.NumField(); i++ {
			if t.Field(i).Anonymous {
				if a := find(v.Field(i), depth+1); a != 0 {
					return a
				}
			}
		}
		return 0
	}
	return find(reflect.ValueOf(n), 0)
}
