// C13 — formatting and re-serialising a TICKscript never changes the task it defines.
//
// Units:
//
//	Script   grammar-generated task scripts: fp(format(s)) == fp(s), format stable after <= 1 further pass
//	Lambda   generated lambda ASTs: JSON round trip, Format -> re-parse
//	Pipeline accepted scripts: pipeline JSON round trip, pipeline -> pipeline/tick AST -> script round trip
//
// fp = DOT graph + pipeline JSON + reflective dump of every node's exported properties with
// lambdas printed by the check's own fully-parenthesising printer (printer_test.go).
package c13

import (
	"encoding/json"
	"fmt"
	"regexp"
	"sort"
	"strings"
	"testing"
	"unicode/utf8"

	"verifharness/kit"

	"github.com/influxdata/kapacitor/pipeline"
	ptick "github.com/influxdata/kapacitor/pipeline/tick"
	"github.com/influxdata/kapacitor/tick"
	"github.com/influxdata/kapacitor/tick/ast"
	"pgregory.net/rapid"
)

const ruleScript = "rapid grammar generator of task scripts (node chains from a table of node kinds x property argument types, var/template declarations, " +
	"literal source forms, comments and layout noise at token boundaries, typed-looking lambdas with every operator); scripts rejected by pipeline.CreatePipeline are discarded (label 'rejected'); " +
	"non-trivial = accepted script with (>= 3 pipeline nodes and a lambda with >= 2 binary operators of different precedence) or a comment directly before/after a literal; distinct by case hash"

var assumptionsScript = []string{
	"a script 'defines a task' iff pipeline.CreatePipeline (the definition path of the task store) accepts it on a fresh scope; lambdas are not type-checked at definition time and neither are they here",
	"scripts are valid UTF-8 (the HTTP API decodes JSON, which cannot deliver invalid UTF-8)",
	"the deadman service handed to CreatePipeline is not global and its id/message templates do not contain NODE_NAME",
	"no UDF nodes, no global scope functions (time(), influxql builtins): the pure packages are used with stateful.NewScope(), not kapacitor.TaskMaster.CreateTICKScope",
	"constant expressions never divide by zero (integer: C05's subject; float: no Inf/NaN constants) and do not overflow int64 nanoseconds",
	"comments are placed only where the lexer accepts them: not directly before + * / % == != < > <= >= =~ !~ = (after a comment the lexer is in its top-level state, where these are not recognised), not directly after = =~ !~ (\"//\" is an empty regex there)",
	"a regex literal is written only where the lexer expects an operand (after =~ !~ = ( ,); the empty regex // only directly after =~ !~ =; x =~ /re/ == y is written (x =~ /re/) == y (no comparison operator is recognised after a regex)",
	"string values ending in a backslash are written in triple quotes (the only way to write them), reference names never end in a backslash (not writable)",
	"file modes of the alert log handler are positive",
	"unions/joins combine node vars of the same edge type",
}

func rejectionClass(err error) string {
	m := err.Error()
	switch {
	case strings.HasPrefix(m, "panic:"):
		return "panic"
	case strings.Contains(m, "parser:"):
		return "parser"
	case strings.Contains(m, "error calling func"):
		return "call"
	case strings.Contains(m, "undefined") || strings.Contains(m, "name \""):
		return "undefined"
	default:
		return "validate"
	}
}

// formatLaws checks the formatter laws on one script; returns the fingerprint of the original pipeline (nil if rejected).
// fuzz: the input is arbitrary (native fuzzing): known defect classes cannot be avoided by construction and are
// recognised on the formatter's output instead (counted as exclusions).
func formatLaws(r *kit.Rec, c ScriptCase, cc *kit.Case, fuzz bool) *Fingerprint {
	p, err := create(c.Script, c.Edge, c.Vars)
	if err != nil {
		cc.Label("rejected")
		cc.Label("rejected:" + rejectionClass(err))
		return nil
	}
	cc.Label("accepted")
	fp := fingerprint(p)
	seen := map[string]bool{}
	for _, k := range fp.Kinds {
		if !seen[k] {
			seen[k] = true
			cc.Label("node:" + k)
		}
	}
	for _, l := range c.Labels {
		cc.Label(l)
	}
	if len(c.Vars) > 0 {
		cc.Label("template-vars")
	}
	if (fp.Nodes >= 3 && c.Mixed) || c.CmtAdj {
		cc.NonTrivial()
	}
	if c.Mixed {
		cc.Label("lambda:mixed-precedence")
	}
	if c.CmtAdj {
		cc.Label("comment-adjacent-to-literal")
	}

	a0, err := ast.Parse(c.Script)
	if err != nil {
		fail(cc, "harness/parse", "CreatePipeline accepts but ast.Parse fails: %v", err)
		return &fp
	}
	f1, err := tick.Format(c.Script)
	if err != nil {
		fail(cc, "format/error", "tick.Format fails on a script CreatePipeline accepts: %v\nscript:\n%s", err, c.Script)
		return &fp
	}
	class := formatDefectClass(a0, f1)
	known := func() bool {
		return fuzz && skip(r, c.Witness, knownFormatClass(class) != "", knownFormatClass(class))
	}
	p1, err := create(f1, c.Edge, c.Vars)
	if err != nil {
		if !known() {
			fail(cc, "format/"+class+"/output-rejected", "the formatted script is rejected: %v\nscript:\n%s\nformatted:\n%s", err, c.Script, f1)
		}
		return &fp
	}
	fp1 := fingerprint(p1)
	if fp1.Strict != fp.Strict {
		if !known() {
			fail(cc, "format/"+class+"/pipeline-changed", "formatting changed the pipeline; first difference %s\nscript:\n%s\nformatted:\n%s", firstDiff(fp.Strict, fp1.Strict), c.Script, f1)
		}
		return &fp
	}
	// the programs denote the same statements (comments aside)
	a1, err := ast.Parse(f1)
	if err != nil {
		fail(cc, "harness/parse", "CreatePipeline accepts the formatted script but ast.Parse fails: %v", err)
		return &fp
	}
	if pp(a0) != pp(a1) {
		if !known() {
			fail(cc, "format/"+class+"/program-changed", "formatting changed the program (not the pipeline); first difference %s\nscript:\n%s\nformatted:\n%s", firstDiff(pp(a0), pp(a1)), c.Script, f1)
		}
		return &fp
	}
	st := stability(f1, tick.Format)
	if st.changed {
		cc.Label("format:changed-by-second-pass")
	}
	if st.unstable && !skip(r, c.Witness, st.class == "/multiline-creep", classK6) {
		if st.class == "" {
			st.class = "/unclassified"
			if len(st.trace) > 1 {
				// a later pass may run into one of the output-level classes
				if k := formatDefectClass(a0, st.trace[len(st.trace)-1]); k != "unclassified" {
					class = k
					if known() {
						return &fp
					}
					st.class = "/" + k
				}
			}
		}
		fail(cc, "format/not-stable"+st.class, "format is not stable after one further pass (err=%v)\nscript:\n%s\npasses:\n%s", st.err, c.Script, strings.Join(st.trace, "\n----\n"))
		return &fp
	}
	if st.changed && len(st.trace) > 1 {
		// whatever later passes changed must not matter either
		last := st.trace[len(st.trace)-1]
		class = formatDefectClass(a0, last)
		p2, err := create(last, c.Edge, c.Vars)
		if err != nil {
			if !known() {
				fail(cc, "format/"+class+"/later-pass-rejected", "output of a later formatting pass is rejected: %v\npass1:\n%s\nlast pass:\n%s", err, f1, last)
			}
			return &fp
		}
		if fp2 := fingerprint(p2); fp2.Strict != fp.Strict {
			if !known() {
				fail(cc, "format/"+class+"/later-pass-pipeline-changed", "a later formatting pass changed the pipeline; %s\npass1:\n%s\nlast pass:\n%s", firstDiff(fp.Strict, fp2.Strict), f1, last)
			}
		}
	}
	return &fp
}

type stab struct {
	changed  bool   // the second pass changed the text
	unstable bool   // ... and the third pass changed it again (or a pass failed)
	class    string // defect class of an unstable format
	err      error
	trace    []string // outputs of the passes, starting with the first
}

func stripSpace(s string) string {
	return strings.Map(func(r rune) rune {
		if r == ' ' || r == '\n' || r == '\t' || r == '\r' {
			return -1
		}
		return r
	}, s)
}

// stability applies the law "stable after at most one further pass" to f1 = format(s).
func stability(f1 string, format func(string) (string, error)) stab {
	st := stab{trace: []string{f1}}
	f2, err := format(f1)
	if err != nil {
		st.changed, st.unstable, st.err = true, true, err
		return st
	}
	if f2 == f1 {
		return st
	}
	st.changed = true
	st.trace = append(st.trace, f2)
	f3, err := format(f2)
	if err != nil {
		st.unstable, st.err = true, err
		return st
	}
	if f3 == f2 {
		return st
	}
	st.unstable = true
	st.trace = append(st.trace, f3)
	// classify: only white space moves and a fixpoint is reached within a few more passes
	// (the one further pass the property allows may change anything, e.g. drop a comment)
	layoutOnly := stripSpace(f2) == stripSpace(f3)
	cur := f3
	fix := false
	for i := 0; i < 12 && layoutOnly; i++ {
		nx, err := format(cur)
		if err != nil {
			layoutOnly = false
			break
		}
		if nx == cur {
			fix = true
			break
		}
		layoutOnly = stripSpace(nx) == stripSpace(cur)
		cur = nx
	}
	if layoutOnly && fix {
		st.class = "/multiline-creep"
		st.trace = append(st.trace, cur)
	}
	return st
}

func runScriptWith(r *kit.Rec) func(c ScriptCase, cc *kit.Case) {
	return func(c ScriptCase, cc *kit.Case) { formatLaws(r, c, cc, false) }
}

func TestScript(t *testing.T) {
	r := kit.NewRec("C13", "Script", ruleScript, assumptionsScript...)
	kit.Check(t, r, genScriptWith(r), runScriptWith(r))
}

func TestReplayScript(t *testing.T) {
	r := kit.NewRec("C13", "Script", ruleScript, assumptionsScript...)
	kit.Replay(t, r, runScriptWith(r))
}

// ---------------------------------------------------------------- Pipeline unit

const rulePipeline = "same generator as Script (lighter layout noise); for accepted scripts: pipeline JSON Marshal -> Pipeline.Unmarshal and pipeline -> pipeline/tick AST -> Format -> CreatePipeline, " +
	"compared by the id-independent fingerprint; non-trivial = accepted script with >= 3 nodes and a lambda with >= 2 operators of different precedence; distinct by case hash"

var assumptionsPipeline = []string{
	"language limits, excluded by construction for the pipeline/tick law and counted (L1, L2): a string value that ends in a backslash and also contains ''' has no literal form (constant concatenations do not end in a backslash); the empty regex can only be written directly after =~ !~ = (an empty regex var is not used as a function argument)",
	"each case is checked against one law (json: Marshal -> Unmarshal; tick: pipeline/tick rendering -> CreatePipeline); the generator avoids, per law, what that round trip is known to lose (counted exclusions J*, T*, K*)",
	"the parameters of InfluxQL function nodes live in closures: the node's own reducers are run on a fixed series and their output is part of the fingerprint (holtWinters excepted: its fit is an expensive optimisation)",
	"json law, while J8 is a known finding: a pipeline containing an InfluxQL function node with call parameters (percentile, top/bottom, movingAverage, elapsed, holtWinters: len(Args) > 0) is generated and compared with those nodes reduced to what the pipeline holds as data (node type, edges, Method, Field, As, PointTimes and the exported Args list, every argument with its dynamic Go type: int64 / float64 / string / time.Duration); the reducer probe and ReduceCreater.TopBottomCallInfo (the copies J8 loses) are left out for these nodes only, every other node is compared in full; counted as exclusion J8 per case; witnesses and C13_NOEXCL=J8 compare in full",
	"the Args list of an InfluxQL function node is part of the pipeline's meaning (taken from code): it is the only place the call's literals are exported, pipeline JSON writes it as \"args\" and pipeline/tick renders the node's call from it; the literal's type is part of the literal (a tag named '5m' is a string, not a duration)",
	"field and tag names are arbitrary strings (TICKscript writes them as string literals; InfluxDB accepts any key): names whose text is a literal of another type (1m, 5m, 15m, 1h, 10, 1.5, TRUE, /re/, *, ...) are generated for every name argument (label arg:name-looks-like-literal)",
	"node ids/names are not part of a pipeline's meaning: the comparison uses the canonical fingerprint (multiset of node type + exported properties + ordered parent signatures); NoOp nodes are ignored (pipeline JSON and pipeline/tick drop them by design)",
	"the re-rendered script needs no vars: pipeline/tick inlines values",
}

func runPipelineWith(r *kit.Rec) func(c ScriptCase, cc *kit.Case) {
	return func(c ScriptCase, cc *kit.Case) { runPipeline(r, c, cc) }
}

// anyNode reports whether some node of the pipeline satisfies f.
func anyNode(p *pipeline.Pipeline, f func(n pipeline.Node) bool) bool {
	found := false
	_ = p.Walk(func(n pipeline.Node) error {
		if f(n) {
			found = true
		}
		return nil
	})
	return found
}

func parentIs(n pipeline.Node, descs ...string) bool {
	for _, q := range n.Parents() {
		for _, d := range descs {
			if q.Desc() == d {
				return true
			}
		}
	}
	return false
}

func runPipeline(r *kit.Rec, c ScriptCase, cc *kit.Case) {
	p, err := create(c.Script, c.Edge, c.Vars)
	if err != nil {
		cc.Label("rejected")
		return
	}
	cc.Label("accepted")
	cc.Label("law:" + c.Law)
	for _, l := range c.Labels {
		if strings.HasPrefix(l, "prop:") || strings.HasPrefix(l, "handler:") || l == "arg:name-looks-like-literal" {
			cc.Label(l)
		}
	}
	// render before the pipeline is marshalled for the first time (fingerprint marshals; see Fingerprint.Mutated)
	s2, tickErr := buildTick(p)
	fp := fingerprint(p)
	seen := map[string]bool{}
	for _, k := range fp.Kinds {
		if !seen[k] {
			seen[k] = true
			cc.Label("node:" + k)
		}
	}
	if fp.Nodes >= 3 && c.Mixed {
		cc.NonTrivial()
	}
	if c.Law != "tick" {
		pipelineJSONLaw(r, c, p, fp, cc)
	}
	if cc.Failed() {
		return
	}
	if c.Law != "json" {
		pipelineTickLaw(r, c, s2, tickErr, fp, cc)
	}
}

func pipelineJSONLaw(r *kit.Rec, c ScriptCase, p *pipeline.Pipeline, fp Fingerprint, cc *kit.Case) {
	w := c.Witness
	if fp.Mutated != "" {
		fail(cc, "pipeline-json/marshal-mutates-pipeline", "json.Marshal(pipeline) changed the pipeline it was given; %s\nscript:\n%s", fp.Mutated, c.Script)
		return
	}
	if skip(r, w, anyNode(p, func(n pipeline.Node) bool {
		return (n.Desc() == "where" || n.Desc() == "groupby") && parentIs(n, "from", "query")
	}), "K8 pipeline JSON: |where() or |groupBy() node directly under from()/query() (Unmarshal: parent has no where/groupBy clause)") {
		return
	}
	b, err := json.Marshal(p)
	if err != nil {
		fail(cc, "pipeline-json/marshal-error", "json.Marshal(pipeline): %v\nscript:\n%s", err, c.Script)
		return
	}
	q := &pipeline.Pipeline{}
	if err := unmarshalPipeline(q, b); err != nil {
		fail(cc, "pipeline-json/unmarshal-error/"+pipelineJSONErrorClass(err.Error()), "Pipeline.Unmarshal of its own JSON: %v\nscript:\n%s\njson: %s", err, c.Script, clip(string(b), 3000))
		return
	}
	fq := fingerprint(q)
	before, after := fp.Canon, fq.Canon
	// J8 (known): the reducers of an InfluxQL function node with call parameters come back with zero
	// parameters. Such nodes are compared by what the pipeline holds as data (argsOnly view: Method,
	// Field, As, PointTimes and the Args list with the dynamic type of every argument), everything
	// else in the pipeline in full.
	if skip(r, w, anyNode(p, hasCallParameters), classJ8) {
		before, after = fp.CanonA, fq.CanonA
		cc.Label("json:influxql-parameters-compared-by-args")
	}
	if after != before {
		fail(cc, "pipeline-json/changed/"+pipelineChangeClass(before, after), "pipeline JSON round trip changed the pipeline; %s\nscript:\n%s", canonDiff(before, after), c.Script)
	}
	cc.Label("json-roundtrip-checked")
}

func unmarshalPipeline(q *pipeline.Pipeline, b []byte) (err error) {
	defer func() {
		if r := recover(); r != nil {
			err = fmt.Errorf("panic: %v", r)
		}
	}()
	return q.Unmarshal(b)
}

func buildTick(p *pipeline.Pipeline) (s string, err error) {
	defer func() {
		if r := recover(); r != nil {
			err = fmt.Errorf("panic: %v", r)
		}
	}()
	a := ptick.AST{}
	if err := a.Build(p); err != nil {
		return "", err
	}
	return ast.Format(&a.Program), nil
}

func pipelineTickLaw(r *kit.Rec, c ScriptCase, s2 string, err error, fp Fingerprint, cc *kit.Case) {
	w := c.Witness
	_ = w
	if err != nil {
		fail(cc, "pipeline-tick/build-error/"+pipelineTickRejectClass(err.Error()), "pipeline/tick AST.Build: %v\nscript:\n%s", err, c.Script)
		return
	}
	p2, err := create(s2, c.Edge, nil)
	if err != nil {
		fail(cc, "pipeline-tick/output-rejected/"+pipelineTickRejectClass(err.Error()), "the script rendered from the pipeline is rejected: %v\nscript:\n%s\nrendered:\n%s", err, c.Script, s2)
		return
	}
	f2 := fingerprint(p2)
	if f2.Canon != fp.Canon {
		fail(cc, "pipeline-tick/changed/"+pipelineChangeClass(fp.Canon, f2.Canon), "pipeline -> TICKscript -> pipeline changed the pipeline; %s\nscript:\n%s\nrendered:\n%s", canonDiff(fp.Canon, f2.Canon), c.Script, s2)
	}
	cc.Label("tick-roundtrip-checked")
}

func TestPipeline(t *testing.T) {
	r := kit.NewRec("C13", "Pipeline", rulePipeline, assumptionsPipeline...)
	kit.Check(t, r, genPipelineWith(r), runPipelineWith(r))
}

func TestReplayPipeline(t *testing.T) {
	r := kit.NewRec("C13", "Pipeline", rulePipeline, assumptionsPipeline...)
	kit.Replay(t, r, runPipelineWith(r))
}

// ---------------------------------------------------------------- Lambda unit

type LambdaCase struct {
	E       *Expr    `json:"e"`
	Text    string   `json:"text"`              // the expression as source text (required parentheses + noise)
	Labels  []string `json:"labels,omitempty"`  // generator-side classes (operators, literal forms, comment positions)
	Witness bool     `json:"witness,omitempty"` // saved witness of a known defect: no law is skipped
}

// skip reports whether a law must be skipped for a known defect class (counted); witnesses skip nothing.
func skip(r *kit.Rec, witness bool, cond bool, class string) bool {
	if !cond || witness || off(class) {
		return false
	}
	r.Exclude(class)
	return true
}

func isCall(e *Expr) bool { return e.K == "call" }
func isBigInt(e *Expr) bool {
	if e.K != "int" {
		return false
	}
	v, _, err := intValue(e.V)
	return err == nil && (v > 1<<53 || v < -(1<<53))
}

const ruleLambda = "rapid generator of lambda expression trees (every unary/binary operator, calls, all literal kinds and source forms, identifiers) rendered to text with required and redundant parentheses, " +
	"comments and layout noise; checked on the parser's AST and on directly built ASTs; non-trivial = >= 2 binary operators of different precedence; distinct by case hash"

var assumptionsLambda = []string{
	"the expected structure of the text is derived from the operator precedence table of the language (OR < AND < == != =~ !~ < comparisons < + - < * / %, left-associative, unary tightest)",
	"directly built ASTs leave the formatter-only fields (Parens, Literal, TripleQuotes, MultiLine) unset, as the JSON decoder and tick.resolveIdents/ValueToLiteralNode do",
}

func genLambdaWith(r *kit.Rec) func(t *rapid.T) LambdaCase {
	return func(t *rapid.T) LambdaCase { return genLambda(r, t) }
}

func genLambda(r *kit.Rec, t *rapid.T) LambdaCase {
	g := &eg{t: t, idents: true}
	d := rapid.IntRange(0, 5).Draw(t, "depth")
	e := g.any(d)
	noise := rapid.SampledFrom([]int{0, 1, 2}).Draw(t, "noise")
	o := newOut(t, noise, rapid.Bool().Draw(t, "comments"))
	o.exclude = r.Exclude
	o.expr(e)
	c := LambdaCase{E: e, Text: o.finish()}
	for l := range o.labels {
		c.Labels = append(c.Labels, l)
	}
	sort.Strings(c.Labels)
	return c
}

func jsonRoundTrip(l *ast.LambdaNode) (out *ast.LambdaNode, b []byte, err error) {
	defer func() {
		if r := recover(); r != nil {
			err = fmt.Errorf("panic: %v", r)
		}
	}()
	b, err = json.Marshal(l)
	if err != nil {
		return nil, nil, fmt.Errorf("marshal: %v", err)
	}
	out = &ast.LambdaNode{}
	if err := json.Unmarshal(b, out); err != nil {
		return nil, b, fmt.Errorf("unmarshal: %v", err)
	}
	return out, b, nil
}

func reparseLambda(formatted string) (*ast.LambdaNode, error) {
	n, err := ast.Parse(formatted)
	if err != nil {
		return nil, err
	}
	prog, ok := n.(*ast.ProgramNode)
	if !ok {
		return nil, fmt.Errorf("not a program: %T", n)
	}
	var l *ast.LambdaNode
	for _, s := range prog.Nodes {
		switch x := s.(type) {
		case *ast.CommentNode:
		case *ast.LambdaNode:
			if l != nil {
				return nil, fmt.Errorf("more than one statement")
			}
			l = x
		default:
			return nil, fmt.Errorf("unexpected statement %T", s)
		}
	}
	if l == nil {
		return nil, fmt.Errorf("no lambda statement")
	}
	return l, nil
}

func lambdaLaws(r *kit.Rec, name string, c LambdaCase, l *ast.LambdaNode, cc *kit.Case) {
	want := pp(l)
	variants := []struct {
		tag string
		l   *ast.LambdaNode
	}{{"", l}}
	// JSON round trip
	if !skip(r, c.Witness, exprHas(c.E, isBigInt), classK4) &&
		!skip(r, c.Witness, exprHas(c.E, func(e *Expr) bool { return e.K == "call" && len(e.A) == 0 }), classK12) {
		// K1: function names are known to be lost; for lambdas with calls the comparison is made
		// modulo function names (types, arguments and structure still count) and the decoded tree is not used further
		moduloNames := skip(r, c.Witness, exprHas(c.E, isCall), classK1)
		norm := func(s string) string {
			if moduloNames {
				return reFuncName.ReplaceAllString(s, "$1:F(")
			}
			return s
		}
		l2, b, err := jsonRoundTrip(l)
		if err != nil {
			fail(cc, "lambda-json/error"+jsonErrorClass(err), "[%s] JSON round trip of lambda %s fails: %v\njson: %s", name, want, err, clip(string(b), 2000))
			return
		}
		if got := pp(l2); norm(got) != norm(want) || (!moduloNames && (!l2.Equal(l) || !l.Equal(l2))) {
			fail(cc, "lambda-json/changed"+jsonClass(want, got), "[%s] JSON round trip changed the lambda:\n  before %s\n  after  %s\n  Equal=%v\njson: %s", name, want, got, l2.Equal(l), clip(string(b), 2000))
			return
		}
		if !moduloNames {
			variants = append(variants, struct {
				tag string
				l   *ast.LambdaNode
			}{"after-json", l2})
		}
	}
	// Format -> parse
	for _, v := range variants {
		// bare: an AST whose formatter-only fields are unset (JSON decoder, direct construction)
		bare := name == "built-bare" || v.tag == "after-json"
		if bare {
			if skip(r, c.Witness, exprHas(c.E, func(e *Expr) bool { return e.K == "re" }), classK2) {
				continue
			}
			if skip(r, c.Witness, exprNeedsAnyParens(c.E), "K3 format of an AST built without the parser: the tree needs parentheses (BinaryNode.Parens unset)") {
				continue
			}
			if skip(r, c.Witness, exprHas(c.E, func(e *Expr) bool { return e.K == "str" && strings.HasSuffix(e.V, `\`) }), classK5) {
				continue
			}
		}
		f := ast.Format(v.l)
		rp, err := reparseLambda(f)
		if err != nil {
			fail(cc, "lambda-format/unparseable"+unparseableClass(err), "[%s%s] formatted lambda does not parse: %v\n  lambda    %s\n  formatted %q", name, v.tag, err, want, f)
			return
		}
		if got := pp(rp); got != want || !rp.Equal(l) {
			fail(cc, "lambda-format/changed"+formatChangeClass(want, got), "[%s%s] Format changed the lambda:\n  before    %s\n  after     %s\n  formatted %q", name, v.tag, want, got, f)
			return
		}
		st := stability(f, func(x string) (string, error) {
			n, err := reparseLambda(x)
			if err != nil {
				return "", err
			}
			return ast.Format(n), nil
		})
		if st.changed {
			cc.Label("format:changed-by-second-pass")
		}
		if st.unstable && !skip(r, c.Witness, st.class == "/multiline-creep", classK6) {
			fail(cc, "lambda-format/not-stable"+st.class, "[%s%s] format of a lambda not stable after one further pass (err %v):\n%s", name, v.tag, st.err, strings.Join(st.trace, "\n----\n"))
			return
		}
		// ExpressionString is the other rendering entry point (used when a lambda is shown on its own)
		es := v.l.ExpressionString()
		r3, err := ast.ParseLambda(es)
		if err != nil {
			fail(cc, "lambda-format/expression-string-unparseable", "[%s%s] ExpressionString does not parse: %v\n  lambda %s\n  text   %q", name, v.tag, err, want, es)
			return
		}
		if got := pp(r3); got != want {
			fail(cc, "lambda-format/expression-string-changed", "[%s%s] ExpressionString changed the lambda:\n  before %s\n  after  %s\n  text   %q", name, v.tag, want, got, es)
			return
		}
	}
}

func unparseableClass(err error) string {
	if strings.Contains(err.Error(), "unterminated string") {
		return "/unterminated-string"
	}
	return ""
}

var reLit = regexp.MustCompile(`re:"(?:[^"\\]|\\.)*"`)

// formatChangeClass names the defect class of a lambda changed by Format.
func formatChangeClass(before, after string) string {
	if reLit.ReplaceAllString(before, "RE") == reLit.ReplaceAllString(after, "RE") {
		return "/regex-literal"
	}
	noParens := strings.NewReplacer("(", "", ")", "")
	if noParens.Replace(before) == noParens.Replace(after) {
		return "/parens-lost"
	}
	return ""
}

var reFuncName = regexp.MustCompile(`(global|chain|property|dynamic):[A-Za-z0-9_]*\(`)

func jsonErrorClass(err error) string {
	if strings.Contains(err.Error(), "field args is not a list") {
		return "/function-without-arguments"
	}
	return ""
}

func jsonClass(before, after string) string {
	if reFuncName.ReplaceAllString(before, "$1:F(") == reFuncName.ReplaceAllString(after, "$1:F(") {
		return "/function-name-lost"
	}
	ints := regexp.MustCompile(`i:-?[0-9]+`)
	if ints.ReplaceAllString(before, "I") == ints.ReplaceAllString(after, "I") {
		return "/int-precision"
	}
	return ""
}

func runLambdaWith(r *kit.Rec) func(c LambdaCase, cc *kit.Case) {
	return func(c LambdaCase, cc *kit.Case) { runLambda(r, c, cc) }
}

func runLambda(r *kit.Rec, c LambdaCase, cc *kit.Case) {
	if !utf8.ValidString(c.Text) {
		fail(cc, "harness/invalid-utf8", "generator produced invalid UTF-8")
		return
	}
	ops, levels := exprStats(c.E)
	if len(levels) >= 2 {
		cc.NonTrivial()
		cc.Label("mixed-precedence")
	}
	if exprNeedsAnyParens(c.E) {
		cc.Label("needs-parens")
	}
	cc.Label(fmt.Sprintf("ops:%d", min(ops, 8)))
	for _, l := range c.Labels {
		cc.Label(l)
	}
	wantNode, err := build(c.E, buildOpts{parens: true, literals: true})
	if err != nil {
		fail(cc, "harness/build", "cannot build expression: %v", err)
		return
	}
	want := pp(wantNode)
	parsed, err := ast.ParseLambda(c.Text)
	if err != nil {
		fail(cc, "harness/lambda-text-rejected", "ParseLambda rejects generated text %q (tree %s): %v", c.Text, exprString(c.E), err)
		return
	}
	if got := pp(parsed.Expression); got != want {
		fail(cc, "lambda/parse-structure", "parser structure differs from the precedence table:\n  text %q\n  want %s\n  got  %s", c.Text, want, got)
		return
	}
	lambdaLaws(r, "parsed", c, parsed, cc)
	if cc.Failed() {
		return
	}
	lambdaLaws(r, "built-with-flags", c, &ast.LambdaNode{Expression: wantNode}, cc)
	if cc.Failed() {
		return
	}
	bare, _ := build(c.E, buildOpts{})
	lambdaLaws(r, "built-bare", c, &ast.LambdaNode{Expression: bare}, cc)
}

func TestLambda(t *testing.T) {
	r := kit.NewRec("C13", "Lambda", ruleLambda, assumptionsLambda...)
	kit.Check(t, r, genLambdaWith(r), runLambdaWith(r))
}

func TestReplayLambda(t *testing.T) {
	r := kit.NewRec("C13", "Lambda", ruleLambda, assumptionsLambda...)
	kit.Replay(t, r, runLambdaWith(r))
}
