// C13, unit Tickfmt — the formatted script as tickfmt writes it.
//
// The property names two places where a user meets the formatted script: what the API returns and
// what tickfmt writes. The other units apply the laws to tick.Format (the function behind both); this
// unit applies them to the command itself: the tickfmt binary is built once per process from the tree
// under test (package tick/cmd/tickfmt, through the harness module whose go.mod replaces kapacitor by
// VERIF_REPO or /repo - no go command runs inside the repository) and run on generated script files.
//
// Generator. A case is 1-3 script files plus the way tickfmt is called:
//
//   - text of a file: a script of the Script unit's grammar generator, either as generated (with its
//     layout noise) or formatted first and then laid out again by line-level edits that never touch a
//     token: line endings (LF, CRLF, mixed), indentation (tabs, 2-3 times deeper), runs of blank lines
//     (1..40, or exactly as many bytes as the last one/two lines of the text are long) before some line /
//     at the end, trailing blanks. The edits make the formatted form SHORTER than the file, the same
//     length, or longer (labels len:*): a tool that rewrites the file instead of replacing it is only
//     visible when the formatted form is shorter.
//   - path as handed to tickfmt: plain, ./name, in a sub directory, unclean (sub/../name), with a space,
//     without extension; relative to the working directory or absolute
//   - flags: -w with or without -b; optionally a second tickfmt -w run over the files just written
//   - reference run without -w on untouched copies: path arguments (several: outputs in argument order)
//     or, for one file, STDIN
//
// Oracle (run). Every file text first goes through the Script unit's laws (formatLaws: so the new layout
// classes are also checked against tick.Format); files pipeline.CreatePipeline rejects are dropped. Then
//
//  1. tickfmt -w [-b] exits 0; the file it leaves is accepted by CreatePipeline and has the fingerprint
//     of the source text (property: the formatted script tickfmt writes parses and defines the identical
//     pipeline), and is byte-equal to tick.Format(source text) (the formatted script is one thing: what
//     the API returns - tick.Format - and what tickfmt writes)
//  2. with -b the file <path>.orig holds the source text byte for byte (usage text of -b)
//  3. without -w the formatted script goes to STDOUT and the source file is left alone (usage text of -w:
//     "write formatted contents to source file instead of STDOUT"): STDOUT of the reference run equals the
//     files written by the -w run, concatenated in argument order; the copies are unchanged
//  4. a second tickfmt -w over the written files leaves tick.Format(written file) with the same
//     fingerprint (and, with -b, the first result in .orig)
package c13

import (
	"bytes"
	"context"
	"crypto/sha256"
	"encoding/hex"
	"errors"
	"fmt"
	"os"
	"os/exec"
	"path/filepath"
	"strings"
	"sync"
	"testing"
	"time"

	"verifharness/kit"

	"github.com/influxdata/kapacitor/tick"
	"pgregory.net/rapid"
)

// TickfmtFile is one script file of a case.
type TickfmtFile struct {
	Name   string    `json:"name"` // path as handed to tickfmt, relative to the case directory
	Text   string    `json:"text"` // content of the file
	Edge   string    `json:"edge"`
	Vars   []VarSpec `json:"vars,omitempty"`
	Mixed  bool      `json:"mixed,omitempty"`
	Layout []string  `json:"layout,omitempty"` // generator-side classes of the layout edits
	Labels []string  `json:"labels,omitempty"` // generator-side classes of the script
}

// TickfmtCase is one call pattern of tickfmt over a few files.
type TickfmtCase struct {
	Files  []TickfmtFile `json:"files"`
	Backup bool          `json:"backup,omitempty"` // -b
	Abs    bool          `json:"abs,omitempty"`    // absolute paths
	Again  bool          `json:"again,omitempty"`  // a second tickfmt -w run over the written files
	Stdin  bool          `json:"stdin,omitempty"`  // reference run: the (first) file is piped to STDIN instead of named
}

const ruleTickfmt = "the tickfmt binary built from the tree under test, run on 1-3 files per case; file texts from the Script unit's grammar generator, as generated or formatted and laid out again " +
	"(CRLF/mixed line endings, tab/deeper indentation, runs of blank lines, trailing blanks); path forms plain/./sub directory/unclean/with space/absolute; -w with and without -b, a second -w run, " +
	"reference run without -w (path arguments or STDIN); files rejected by pipeline.CreatePipeline are dropped (label 'rejected'); " +
	"non-trivial = a file that defines a task with >= 3 pipeline nodes and whose formatted form differs from the file content (label len:* tells shorter/longer/same length); distinct by case hash"

var assumptionsTickfmt = []string{
	"'what tickfmt writes' is observed on the real command: package tick/cmd/tickfmt of the tree under test is built once per process through the harness module (replace github.com/influxdata/kapacitor => VERIF_REPO or /repo) with the driver's go toolchain and environment; a build failure is reported as inconclusive, never as a violation",
	"usage text of tickfmt (tick/cmd/tickfmt/main.go): '-w write formatted contents to source file instead of STDOUT', '-b create backup files with extension .orig', 'If no source files are provided reads from STDIN': the file after -w holds exactly what the run without -w prints; <path>.orig holds the source text; without -w the source file is not written",
	"the formatted script is one thing (property: 'what the API returns and tickfmt writes'): the API returns tick.Format(script) (services/task_store/service.go) and tickfmt calls tick.Format (main.go formatFile), so the written file is compared byte for byte with tick.Format(file text)",
	"several path arguments are processed in argument order (main.go loops over flag.Args()): STDOUT of a run without -w is the concatenation of the formatted scripts in that order",
	"tickfmt needs no template vars (it only parses and prints); CreatePipeline gets the vars of the generated script for the source text and for the written file alike",
	"line-level layout edits (line endings, leading/trailing blanks, blank lines) may fall inside a multi-line string literal and change its value: the oracle compares the written file with the EDITED source text, never with the script the edit started from",
	"a tickfmt process that has not ended after 120 s (normal: milliseconds) counts as hanging",
	"everything the Script unit assumes about generated scripts (its assumptions apply to the file texts)",
}

// ---------------------------------------------------------------- the binary

var (
	tickfmtOnce sync.Once
	tickfmtBin  string
	tickfmtErr  error
)

func verifDir() string {
	if d := os.Getenv("VERIF_DIR"); d != "" {
		return d
	}
	return "/verif"
}

// harnessModFile: the go.mod the driver generated for the tree under test (bin/check: MODDIR).
func harnessModFile() (string, error) {
	repo := repoRoot()
	abs, err := filepath.Abs(repo)
	if err != nil {
		return "", err
	}
	real, err := filepath.EvalSymlinks(abs)
	if err != nil {
		return "", err
	}
	tag := ""
	if real != "/repo" {
		h := sha256.Sum256([]byte(real))
		tag = "-" + hex.EncodeToString(h[:])[:8]
	}
	mod := filepath.Join(verifDir(), "build", "mod"+tag, "go.mod")
	b, err := os.ReadFile(mod)
	if err != nil {
		return "", fmt.Errorf("harness go.mod of the tree under test: %v (run through bin/check, which generates it)", err)
	}
	if !strings.Contains(string(b), "replace github.com/influxdata/kapacitor => "+repo+"\n") {
		return "", fmt.Errorf("%s does not replace kapacitor by %s", mod, repo)
	}
	return mod, nil
}

// buildTickfmt builds tick/cmd/tickfmt of the tree under test once per process.
func buildTickfmt() (string, error) {
	tickfmtOnce.Do(func() {
		mod, err := harnessModFile()
		if err != nil {
			tickfmtErr = err
			return
		}
		gobin, err := exec.LookPath("go")
		if err != nil {
			tickfmtErr = err
			return
		}
		dir, err := os.MkdirTemp("", "c13-tickfmt-bin")
		if err != nil {
			tickfmtErr = err
			return
		}
		out := filepath.Join(dir, "tickfmt")
		cmd := exec.Command(gobin, "build", "-modfile", mod, "-o", out, "github.com/influxdata/kapacitor/tick/cmd/tickfmt")
		cmd.Dir = filepath.Join(verifDir(), "harness")
		cmd.Env = append(os.Environ(), "GOFLAGS=-mod=mod", "GOPROXY=off")
		if b, err := cmd.CombinedOutput(); err != nil {
			tickfmtErr = fmt.Errorf("%s: %v\n%s", strings.Join(cmd.Args, " "), err, b)
			return
		}
		tickfmtBin = out
	})
	return tickfmtBin, tickfmtErr
}

func removeTickfmt() {
	if tickfmtBin != "" {
		os.RemoveAll(filepath.Dir(tickfmtBin))
	}
}

type tickfmtRun struct {
	exit   int
	stdout string
	stderr string
	hang   bool
	err    error // could not be started
}

func runTickfmt(bin, dir, stdin string, args ...string) tickfmtRun {
	ctx, cancel := context.WithTimeout(context.Background(), 120*time.Second)
	defer cancel()
	cmd := exec.CommandContext(ctx, bin, args...)
	cmd.Dir = dir
	cmd.Stdin = strings.NewReader(stdin)
	var so, se bytes.Buffer
	cmd.Stdout, cmd.Stderr = &so, &se
	err := cmd.Run()
	r := tickfmtRun{stdout: so.String(), stderr: se.String()}
	var ee *exec.ExitError
	switch {
	case ctx.Err() != nil:
		r.hang = true
	case err == nil:
	case errors.As(err, &ee):
		r.exit = ee.ExitCode()
	default:
		r.err = err
	}
	return r
}

// ---------------------------------------------------------------- generator

func safeFormat(s string) (f string, err error) {
	defer func() {
		if r := recover(); r != nil {
			err = fmt.Errorf("panic: %v", r)
		}
	}()
	return tick.Format(s)
}

func leadingBlanks(l string) int {
	i := 0
	for i < len(l) && (l[i] == ' ' || l[i] == '\t') {
		i++
	}
	return i
}

// relayout edits the layout of a text line by line; no edit touches anything but line ends, leading and
// trailing blanks and blank lines.
func relayout(t *rapid.T, text string) (string, []string) {
	var labels []string
	lines := strings.Split(text, "\n")
	final := strings.HasSuffix(text, "\n") // the last element of lines is the empty rest after the final newline
	body := lines
	if final {
		body = lines[:len(lines)-1]
	}
	// indentation
	switch rapid.SampledFrom([]string{"keep", "keep", "tabs", "deeper", "shift"}).Draw(t, "indent") {
	case "tabs":
		for i, l := range body {
			n := leadingBlanks(l)
			body[i] = strings.ReplaceAll(l[:n], "    ", "\t") + l[n:]
		}
		labels = append(labels, "layout:indent-tabs")
	case "deeper":
		k := rapid.IntRange(2, 3).Draw(t, "indentFactor")
		for i, l := range body {
			n := leadingBlanks(l)
			body[i] = strings.Repeat(l[:n], k) + l[n:]
		}
		labels = append(labels, "layout:indent-deeper")
	case "shift":
		p := rapid.SampledFrom([]string{" ", "  ", "\t", "        "}).Draw(t, "indentShift")
		for i, l := range body {
			if i > 0 && strings.TrimSpace(l) != "" {
				body[i] = p + l
			}
		}
		labels = append(labels, "layout:indent-shift")
	}
	// trailing blanks
	if rapid.IntRange(0, 3).Draw(t, "trailing") == 0 {
		w := rapid.SampledFrom([]string{" ", "   ", "\t"}).Draw(t, "trailingWs")
		all := rapid.Bool().Draw(t, "trailingAll")
		for i := range body {
			if all || rapid.Bool().Draw(t, "trailingHere") {
				body[i] += w
			}
		}
		labels = append(labels, "layout:trailing-blanks")
	}
	// runs of blank lines
	if len(body) > 0 && rapid.IntRange(0, 2).Draw(t, "blank") != 0 {
		last := len(body[len(body)-1]) + 1
		last2 := last
		if len(body) > 1 {
			last2 += len(body[len(body)-2]) + 1
		}
		runs := rapid.IntRange(1, 2).Draw(t, "blankRuns")
		for r := 0; r < runs; r++ {
			var n int
			switch rapid.IntRange(0, 3).Draw(t, "blankKind") {
			case 0:
				n = rapid.IntRange(1, 3).Draw(t, "blankFew")
				labels = append(labels, "layout:blank-lines-few")
			case 1:
				n = rapid.IntRange(4, 40).Draw(t, "blankMany")
				labels = append(labels, "layout:blank-lines-many")
			case 2:
				n = last
				labels = append(labels, "layout:blank-lines-as-long-as-last-line")
			default:
				n = last2
				labels = append(labels, "layout:blank-lines-as-long-as-last-two-lines")
			}
			at := rapid.IntRange(0, len(body)).Draw(t, "blankAt") // before line at; len(body): at the end
			if at == 0 {
				labels = append(labels, "layout:blank-lines-at-start")
			} else if at == len(body) {
				labels = append(labels, "layout:blank-lines-at-end")
			} else {
				labels = append(labels, "layout:blank-lines-inside")
			}
			nb := make([]string, 0, len(body)+n)
			nb = append(nb, body[:at]...)
			for i := 0; i < n; i++ {
				nb = append(nb, "")
			}
			nb = append(nb, body[at:]...)
			body = nb
		}
	}
	// line endings
	eol := rapid.SampledFrom([]string{"lf", "lf", "crlf", "crlf", "mixed"}).Draw(t, "eol")
	var sb strings.Builder
	for i, l := range body {
		sb.WriteString(l)
		if i == len(body)-1 && !final {
			break
		}
		if eol == "crlf" || (eol == "mixed" && rapid.Bool().Draw(t, "eolHere")) {
			sb.WriteString("\r\n")
		} else {
			sb.WriteString("\n")
		}
	}
	if eol != "lf" {
		labels = append(labels, "layout:eol-"+eol)
	}
	seen := map[string]bool{}
	uniq := labels[:0]
	for _, l := range labels {
		if !seen[l] {
			seen[l] = true
			uniq = append(uniq, l)
		}
	}
	return sb.String(), uniq
}

var tickfmtPathForms = []string{"f%d.tick", "./f%d.tick", "sub/f%d.tick", "sub/../f%d.tick", "with space %d.tick", "f%d", "sub/./g%d.tick"}

func genTickfmtWith(r *kit.Rec) func(t *rapid.T) TickfmtCase {
	return func(t *rapid.T) TickfmtCase {
		n := rapid.SampledFrom([]int{1, 1, 2, 3}).Draw(t, "nFiles")
		c := TickfmtCase{
			Backup: rapid.Bool().Draw(t, "backup"),
			Abs:    rapid.IntRange(0, 3).Draw(t, "abs") == 0,
			Again:  rapid.IntRange(0, 2).Draw(t, "again") == 0,
			Stdin:  rapid.IntRange(0, 3).Draw(t, "stdin") == 0,
		}
		for i := 0; i < n; i++ {
			sc := genScript(r, t, "")
			f := TickfmtFile{Edge: sc.Edge, Vars: sc.Vars, Mixed: sc.Mixed, Labels: sc.Labels}
			f.Name = fmt.Sprintf(rapid.SampledFrom(tickfmtPathForms).Draw(t, "pathForm"), i)
			f.Text = sc.Script
			if rapid.IntRange(0, 3).Draw(t, "asGenerated") == 0 {
				f.Layout = []string{"layout:as-generated"}
			} else if ft, err := safeFormat(sc.Script); err != nil {
				// not formattable: the Script laws report it (or the script is rejected anyway)
				f.Layout = []string{"layout:as-generated"}
			} else {
				f.Text, f.Layout = relayout(t, ft)
				if len(f.Layout) == 0 {
					f.Layout = []string{"layout:formatted"}
				}
			}
			c.Files = append(c.Files, f)
		}
		return c
	}
}

// ---------------------------------------------------------------- oracle

type tickfmtLive struct {
	f    TickfmtFile
	arg  string // as handed to tickfmt
	path string // where it is
	ref  string // untouched copy for the run without -w
	want string // tick.Format(f.Text)
	fp   *Fingerprint
	got  string // content after the first -w run
}

func runTickfmtWith(r *kit.Rec) func(c TickfmtCase, cc *kit.Case) {
	return func(c TickfmtCase, cc *kit.Case) { runTickfmtCase(r, c, cc) }
}

func runTickfmtCase(r *kit.Rec, c TickfmtCase, cc *kit.Case) {
	bin, err := buildTickfmt()
	if err != nil {
		panic("tickfmt binary not built: " + err.Error()) // TestTickfmt builds it before the first case
	}
	var live []*tickfmtLive
	for _, f := range c.Files {
		for _, l := range f.Layout {
			cc.Label(l)
		}
		// the Script unit's laws on this text (also: is it a task at all?); non-triviality is this unit's own rule
		fp := formatLaws(r, ScriptCase{Script: f.Text, Edge: f.Edge, Vars: f.Vars, Labels: f.Labels}, cc, false)
		if cc.Failed() {
			return
		}
		if fp == nil {
			continue
		}
		want, err := tick.Format(f.Text)
		if err != nil {
			return // formatLaws reports it
		}
		switch {
		case want == f.Text:
			cc.Label("len:identical")
		case len(want) < len(f.Text):
			cc.Label("len:formatted-shorter")
		case len(want) > len(f.Text):
			cc.Label("len:formatted-longer")
		default:
			cc.Label("len:same-length-different")
		}
		if fp.Nodes >= 3 && want != f.Text {
			cc.NonTrivial()
		}
		live = append(live, &tickfmtLive{f: f, want: want, fp: fp})
	}
	if len(live) == 0 {
		return
	}
	cc.Label(fmt.Sprintf("files:%d", len(live)))

	dir, err := os.MkdirTemp("", "c13-tickfmt-case")
	if err != nil {
		panic(err)
	}
	defer os.RemoveAll(dir)
	must := func(err error) {
		if err != nil {
			panic(err)
		}
	}
	must(os.MkdirAll(filepath.Join(dir, "w", "sub"), 0o755))
	must(os.MkdirAll(filepath.Join(dir, "ref", "sub"), 0o755))
	wdir, rdir := filepath.Join(dir, "w"), filepath.Join(dir, "ref")
	var wargs, rargs []string
	for _, l := range live {
		l.path = filepath.Join(wdir, filepath.Clean(l.f.Name))
		l.ref = filepath.Join(rdir, filepath.Clean(l.f.Name))
		must(os.WriteFile(l.path, []byte(l.f.Text), 0o644))
		must(os.WriteFile(l.ref, []byte(l.f.Text), 0o644))
		l.arg = l.f.Name
		rarg := l.f.Name
		if c.Abs {
			l.arg = wdir + "/" + l.f.Name
			rarg = rdir + "/" + l.f.Name
		}
		wargs = append(wargs, l.arg)
		rargs = append(rargs, rarg)
	}
	if c.Abs {
		cc.Label("path:absolute")
	} else {
		cc.Label("path:relative")
	}
	flags := []string{"-w"}
	if c.Backup {
		flags = append(flags, "-b")
		cc.Label("flags:-w -b")
	} else {
		cc.Label("flags:-w")
	}
	describe := func(l *tickfmtLive) string {
		return fmt.Sprintf("tickfmt %s %q\nfile before (%d bytes):\n%s\n----", strings.Join(flags, " "), l.arg, len(l.f.Text), l.f.Text)
	}
	ok := func(what string, res tickfmtRun, args []string) bool {
		switch {
		case res.err != nil:
			panic(fmt.Sprintf("cannot run tickfmt: %v", res.err))
		case res.hang:
			fail(cc, "tickfmt/hang", "%s: tickfmt %q has not ended after 120 s", what, args)
		case res.exit != 0:
			fail(cc, "tickfmt/exit-status", "%s: tickfmt %q exits with status %d on scripts that define tasks; stderr: %s", what, args, res.exit, clip(res.stderr, 1500))
		default:
			return true
		}
		return false
	}

	// 1. tickfmt -w [-b] files...
	args := append(append([]string{}, flags...), wargs...)
	if !ok("first -w run", runTickfmt(bin, wdir, "", args...), args) {
		return
	}
	written := func(l *tickfmtLive, pass string, source, want string, fp *Fingerprint) (string, bool) {
		b, err := os.ReadFile(l.path)
		if err != nil {
			fail(cc, "tickfmt/written-file-missing", "%s: after %s the file cannot be read: %v", describe(l), pass, err)
			return "", false
		}
		got := string(b)
		p, err := create(got, l.f.Edge, l.f.Vars)
		if err != nil {
			fail(cc, "tickfmt/written-file-rejected", "%s\nthe file left by %s does not define a task any more: %v\nformatted script (%d bytes):\n%s\n----\nfile after (%d bytes):\n%s", describe(l), pass, err, len(want), want, len(got), got)
			return got, false
		}
		if g := fingerprint(p); g.Strict != fp.Strict {
			fail(cc, "tickfmt/written-file-pipeline-changed", "%s\nthe file left by %s defines a different pipeline; first difference %s\nformatted script (%d bytes):\n%s\n----\nfile after (%d bytes):\n%s", describe(l), pass, firstDiff(fp.Strict, g.Strict), len(want), want, len(got), got)
			return got, false
		}
		if got != want {
			fail(cc, "tickfmt/written-file-differs-from-formatted", "%s\nthe file left by %s is not the formatted script (tick.Format of the %s); first difference %s\nformatted script (%d bytes):\n%s\n----\nfile after (%d bytes):\n%s", describe(l), pass, source, firstDiff(want, got), len(want), want, len(got), got)
			return got, false
		}
		return got, true
	}
	backup := func(l *tickfmtLive, pass, want string) bool {
		if !c.Backup {
			return true
		}
		b, err := os.ReadFile(l.path + ".orig")
		if err != nil {
			fail(cc, "tickfmt/backup-missing", "%s\nafter %s there is no backup file: %v", describe(l), pass, err)
			return false
		}
		if string(b) != want {
			fail(cc, "tickfmt/backup-differs", "%s\nafter %s the backup file does not hold what the file held before; first difference %s\nbackup (%d bytes):\n%s", describe(l), pass, firstDiff(want, string(b)), len(b), b)
			return false
		}
		return true
	}
	for _, l := range live {
		var good bool
		if l.got, good = written(l, "tickfmt -w", "file text", l.want, l.fp); !good {
			return
		}
		if !backup(l, "tickfmt -w -b", l.f.Text) {
			return
		}
	}

	// 3. the run without -w on the untouched copies
	var res tickfmtRun
	var what string
	if c.Stdin {
		cc.Label("reference:stdin")
		what = "tickfmt < file"
		res = runTickfmt(bin, rdir, live[0].f.Text)
		if !ok(what, res, nil) {
			return
		}
		if res.stdout != live[0].got {
			fail(cc, "tickfmt/stdout-differs-from-written", "%s\n%s prints something else than tickfmt -w writes; first difference %s\nSTDOUT (%d bytes):\n%s\n----\nwritten (%d bytes):\n%s", describe(live[0]), what, firstDiff(live[0].got, res.stdout), len(res.stdout), res.stdout, len(live[0].got), live[0].got)
			return
		}
	} else {
		cc.Label("reference:paths")
		what = "tickfmt files..."
		res = runTickfmt(bin, rdir, "", rargs...)
		if !ok(what, res, rargs) {
			return
		}
		var all strings.Builder
		for _, l := range live {
			all.WriteString(l.got)
		}
		if res.stdout != all.String() {
			fail(cc, "tickfmt/stdout-differs-from-written", "%s\ntickfmt %q (no -w) prints something else than tickfmt -w writes (files in argument order); first difference %s\nSTDOUT (%d bytes):\n%s\n----\nwritten (%d bytes):\n%s", describe(live[0]), rargs, firstDiff(all.String(), res.stdout), len(res.stdout), res.stdout, all.Len(), all.String())
			return
		}
		for _, l := range live {
			b, err := os.ReadFile(l.ref)
			if err != nil || string(b) != l.f.Text {
				fail(cc, "tickfmt/source-modified-without-w", "%s\ntickfmt without -w changed the source file (err %v); now (%d bytes):\n%s", describe(l), err, len(b), b)
				return
			}
		}
	}

	// 4. once more over the written files
	if c.Again {
		cc.Label("second -w run")
		if !ok("second -w run", runTickfmt(bin, wdir, "", args...), args) {
			return
		}
		for _, l := range live {
			want2, err := tick.Format(l.got)
			if err != nil {
				return // formatLaws has checked the stability of tick.Format on this text
			}
			if want2 != l.got {
				cc.Label("second -w run:changes-the-file")
			}
			if _, good := written(l, "a second tickfmt -w", "file written by the first run", want2, l.fp); !good {
				return
			}
			if !backup(l, "a second tickfmt -w -b", l.got) {
				return
			}
		}
	}
}

func TestTickfmt(t *testing.T) {
	if _, err := buildTickfmt(); err != nil {
		t.Fatalf("inconclusive: cannot build tickfmt from the tree under test: %v", err)
	}
	defer removeTickfmt()
	r := kit.NewRec("C13", "Tickfmt", ruleTickfmt, assumptionsTickfmt...)
	kit.Check(t, r, genTickfmtWith(r), runTickfmtWith(r))
}

func TestReplayTickfmt(t *testing.T) {
	if _, err := buildTickfmt(); err != nil {
		t.Fatalf("inconclusive: cannot build tickfmt from the tree under test: %v", err)
	}
	defer removeTickfmt()
	r := kit.NewRec("C13", "Tickfmt", ruleTickfmt, assumptionsTickfmt...)
	kit.Replay(t, r, runTickfmtWith(r))
}
