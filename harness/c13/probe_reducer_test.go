package c13

import (
	"fmt"
	"strings"
	"time"

	"github.com/influxdata/influxdb/query"
	"github.com/influxdata/kapacitor/pipeline"
)

// reducerProbe makes the parameters an InfluxQL function node was created with observable: they live
// in closures (percentile, N of top/bottom, window of movingAverage, ...) that no reflective dump can
// see. The node's own reducers are run on a fixed series and what they emit becomes part of the dump.
func reducerProbe(n *pipeline.InfluxQLNode) (out string) {
	defer func() {
		if r := recover(); r != nil {
			out = fmt.Sprintf("panic(%v)", r)
		}
	}()
	if n.Method == "holtWinters" {
		return "skipped(holtWinters: the fit is an expensive optimisation)"
	}
	for _, a := range n.Args {
		switch v := a.(type) {
		case int64:
			if v < -1000 || v > 1000 {
				return "skipped(large argument)"
			}
		case time.Duration:
			if v < -time.Hour*24*365 || v > time.Hour*24*365 {
				return "skipped(large argument)"
			}
		}
	}
	vals := []float64{5, 1, 9, 3, 7, 2, 8, 4, 6, 10, 5, 1, 9, 3, 7, 2}
	var sb strings.Builder
	rc := n.ReduceCreater
	switch {
	case rc.CreateFloatReducer != nil:
		a, e := rc.CreateFloatReducer()
		for i, v := range vals {
			a.AggregateFloat(&query.FloatPoint{Name: "m", Time: int64(i+1) * 1e9, Value: v})
		}
		for _, p := range e.Emit() {
			fmt.Fprintf(&sb, "(%d %g)", p.Time, p.Value)
		}
	case rc.CreateFloatIntegerReducer != nil:
		a, e := rc.CreateFloatIntegerReducer()
		for i, v := range vals {
			a.AggregateFloat(&query.FloatPoint{Name: "m", Time: int64(i+1) * 1e9, Value: v})
		}
		for _, p := range e.Emit() {
			fmt.Fprintf(&sb, "(%d %d)", p.Time, p.Value)
		}
	default:
		return "none"
	}
	if rc.CreateIntegerReducer != nil {
		a, e := rc.CreateIntegerReducer()
		for i, v := range vals {
			a.AggregateInteger(&query.IntegerPoint{Name: "m", Time: int64(i+1) * 1e9, Value: int64(v)})
		}
		sb.WriteString(" int:")
		for _, p := range e.Emit() {
			fmt.Fprintf(&sb, "(%d %d)", p.Time, p.Value)
		}
	}
	return sb.String()
}
