package c13

import (
	"fmt"
	"strconv"
	"strings"

	"github.com/influxdata/kapacitor/tick/ast"
)

// pp is the check's own printer of tick/ast expressions: every unary and binary node is
// parenthesised, literals are printed by value (not by source text), comments, positions
// and the formatter's layout flags (Parens, MultiLine, TripleQuotes, Literal, Base) are
// ignored. Two expressions print identically iff they have the same functions, literals,
// operators and operator nesting (precedence / associativity made explicit).
func pp(n ast.Node) string {
	var b strings.Builder
	ppInto(&b, n)
	return b.String()
}

func ppInto(b *strings.Builder, n ast.Node) {
	switch x := n.(type) {
	case nil:
		b.WriteString("<nil>")
	case *ast.NumberNode:
		if x == nil {
			b.WriteString("<nil-number>")
			return
		}
		switch {
		case x.IsInt && !x.IsFloat:
			b.WriteString("i:" + strconv.FormatInt(x.Int64, 10))
		case x.IsFloat && !x.IsInt:
			b.WriteString("f:" + strconv.FormatFloat(x.Float64, 'g', -1, 64))
		default:
			fmt.Fprintf(b, "num?{%v %v %d %g}", x.IsInt, x.IsFloat, x.Int64, x.Float64)
		}
	case *ast.DurationNode:
		b.WriteString("d:" + strconv.FormatInt(int64(x.Dur), 10))
	case *ast.BoolNode:
		if x.Bool {
			b.WriteString("TRUE")
		} else {
			b.WriteString("FALSE")
		}
	case *ast.StringNode:
		b.WriteString("s:" + strconv.Quote(x.Literal))
	case *ast.ReferenceNode:
		b.WriteString("r:" + strconv.Quote(x.Reference))
	case *ast.RegexNode:
		if x.Regex == nil {
			b.WriteString("re:<nil>")
		} else {
			b.WriteString("re:" + strconv.Quote(x.Regex.String()))
		}
	case *ast.StarNode:
		b.WriteString("*")
	case *ast.IdentifierNode:
		b.WriteString("id:" + x.Ident)
	case *ast.UnaryNode:
		// a minus sign applied to a numeric or duration literal denotes the negative literal
		// (a var holding -7 is inlined as the literal -7, the text "-7" parses as minus applied to 7)
		if lit, ok := foldNeg(x); ok {
			b.WriteString(lit)
			return
		}
		b.WriteString("(" + x.Operator.String() + " ")
		ppInto(b, x.Node)
		b.WriteString(")")
	case *ast.BinaryNode:
		b.WriteString("(")
		ppInto(b, x.Left)
		b.WriteString(" " + x.Operator.String() + " ")
		ppInto(b, x.Right)
		b.WriteString(")")
	case *ast.FunctionNode:
		b.WriteString(x.Type.String() + ":" + x.Func + "(")
		for i, a := range x.Args {
			if i > 0 {
				b.WriteString(", ")
			}
			ppInto(b, a)
		}
		b.WriteString(")")
	case *ast.LambdaNode:
		if x == nil {
			b.WriteString("lambda{<nil>}")
			return
		}
		b.WriteString("lambda{")
		ppInto(b, x.Expression)
		b.WriteString("}")
	case *ast.ListNode:
		b.WriteString("[")
		for i, a := range x.Nodes {
			if i > 0 {
				b.WriteString(", ")
			}
			ppInto(b, a)
		}
		b.WriteString("]")
	case *ast.ChainNode:
		b.WriteString("(")
		ppInto(b, x.Left)
		b.WriteString(" " + x.Operator.String() + " ")
		ppInto(b, x.Right)
		b.WriteString(")")
	case *ast.DeclarationNode:
		b.WriteString("var " + x.Left.Ident + " = ")
		ppInto(b, x.Right)
	case *ast.TypeDeclarationNode:
		b.WriteString("var " + x.Node.Ident + " " + x.Type.Ident)
	case *ast.DBRPNode:
		b.WriteString("dbrp " + strconv.Quote(x.DB.Reference) + "." + strconv.Quote(x.RP.Reference))
	case *ast.CommentNode:
		b.WriteString("<comment>")
	case *ast.ProgramNode:
		first := true
		for _, s := range x.Nodes {
			if _, ok := s.(*ast.CommentNode); ok {
				continue
			}
			if !first {
				b.WriteString("\n")
			}
			first = false
			ppInto(b, s)
		}
	default:
		fmt.Fprintf(b, "<%T>", n)
	}
}

// foldNeg folds chains of unary minus over a numeric/duration literal into one signed literal.
func foldNeg(n ast.Node) (string, bool) {
	neg := false
	for {
		u, ok := n.(*ast.UnaryNode)
		if !ok || u.Operator != ast.TokenMinus {
			break
		}
		neg = !neg
		n = u.Node
	}
	switch x := n.(type) {
	case *ast.NumberNode:
		if x == nil {
			return "", false
		}
		switch {
		case x.IsInt && !x.IsFloat:
			v := x.Int64
			if neg {
				v = -v
			}
			return "i:" + strconv.FormatInt(v, 10), true
		case x.IsFloat && !x.IsInt:
			f := x.Float64
			if neg {
				f = -f
			}
			return "f:" + strconv.FormatFloat(f, 'g', -1, 64), true
		}
	case *ast.DurationNode:
		d := int64(x.Dur)
		if neg {
			d = -d
		}
		return "d:" + strconv.FormatInt(d, 10), true
	}
	return "", false
}
