package c13

import (
	"os"
	"path/filepath"
	"strings"
	"testing"
	"unicode/utf8"

	"verifharness/kit"

	"github.com/influxdata/kapacitor/tick"
	"github.com/influxdata/kapacitor/tick/ast"
)

// FuzzCase is one input of the native fuzz target.
type FuzzCase struct {
	Script string `json:"script"`
}

const ruleFuzz = "native go fuzzing of ast.Parse / tick.Format on arbitrary valid-UTF-8 text (seed corpus: the .tick files of the repository and hand-written scripts); " +
	"inputs that parse feed the formatter laws (formatted text parses to the same program, stable after <= 1 further pass); inputs pipeline.CreatePipeline accepts as stream or batch task feed the full Script laws"

var assumptionsFuzz = []string{
	"inputs are valid UTF-8, at most 3000 bytes",
	"programs containing a bare expression statement (a literal, operator expression, lambda or list that is neither declared nor chained) are out of the domain: the statement has no effect and no task script contains one",
	"the known class K7 (comment printed directly after = =~ !~) cannot be avoided by construction on arbitrary inputs: it is recognised on the formatter's output and counted as an exclusion; the repaired classes (K6, K9, K10, K11) are recognised the same way only to name the signature, they are not excluded",
}

func parseSafe(s string) (n ast.Node, err error) {
	return ast.Parse(s)
}

func runFuzz(r *kit.Rec, c FuzzCase, cc *kit.Case) {
	s := c.Script
	root, err := parseSafe(s)
	if err != nil {
		cc.Label("unparseable")
		return
	}
	cc.Label("parses")
	if prog, ok := root.(*ast.ProgramNode); ok {
		for _, st := range prog.Nodes {
			switch st.(type) {
			case *ast.DeclarationNode, *ast.TypeDeclarationNode, *ast.DBRPNode, *ast.ChainNode, *ast.CommentNode, *ast.FunctionNode, *ast.IdentifierNode:
			default:
				// a bare expression statement (literal, operator expression, lambda, list) has no effect; no task
				// script contains one. (The grammar has no statement separator: such a statement can fuse with
				// its neighbour once the formatter drops redundant parentheses, e.g. `""(-0)` -> `"" - 0`.)
				cc.Label("out-of-domain:bare-expression-statement")
				return
			}
		}
	}
	for _, edge := range []string{"stream", "batch"} {
		if p, err := create(s, edge, nil); err == nil && p != nil {
			cc.Label("defines-" + edge + "-task")
			cc.NonTrivial()
			formatLaws(r, ScriptCase{Script: s, Edge: edge}, cc, true)
			return
		}
	}
	// not a task, but a program: the formatter laws at the AST level
	f1 := ast.Format(root)
	class := formatDefectClass(root, f1)
	known := func() bool { return skip(r, false, knownFormatClass(class) != "", knownFormatClass(class)) }
	r1, err := ast.Parse(f1)
	if err != nil {
		if !known() {
			fail(cc, "format/"+class+"/output-unparseable", "the formatted program does not parse: %v\ninput:\n%s\nformatted:\n%s", err, s, f1)
		}
		return
	}
	if pp(r1) != pp(root) {
		if !known() {
			fail(cc, "format/"+class+"/program-changed", "formatting changed the program; first difference %s\ninput:\n%s\nformatted:\n%s", firstDiff(pp(root), pp(r1)), s, f1)
		}
		return
	}
	st := stability(f1, tick.Format)
	if st.unstable && !skip(r, false, st.class == "/multiline-creep", classK6) {
		if st.class == "" {
			st.class = "/unclassified"
			if k := formatDefectClass(root, st.trace[len(st.trace)-1]); k != "unclassified" {
				class = k
				if known() {
					return
				}
				st.class = "/" + k
			}
		}
		fail(cc, "format/not-stable"+st.class, "format is not stable after one further pass (err=%v)\ninput:\n%s\npasses:\n%s", st.err, s, strings.Join(st.trace, "\n----\n"))
	}
}

var fuzzSeeds = []string{
	"var x = 1",
	"stream\n    |from()\n        .measurement('cpu')\n    |window()\n        .period(10s)\n        .every(5s)\n    |mean('usage')\n    |alert()\n        .crit(lambda: \"mean\" > 90 AND (\"host\" =~ /web.*/ OR !isPresent(\"dc\")))\n        .slack()\n",
	"batch\n    |query('SELECT mean(v) FROM \"db\".\"rp\".\"m\"')\n        .period(1m)\n        .every(1m)\n        .groupBy(time(10s), *)\n    |log()\n",
	"var a = 1h - // c\n 5m\nvar b = 'it\\'s' + '''raw\\'''\nvar c = [a, 'x', *]\nvar d int\ndbrp \"telegraf\".\"autogen\"\n",
	"var l = lambda: -\"a\" - (-1 - 2.5) * 010 / 1. % .5 >= \"b\" AND \"s\" !~ /a\\/b/ // trailing\n",
	"stream|from()@udf().opt(1)|eval(lambda: if(\"a\" == 1u, 'x', string(1µ)))\n    // c1\n\n    // c2\n    .as('x') // end",
}

func repoRoot() string {
	if d := os.Getenv("VERIF_REPO"); d != "" {
		return d
	}
	return "/repo"
}

// FuzzFormat: the formatter laws under Go's coverage-guided fuzzer (thorough tier only).
func FuzzFormat(f *testing.F) {
	r := kit.NewRec("C13", "FuzzFormat", ruleFuzz, assumptionsFuzz...)
	for _, s := range fuzzSeeds {
		f.Add(s)
	}
	_ = filepath.Walk(repoRoot(), func(path string, info os.FileInfo, err error) error {
		if err != nil {
			return nil
		}
		if info.IsDir() && (info.Name() == ".git" || info.Name() == "vendor" || info.Name() == "node_modules") {
			return filepath.SkipDir
		}
		if !info.IsDir() && strings.HasSuffix(path, ".tick") && info.Size() < 3000 {
			if b, err := os.ReadFile(path); err == nil {
				f.Add(string(b))
			}
		}
		return nil
	})
	f.Fuzz(func(t *testing.T, s string) {
		if len(s) > 3000 || !utf8.ValidString(s) {
			return
		}
		c := FuzzCase{Script: s}
		cc := r.Begin(c)
		runFuzz(r, c, cc)
		cc.End()
		if cc.Failed() {
			t.Fatalf("%s", cc.Message())
		}
	})
}

// TestFuzzFormatSeeds runs the seed corpus of FuzzFormat as plain cases (quick tier: no native fuzzing there).
func TestFuzzSeeds(t *testing.T) {
	r := kit.NewRec("C13", "FuzzSeeds", ruleFuzz, assumptionsFuzz...)
	defer r.Flush()
	r.SetExhaustive(true) // the fixed seed corpus is run completely (one shard)
	if sh := os.Getenv("VERIF_SHARD"); sh != "" && sh != "0" {
		return
	}
	var seeds []string
	seeds = append(seeds, fuzzSeeds...)
	_ = filepath.Walk(repoRoot(), func(path string, info os.FileInfo, err error) error {
		if err != nil {
			return nil
		}
		if info.IsDir() && (info.Name() == ".git" || info.Name() == "vendor") {
			return filepath.SkipDir
		}
		if !info.IsDir() && strings.HasSuffix(path, ".tick") && info.Size() < 20000 {
			if b, err := os.ReadFile(path); err == nil {
				seeds = append(seeds, string(b))
			}
		}
		return nil
	})
	for _, s := range seeds {
		if !utf8.ValidString(s) {
			continue
		}
		c := FuzzCase{Script: s}
		cc := r.Begin(c)
		runFuzz(r, c, cc)
		failed, msg := cc.Failed(), cc.Message()
		cc.End()
		if failed {
			t.Errorf("%s", msg)
		}
	}
}

func TestReplayFuzzSeeds(t *testing.T) {
	r := kit.NewRec("C13", "FuzzSeeds", ruleFuzz, assumptionsFuzz...)
	kit.Replay(t, r, func(c FuzzCase, cc *kit.Case) { runFuzz(r, c, cc) })
}

func TestReplayFuzzFormat(t *testing.T) {
	r := kit.NewRec("C13", "FuzzFormat", ruleFuzz, assumptionsFuzz...)
	kit.Replay(t, r, func(c FuzzCase, cc *kit.Case) { runFuzz(r, c, cc) })
}
