package c13

import (
	"os"
	"regexp"
	"strings"

	"verifharness/kit"

	"github.com/influxdata/kapacitor/tick/ast"
)

// fail records a failure; the signature is repeated in the message so that the native fuzz
// driver (which only sees the test output) can recover it.
func fail(cc *kit.Case, sig, format string, args ...any) {
	cc.Fail(sig, "[sig="+sig+"] "+format, args...)
}

// fixedClasses: defect classes repaired in the repository (see known_findings_C13.json for the commits).
// Their exclusions are off by default: the classes are generated and checked like everything else and
// their witnesses are plain regression replays.
var fixedClasses = map[string]bool{
	"K1": true, "K2": true, "K3": true, "K5": true, "K6": true, "K8": true, "K9": true, "K10": true, "K11": true, "K12": true,
	"J3": true, "J4": true, "J5": true, "J6": true, "J10": true, "J11": true,
	"T2": true, "T5": true, "T6": true, "T9": true,
}

func envList(name string) (all bool, set map[string]bool) {
	v := os.Getenv(name)
	set = map[string]bool{}
	for _, x := range strings.Split(v, ",") {
		if x = strings.TrimSpace(x); x != "" {
			set[x] = true
		}
	}
	return set["all"], set
}

// off reports whether the exclusion of a defect class is switched off.
//
//	default            known classes excluded, fixed classes not excluded
//	C13_EXCLUDE=K1,J3  exclude these fixed classes again (all: every fixed class): for running against an older tree
//	C13_NOEXCL=K7,T1   do not exclude these known classes (all: none at all): for validating a patch on a scratch tree
func off(class string) bool {
	id := class
	if i := strings.IndexByte(class, ' '); i > 0 {
		id = class[:i]
	}
	if fixedClasses[id] {
		all, set := envList("C13_EXCLUDE")
		return !(all || set[id])
	}
	all, set := envList("C13_NOEXCL")
	return all || set[id]
}

// Language limits (not defects of the formatter): values that TICKscript cannot write down at the place they are needed.
const (
	classL1 = "L1 language limit: a string value that ends in a backslash and contains ''' has no literal form (built here only by concatenating constants; pipeline/tick law)"
	classL2 = "L2 language limit: the empty regex can only be written directly after =~ !~ = (elsewhere // starts a comment): an empty regex var is not used as a function argument (pipeline/tick law)"
)

const classK11 = "K11 parenthesised regex or star literal directly after 'lambda:', AND or OR (the formatter drops the parentheses; the lexer expects a binary operator there: '/' is division, '*' multiplication)"
const classK6 = "K6 format stability: line breaks after binary operators creep one nesting level per pass (reaches a fixpoint later, layout only)"
const classK7 = "K7 comment positions in a var declaration's constant expression that the formatter prints directly after '=' (before a - AND OR operator on the left spine, inside the operand of a leading unary operator)"

var (
	reCommentAfterAssign = regexp.MustCompile(`(?m)(=|=~|!~)[ \t]*\r?\n[ \t\r\n]*//`)
	reLambdaLeadingRegex = regexp.MustCompile(`(?:lambda:|\bAND|\bOR)[ \t\r\n]*(?:/[^/]|\*)`)
	reCommentBeforeRegex = regexp.MustCompile(`(?m)^[ \t]*//[^\n]*\n(?:[ \t]*\n)*[ \t]*/(?:[^/\n]|$)`)
)

// formatDefectClass names the known defect class a formatted text exhibits ("" if none): the
// classes are recognised in the formatter's output, where they do their damage.
//
//	comment-after-assign   a comment printed directly after = =~ !~ ("//" is lexed as an empty regex there)
//	comment-before-regex   a comment line directly followed by a line starting with a regex literal
//	lambda-leading-regex   "lambda: /re/…", "x AND /re/", "x OR *": the parentheses of `lambda: (/re/)`, `OR (*)` were dropped
//	                       (after "lambda:", AND, OR the lexer expects a binary operator: '/' is lexed as division, '*' as multiplication)
//	dbrp-quote             a dbrp statement whose names contain a double quote (printed unescaped)
func formatDefectClass(original ast.Node, formatted string) string {
	if prog, ok := original.(*ast.ProgramNode); ok {
		for _, s := range prog.Nodes {
			if d, ok := s.(*ast.DBRPNode); ok && d.DB != nil && d.RP != nil {
				if strings.Contains(d.DB.Reference, `"`) || strings.Contains(d.RP.Reference, `"`) {
					return "dbrp-quote"
				}
			}
		}
	}
	if reCommentAfterAssign.MatchString(formatted) {
		return "comment-after-assign"
	}
	if reCommentBeforeRegex.MatchString(formatted) {
		return "comment-before-regex"
	}
	if reLambdaLeadingRegex.MatchString(formatted) {
		return "lambda-leading-regex"
	}
	return "unclassified"
}

// knownFormatClass: the exclusion text of a recognised class (fuzz unit: arbitrary inputs cannot
// avoid the classes by construction, they are recognised on the formatter's output instead).
func knownFormatClass(class string) string {
	switch class {
	case "comment-after-assign":
		return classK7
	case "comment-before-regex":
		return classK10
	case "dbrp-quote":
		return classK9
	case "lambda-leading-regex":
		return classK11
	}
	return ""
}

// ---------------------------------------------------------------- Pipeline unit: failure classes

var (
	reNodeType  = regexp.MustCompile(`^\*pipeline\.(\w+)`)
	reFieldName = regexp.MustCompile(`(\w+)=`)
	reUnknownFn = regexp.MustCompile(`unknown function type (\w+)`)
	reNotChain  = regexp.MustCompile(`is not a chain node but is \*pipeline\.(\w+)`)
	reDurField  = regexp.MustCompile(`Alias\.(\w+) of type time\.Duration`)
)

// pipelineChangeClass names a changed pipeline by the first differing node: "<NodeType>.<Field>" refined for lambdas;
// "node-lost/<NodeType>" when the node has no counterpart at all.
func pipelineChangeClass(a, b string) string {
	x, y := canonFirstPair(a, b)
	nt := "?"
	if m := reNodeType.FindStringSubmatch(x); m != nil {
		nt = m[1]
	} else if m := reNodeType.FindStringSubmatch(y); m != nil {
		nt = m[1]
	}
	if y == "" {
		return "node-lost/" + nt
	}
	if x == "" {
		return "node-added/" + nt
	}
	i := 0
	for i < len(x) && i < len(y) && x[i] == y[i] {
		i++
	}
	field := "?"
	if ms := reFieldName.FindAllStringSubmatchIndex(x[:i], -1); len(ms) > 0 {
		m := ms[len(ms)-1]
		field = x[m[2]:m[3]]
	} else if i < len(x) {
		// the difference starts inside the first field name / header
		if m := reFieldName.FindStringSubmatch(x[i:]); m != nil {
			field = m[1]
		}
	}
	where := nt + "." + field
	// class first, place second: a known-finding key can then name the class with a prefix
	if strings.Contains(x[:i], "lambda{") && strings.LastIndex(x[:i], "lambda{") > strings.LastIndex(x[:i], "} ") {
		lx, ly := x[strings.LastIndex(x[:i], "lambda{"):], y[strings.LastIndex(x[:i], "lambda{"):]
		if k := jsonClass(lx, ly); k != "" {
			return "lambda-" + k[1:] + "/" + where
		}
		if k := formatChangeClass(lx, ly); k != "" {
			return "lambda-" + k[1:] + "/" + where
		}
		return "lambda/" + where
	}
	if strings.HasPrefix(x[i:], "int64:") && strings.HasPrefix(y[i:], "float64:") {
		return "int-as-float/" + where
	}
	if field == "quiet" {
		return "quiet/" + nt
	}
	if nt == "InfluxQLNode" && (field == "Probe" || field == "FieldsAndTags") {
		// what the node's reducers compute / select differs: the parameters the node was created with
		return "influxql-parameters/" + field
	}
	// the value the difference lies in
	if ms := reFieldName.FindAllStringSubmatchIndex(x[:i], -1); len(ms) > 0 {
		v := x[ms[len(ms)-1][1]:]
		for _, z := range []string{`"" `, "0 ", "time.Duration:0 ", "false "} {
			if strings.HasPrefix(v, z) && !strings.HasPrefix(y[ms[len(ms)-1][1]:], z) {
				return "zero-value-lost/" + where
			}
		}
	}
	return "field/" + where
}

func pipelineJSONErrorClass(msg string) string {
	switch {
	case strings.Contains(msg, "does not have where clause") || strings.Contains(msg, "does not have groupBy clause"):
		return "where-groupby-under-source"
	case reDurField.MatchString(msg):
		return "duration-read-as-number/" + reDurField.FindStringSubmatch(msg)[1]
	case strings.Contains(msg, "must pass int64 or duration"):
		return "sample-panic"
	case reUnknownFn.MatchString(msg):
		return "unknown-node-kind/" + reUnknownFn.FindStringSubmatch(msg)[1]
	case strings.Contains(msg, "field args is not a list"):
		return "function-without-arguments"
	case reNotChain.MatchString(msg):
		return "not-a-chain-node/" + reNotChain.FindStringSubmatch(msg)[1]
	}
	return "unclassified"
}

func pipelineTickRejectClass(msg string) string {
	switch {
	case strings.Contains(msg, "unterminated string"):
		return "unterminated-string"
	case strings.Contains(msg, "unexpected lambda"):
		return "nested-lambda"
	case strings.Contains(msg, `calling func "holtWinters"`) && strings.Contains(msg, "too many input arguments"):
		return "holtwinters-with-fit"
	case strings.Contains(msg, "too few input arguments"):
		return "argument-dropped"
	case strings.Contains(msg, "unsupported literal type"):
		return "unsupported-literal"
	}
	return "unclassified"
}
