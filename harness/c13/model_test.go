package c13

import (
	"fmt"
	"regexp"
	"strconv"
	"strings"
	"time"

	"github.com/influxdata/kapacitor/tick/ast"
)

// Values of literal source forms, derived from the language description (tick/TICKscript.md:
// number_lit/duration_lit; a leading zero on an integer means octal, as the formatter tests state).

func intValue(src string) (int64, int, error) {
	base := 10
	if len(src) > 1 && src[0] == '0' {
		base = 8
	}
	v, err := strconv.ParseInt(src, base, 64)
	return v, base, err
}

var unitNs = map[string]int64{"u": 1e3, "µ": 1e3, "ms": 1e6, "s": 1e9, "m": 60e9, "h": 3600e9, "d": 24 * 3600e9, "w": 7 * 24 * 3600e9}

func durValue(src string) (time.Duration, error) {
	num := strings.TrimRight(src, "uµmshdw")
	unit := src[len(num):]
	n, err := strconv.ParseInt(num, 10, 64)
	if err != nil {
		return 0, err
	}
	u, ok := unitNs[unit]
	if !ok {
		return 0, fmt.Errorf("unit %q", unit)
	}
	return time.Duration(n * u), nil
}

var tokenOf = map[string]ast.TokenType{
	"+": ast.TokenPlus, "-": ast.TokenMinus, "*": ast.TokenMult, "/": ast.TokenDiv, "%": ast.TokenMod,
	"==": ast.TokenEqual, "!=": ast.TokenNotEqual, "<": ast.TokenLess, ">": ast.TokenGreater, "<=": ast.TokenLessEqual,
	">=": ast.TokenGreaterEqual, "=~": ast.TokenRegexEqual, "!~": ast.TokenRegexNotEqual, "AND": ast.TokenAnd, "OR": ast.TokenOr,
	"!": ast.TokenNot,
}

// buildOpts: how a non-parser caller fills the formatter-only fields of the nodes.
type buildOpts struct {
	parens   bool // set BinaryNode.Parens where the tree needs parentheses (what the parser does)
	literals bool // set RegexNode.Literal / DurationNode.Literal / StringNode.TripleQuotes like the parser
}

// build constructs the tick/ast nodes of an expression directly (no parser involved).
func build(e *Expr, o buildOpts) (ast.Node, error) {
	return buildAt(nil, e, false, o)
}

func buildAt(parent, e *Expr, right bool, o buildOpts) (ast.Node, error) {
	switch e.K {
	case "bin":
		l, err := buildAt(e, e.A[0], false, o)
		if err != nil {
			return nil, err
		}
		r, err := buildAt(e, e.A[1], true, o)
		if err != nil {
			return nil, err
		}
		b := &ast.BinaryNode{Operator: tokenOf[e.Op], Left: l, Right: r}
		if o.parens && (e.P > 0 || (parent != nil && needParens(parent, e, right))) {
			b.Parens = true
		}
		return b, nil
	case "un":
		n, err := buildAt(e, e.A[0], false, o)
		if err != nil {
			return nil, err
		}
		return &ast.UnaryNode{Operator: tokenOf[e.Op], Node: n}, nil
	case "int":
		v, base, err := intValue(e.V)
		if err != nil {
			return nil, err
		}
		return &ast.NumberNode{IsInt: true, Int64: v, Base: base}, nil
	case "flt":
		f, err := strconv.ParseFloat(e.V, 64)
		if err != nil {
			return nil, err
		}
		return &ast.NumberNode{IsFloat: true, Float64: f}, nil
	case "dur":
		d, err := durValue(e.V)
		if err != nil {
			return nil, err
		}
		n := &ast.DurationNode{Dur: d}
		if o.literals {
			n.Literal = e.V
		}
		return n, nil
	case "str":
		n := &ast.StringNode{Literal: e.V}
		if o.literals {
			n.TripleQuotes = e.TQ && canTriple(e.V)
		}
		return n, nil
	case "ref":
		return &ast.ReferenceNode{Reference: e.V}, nil
	case "bool":
		return &ast.BoolNode{Bool: e.V == "TRUE"}, nil
	case "re":
		re, err := regexp.Compile(e.V)
		if err != nil {
			return nil, err
		}
		n := &ast.RegexNode{Regex: re}
		if o.literals {
			n.Literal = strings.ReplaceAll(e.V, "/", `\/`)
		}
		return n, nil
	case "star":
		return &ast.StarNode{}, nil
	case "id":
		return &ast.IdentifierNode{Ident: e.V}, nil
	case "call":
		f := &ast.FunctionNode{Type: ast.GlobalFunc, Func: e.V}
		for _, a := range e.A {
			n, err := buildAt(e, a, false, o)
			if err != nil {
				return nil, err
			}
			f.Args = append(f.Args, n)
		}
		return f, nil
	}
	return nil, fmt.Errorf("unknown expr kind %q", e.K)
}
