package c13

import (
	"fmt"
	"os"
	"testing"

	"github.com/influxdata/kapacitor/tick"
)

// TestProbe is a manual aid: C13_PROBE=<file> [C13_EDGE=batch] prints format passes and fingerprints.
func TestProbe(t *testing.T) {
	f := os.Getenv("C13_PROBE")
	if f == "" {
		t.Skip()
	}
	b, err := os.ReadFile(f)
	if err != nil {
		t.Fatal(err)
	}
	s := string(b)
	edge := os.Getenv("C13_EDGE")
	p, err := create(s, edge, nil)
	fmt.Printf("create: err=%v\n", err)
	if p != nil {
		fmt.Println(fingerprint(p).Strict)
		fmt.Println("CANON:\n" + fingerprint(p).Canon)
	}
	f1, err := tick.Format(s)
	fmt.Printf("format1 err=%v:\n%s\n", err, f1)
	cur := f1
	for i := 2; i < 10; i++ {
		nx, err := tick.Format(cur)
		fmt.Printf("format%d err=%v same=%v\n", i, err, nx == cur)
		if err != nil || nx == cur {
			break
		}
		fmt.Println(firstDiff(cur, nx))
		if os.Getenv("C13_VERBOSE") != "" {
			fmt.Println(nx)
		}
		cur = nx
	}
	p2, err := create(f1, edge, nil)
	fmt.Printf("create(format): err=%v\n", err)
	if p != nil && p2 != nil {
		a, b := fingerprint(p), fingerprint(p2)
		fmt.Println("same strict:", a.Strict == b.Strict)
		if a.Strict != b.Strict {
			fmt.Println(firstDiff(a.Strict, b.Strict))
		}
	}
}

func TestProbeStab(t *testing.T) {
	f := os.Getenv("C13_PROBE")
	if f == "" {
		t.Skip()
	}
	b, _ := os.ReadFile(f)
	f1, _ := tick.Format(string(b))
	st := stability(f1, tick.Format)
	fmt.Printf("changed=%v unstable=%v class=%q n=%d\n", st.changed, st.unstable, st.class, len(st.trace))
	for i := 1; i < len(st.trace); i++ {
		fmt.Println(i, stripSpace(st.trace[i-1]) == stripSpace(st.trace[i]))
		fmt.Println(firstDiff(stripSpace(st.trace[i-1]), stripSpace(st.trace[i])))
	}
}
