package c13

import (
	"fmt"
	"os"
	"testing"

	"github.com/influxdata/kapacitor/tick"
)

// TestProbe is a manual aid: C13_PROBE=<file> [C13_EDGE=batch] prints format passes and fingerprints.
func TestProbe(t *testing.T) {
	f := os.Getenv("C13_PROBE")
	if f == "" {
		t.Skip()
	}
	b, err := os.ReadFile(f)
	if err != nil {
		t.Fatal(err)
	}
	s := string(b)
	edge := os.Getenv("C13_EDGE")
	p, err := create(s, edge, nil)
	fmt.Printf("create: err=%v\n", err)
	if p != nil {
		fmt.Println(fingerprint(p).Strict)
		fmt.Println("CANON:\n" + fingerprint(p).Canon)
	}
	f1, err := tick.Format(s)
	fmt.Printf("format1 err=%v:\n%s\n", err, f1)
	f2, err := tick.Format(f1)
	fmt.Printf("format2 err=%v same=%v:\n%s\n", err, f1 == f2, f2)
	p2, err := create(f1, edge, nil)
	fmt.Printf("create(format): err=%v\n", err)
	if p != nil && p2 != nil {
		a, b := fingerprint(p), fingerprint(p2)
		fmt.Println("same strict:", a.Strict == b.Strict)
		if a.Strict != b.Strict {
			fmt.Println(firstDiff(a.Strict, b.Strict))
		}
	}
}
